#!/bin/sh
# Background sweep: every property's quick tier under several seeds. usage: sweepq.sh [threads] [seed ...]
T=${1:-6}; [ $# -gt 0 ] && shift
SEEDS=${*:-"1 2 3 4 5 6 7 8"}
ROOT=$(cd "$(dirname "$0")" && pwd)
cd "$ROOT/sim" && CARGO_NET_OFFLINE=true nice -n 10 cargo build --release --offline -j "$T" >/dev/null 2>&1 || { echo build failed; exit 2; }
for s in $SEEDS; do for id in C01 C02 C03 C04 C05 C06 C07 C08 C09 C10 C11 C12 C13 C14 C15 C17 C18 C19 C20; do
  t0=$(date +%s)
  out=$(VERIF_SEED=$s VERIF_ROOT="$ROOT/sweepout" VERIF_KNOWN_FINDINGS=/verif/known_findings.json nice -n 10 ./target/release/check $id --tier quick --threads "$T" 2>&1); rc=$?
  echo "seed=$s $id rc=$rc $(( $(date +%s)-t0 ))s $(echo "$out" | grep -E '^violation key=|^VIOLATION|HARNESS' | cut -c1-500 | head -4)"
done; done
