//! Makes the persistent server binary's own connection loop and RESP encoders reachable.
//!
//! `src/bin/server_persistent.rs` is a binary: nothing in it can be linked. It holds a second connection
//! loop (`handle_connection`) and a second pair of reply encoders (`encode_resp_into`, `encode_error_into`)
//! that the library hooks do not cover. This script copies the file from the tree the crate is built against
//! (the `redis-sim` path dependency, i.e. /repo's working tree) into OUT_DIR with four mechanical edits and
//! `src/sp_bin.rs` includes the copy as a module:
//!   1. inner doc comments (`//!`) and inner attributes (`#![...]`) become plain comments (not allowed inside `include!`);
//!   2. the jemalloc `#[global_allocator]` is dropped (the check binary has its own counting allocator);
//!   3. `#[tokio::main]` is dropped (`main` stays as an ordinary, uncalled async fn);
//!   4. `handle_connection`'s `TcpStream` parameter becomes a generic AsyncRead + AsyncWrite and the
//!      `set_nodelay` call on it is dropped.
//! Every edit must match exactly once; otherwise an empty stand-in is generated (`AVAILABLE = false`) and the
//! checks that need the module report a harness error instead of a verdict.

use std::path::PathBuf;

fn repo_root() -> String {
    let manifest = std::fs::read_to_string(concat!(env!("CARGO_MANIFEST_DIR"), "/Cargo.toml")).unwrap_or_default();
    for line in manifest.lines() {
        if line.trim_start().starts_with("redis-sim") {
            if let Some(i) = line.find("path") {
                let rest = &line[i..];
                if let (Some(a), Some(b)) = (rest.find('"'), rest.rfind('"')) { if b > a { return rest[a + 1..b].to_string(); } }
            }
        }
    }
    "/repo".to_string()
}

fn replace_once(s: &str, from: &str, to: &str, what: &str, problems: &mut Vec<String>) -> String {
    let n = s.matches(from).count();
    if n != 1 { problems.push(format!("{}: pattern found {} times", what, n)); return s.to_string(); }
    s.replacen(from, to, 1)
}

fn main() {
    let root = repo_root();
    println!("cargo:rustc-env=VERIF_REPO_ROOT={}", root);
    let src_path = format!("{}/src/bin/server_persistent.rs", root);
    println!("cargo:rerun-if-changed={}", src_path);
    println!("cargo:rerun-if-changed=build.rs");
    println!("cargo:rerun-if-changed=Cargo.toml");
    let out = PathBuf::from(std::env::var("OUT_DIR").unwrap()).join("server_persistent_inc.rs");
    let mut problems = Vec::new();
    let text = match std::fs::read_to_string(&src_path) { Ok(t) => t, Err(e) => { problems.push(format!("cannot read {}: {}", src_path, e)); String::new() } };
    let mut t: String = text.lines().map(|l| if l.starts_with("//!") { format!("//{}", &l[3..]) } else if l.starts_with("#![") { format!("// {}", l) } else { l.to_string() }).collect::<Vec<_>>().join("\n");
    t = replace_once(&t, "#[cfg(not(target_env = \"msvc\"))]\nuse tikv_jemallocator::Jemalloc;\n", "", "jemalloc import", &mut problems);
    t = replace_once(&t, "#[cfg(not(target_env = \"msvc\"))]\n#[global_allocator]\nstatic GLOBAL: Jemalloc = Jemalloc;\n", "", "global allocator", &mut problems);
    t = replace_once(&t, "#[tokio::main]\n", "", "tokio::main attribute", &mut problems);
    t = replace_once(&t, "async fn handle_connection(\n    mut stream: TcpStream,", "async fn handle_connection(\n    mut stream: impl tokio::io::AsyncRead + tokio::io::AsyncWrite + Unpin,", "handle_connection signature", &mut problems);
    t = replace_once(&t, "    let _ = stream.set_nodelay(true);\n\n    let mut read_buf", "    let mut read_buf", "set_nodelay in handle_connection", &mut problems);
    // 5. the start-up wiring in the middle of `main` (recovery from the object store, WAL replay, persistence workers
    //    and delta sink, WAL actor) is copied out, verbatim, into a function of its own that takes the configuration
    //    `main` reads from the environment as arguments
    let (start_mark, end_mark) = ("    // Create state with replication config\n", "    let state = Arc::new(state);\n");
    let mut startup_fn = String::new();
    if t.matches(start_mark).count() == 1 && t.matches(end_mark).count() == 1 {
        let a = t.find(start_mark).unwrap();
        let b = t.find(end_mark).unwrap() + end_mark.len();
        if a < b {
            let block = &t[a..b];
            startup_fn = format!("\npub const STARTUP_AVAILABLE: bool = true;\n#[allow(clippy::type_complexity)]\npub async fn verif_startup(store_type: &str, data_path: std::path::PathBuf, wal: Option<WalConfig>, repl_config: redis_sim::replication::ReplicationConfig) -> Result<(Arc<ReplicatedShardedState>, Option<redis_sim::streaming::WorkerHandles>, Option<(redis_sim::streaming::WalActorHandle, tokio::task::JoinHandle<()>, Option<tokio::task::JoinHandle<()>>)>), Box<dyn std::error::Error + Send + Sync>> {{\n    let config = Config {{ port: 0, store_type: store_type.to_string(), data_path }};\n    let mut streaming_config = config.to_streaming_config()?;\n    streaming_config.wal = wal;\n{}    Ok((state, worker_handles, wal_task))\n}}\n", block);
        }
    }
    if startup_fn.is_empty() {
        println!("cargo:warning=server_persistent.rs: start-up block of main() not found between its marker lines");
        startup_fn = "\npub const STARTUP_AVAILABLE: bool = false;\npub async fn verif_startup(_store_type: &str, _data_path: std::path::PathBuf, _wal: Option<redis_sim::streaming::WalConfig>, _repl_config: redis_sim::replication::ReplicationConfig) -> Result<(std::sync::Arc<redis_sim::production::ReplicatedShardedState>, Option<redis_sim::streaming::WorkerHandles>, Option<(redis_sim::streaming::WalActorHandle, tokio::task::JoinHandle<()>, Option<tokio::task::JoinHandle<()>>)>), Box<dyn std::error::Error + Send + Sync>> { Err(\"unavailable\".into()) }\n".to_string();
    }
    // 6. (optional) the binary's sockets come from the in-memory network of hook H7, which puts its own gossip listener
    //    (`start_gossip_listener`, `handle_gossip_connection`) on the simulated network as it is
    let mut gossip_fn = String::from("\npub const GOSSIP_AVAILABLE: bool = false;\npub async fn verif_gossip_listener(_port: u16, _state: std::sync::Arc<redis_sim::production::ReplicatedShardedState>) -> Result<(), String> { Err(\"unavailable\".into()) }\n");
    let net_import = "use tokio::net::{TcpListener, TcpStream};\n";
    if problems.is_empty() && t.matches(net_import).count() == 1 && t.matches("async fn start_gossip_listener(\n    port: u16,\n    state: Arc<ReplicatedShardedState>,").count() == 1 {
        t = t.replacen(net_import, "use redis_sim::production::verif_hooks::simnet::{TcpListener, TcpStream};\n", 1);
        gossip_fn = String::from("\npub const GOSSIP_AVAILABLE: bool = true;\npub async fn verif_gossip_listener(port: u16, state: std::sync::Arc<redis_sim::production::ReplicatedShardedState>) -> Result<(), String> { start_gossip_listener(port, state).await.map_err(|e| e.to_string()) }\n");
    } else {
        println!("cargo:warning=server_persistent.rs: gossip listener not put on the simulated network (import or signature changed)");
    }
    if problems.is_empty() {
        t.push_str(&gossip_fn);
        t = format!("macro_rules! println {{ ($($t:tt)*) => {{{{}}}} }}\n{}", t);
        t.push_str(&startup_fn);
        t.push_str("\npub const AVAILABLE: bool = true;\npub const PROBLEMS: &str = \"\";\n");
        t.push_str("pub async fn verif_handle_connection<S: tokio::io::AsyncRead + tokio::io::AsyncWrite + Unpin>(stream: S, state: std::sync::Arc<redis_sim::production::ReplicatedShardedState>) -> Result<(), String> { handle_connection(stream, state).await.map_err(|e| e.to_string()) }\n");
        t.push_str("pub fn verif_encode_resp(value: &redis_sim::redis::RespValue) -> Vec<u8> { let mut b = bytes::BytesMut::new(); encode_resp_into(value, &mut b); b.to_vec() }\n");
        t.push_str("pub fn verif_encode_error(msg: &str) -> Vec<u8> { let mut b = bytes::BytesMut::new(); encode_error_into(msg, &mut b); b.to_vec() }\n");
    } else {
        for p in &problems { println!("cargo:warning=server_persistent.rs not included: {}", p); }
        t = format!("pub const GOSSIP_AVAILABLE: bool = false;\npub async fn verif_gossip_listener(_port: u16, _state: std::sync::Arc<redis_sim::production::ReplicatedShardedState>) -> Result<(), String> {{ Err(\"unavailable\".into()) }}\npub const STARTUP_AVAILABLE: bool = false;\npub async fn verif_startup(_store_type: &str, _data_path: std::path::PathBuf, _wal: Option<redis_sim::streaming::WalConfig>, _repl_config: redis_sim::replication::ReplicationConfig) -> Result<(std::sync::Arc<redis_sim::production::ReplicatedShardedState>, Option<redis_sim::streaming::WorkerHandles>, Option<(redis_sim::streaming::WalActorHandle, tokio::task::JoinHandle<()>, Option<tokio::task::JoinHandle<()>>)>), Box<dyn std::error::Error + Send + Sync>> {{ Err(\"unavailable\".into()) }}\npub const AVAILABLE: bool = false;\npub const PROBLEMS: &str = {:?};\npub async fn verif_handle_connection<S: tokio::io::AsyncRead + tokio::io::AsyncWrite + Unpin>(_stream: S, _state: std::sync::Arc<redis_sim::production::ReplicatedShardedState>) -> Result<(), String> {{ Err(String::new()) }}\npub fn verif_encode_resp(_value: &redis_sim::redis::RespValue) -> Vec<u8> {{ Vec::new() }}\npub fn verif_encode_error(_msg: &str) -> Vec<u8> {{ Vec::new() }}\n", problems.join("; "));
    }
    std::fs::write(&out, t).expect("write generated module");
}
