//! Observable projection of replicated values, and an independent LWW reference.

use redis_sim::replication::state::{ReplicatedValue, ReplicationDelta};
use serde_json::Value;
use std::collections::BTreeMap;

/// Canonical form: maps sorted (serde_json's default map is a BTreeMap), arrays that stand for sets
/// (anything but byte strings, i.e. arrays not made of numbers only) sorted by their rendering.
pub fn canon(v: Value) -> Value {
    match v {
        Value::Array(xs) => {
            let all_num = xs.iter().all(|x| x.is_number());
            let mut ys: Vec<Value> = xs.into_iter().map(canon).collect();
            if !all_num { ys.sort_by(|a, b| a.to_string().cmp(&b.to_string())); }
            Value::Array(ys)
        }
        Value::Object(m) => {
            // sort explicitly: with serde_json's preserve_order feature (which another crate in the
            // build may switch on) a Map keeps insertion order, i.e. the HashMap's iteration order
            let mut entries: Vec<(String, Value)> = m.into_iter().map(|(k, x)| (k, canon(x))).collect();
            entries.sort_by(|a, b| a.0.cmp(&b.0));
            let mut out = serde_json::Map::new();
            for (k, x) in entries { out.insert(k, x); }
            Value::Object(out)
        }
        x => x,
    }
}

/// Everything a client or peer can observe of a replicated value: type, live value / tombstone,
/// per-field registers with stamps, counters per replica, set membership and tags, expiry, vector
/// clock, outer stamp, replication factor.
pub fn proj(v: &ReplicatedValue) -> Value {
    let mut j = canon(serde_json::to_value(v).expect("ReplicatedValue serialises"));
    // The payload bytes once more, read through the accessors instead of the payload type's own serde impl: a
    // projection that renders payloads only through the code under test is blind to a lossy encoding there
    // (both sides of a comparison would be rendered through the same loss).
    if let Value::Object(m) = &mut j { m.insert("_payload".to_string(), raw_payload(v)); }
    // State that shows only in what the value does next: the tag an observed-remove set hands out for its next add, per
    // replica (a set whose counters fell back re-issues a tag that a remove has already seen).
    if let redis_sim::replication::state::CrdtValue::ORSet(o) = &v.crdt {
        let next: BTreeMap<String, String> = (1..=4u64).map(|r| { let mut c = o.clone(); let t = c.add("\u{0}next-tag-probe".to_string(), redis_sim::replication::lattice::ReplicaId::new(r)); (r.to_string(), format!("{:?}", t)) }).collect();
        if let Value::Object(m) = &mut j { m.insert("_next_tags".to_string(), serde_json::to_value(next).unwrap_or(Value::Null)); }
    }
    j
}
fn raw_payload(v: &ReplicatedValue) -> Value {
    fn hex(b: &[u8]) -> String { let mut s = String::with_capacity(b.len() * 2); for x in b { s.push(char::from_digit((x >> 4) as u32, 16).unwrap()); s.push(char::from_digit((x & 15) as u32, 16).unwrap()); } s }
    if let Some(l) = v.lww() { return match &l.value { Some(s) => Value::String(hex(s.as_bytes())), None => Value::Null }; }
    if let Some(h) = v.get_hash() {
        let m: BTreeMap<String, Value> = h.iter().map(|(f, l)| (f.clone(), match &l.value { Some(s) => Value::String(hex(s.as_bytes())), None => Value::Null })).collect();
        return serde_json::to_value(m).unwrap_or(Value::Null);
    }
    Value::Null
}
pub fn proj_s(v: &ReplicatedValue) -> String { proj(v).to_string() }
/// What convergence (C06) is about: the CRDT body with its stamps, the wrapper stamp used for
/// conflict resolution and digests, and the expiry. The vector clock and the replication factor
/// do not take part in choosing a value and are not part of what a replica serves.
pub fn proj_conv_s(v: &ReplicatedValue) -> String {
    let mut j = proj(v);
    if let Value::Object(m) = &mut j { m.remove("vector_clock"); m.remove("replication_factor"); }
    j.to_string()
}

/// Client-visible part only: what reads return (value / fields), liveness and expiry — no stamps.
pub fn visible(v: &ReplicatedValue) -> Value {
    use redis_sim::replication::state::CrdtValue;
    match &v.crdt {
        CrdtValue::Lww(l) => serde_json::json!({"t": "string", "v": l.get().map(|s| s.as_bytes().to_vec()), "exp": if l.get().is_some() { v.expiry_ms } else { None }}),
        CrdtValue::Hash(h) => {
            let live: BTreeMap<String, Vec<u8>> = h.iter().filter_map(|(f, l)| l.get().map(|s| (f.clone(), s.as_bytes().to_vec()))).collect();
            serde_json::json!({"t": "hash", "v": live})
        }
        other => serde_json::json!({"t": "other", "v": canon(serde_json::to_value(other).unwrap())}),
    }
}

/// Fold deltas per key with the implementation's own merge.
pub fn fold_impl<'a>(base: Option<&std::collections::HashMap<String, ReplicatedValue>>, deltas: impl IntoIterator<Item = &'a ReplicationDelta>) -> BTreeMap<String, ReplicatedValue> {
    let mut out: BTreeMap<String, ReplicatedValue> = BTreeMap::new();
    if let Some(b) = base { for (k, v) in b { out.insert(k.clone(), v.clone()); } }
    for d in deltas {
        let merged = match out.get(&d.key) { Some(cur) => cur.merge(&d.value), None => d.value.clone() };
        out.insert(d.key.clone(), merged);
    }
    out
}

pub fn proj_map(m: &BTreeMap<String, ReplicatedValue>) -> BTreeMap<String, String> {
    m.iter().map(|(k, v)| (k.clone(), proj_s(v))).collect()
}
