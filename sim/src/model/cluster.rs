//! Cluster pieces shared by C06/C08: a node = real ReplicatedShardedState (16 real shard actors)
//! + its real GossipState; a 15-line gossip pump standing in for GossipManager's socket loop
//! (drain_outbound -> GossipMessage::serialize -> SimNet -> deserialize -> apply_remote_deltas).

use crate::model::wire::{parse_cmd, R};
use crate::simkit::clock::SimClock;
use crate::simkit::tape::Src;
use redis_sim::production::ReplicatedShardedState;
use redis_sim::replication::state::{ReplicatedValue, ReplicationDelta};
use redis_sim::replication::{ConsistencyLevel, GossipMessage, ReplicationConfig};
use std::collections::BTreeMap;

pub fn repl_config(replica: u64, level: ConsistencyLevel) -> ReplicationConfig {
    ReplicationConfig { enabled: true, replica_id: replica, consistency_level: level, gossip_interval_ms: 100, peers: vec![], replication_factor: 3, partitioned_mode: false, selective_gossip: false, virtual_nodes_per_physical: 50 }
}

pub struct Node { pub id: u64, pub state: ReplicatedShardedState<SimClock>, pub gossip_actor: Option<redis_sim::production::GossipActorHandle> }

impl Node {
    pub fn new(id: u64, level: ConsistencyLevel, clock: &SimClock) -> Node {
        Node { id, state: ReplicatedShardedState::with_time_source(repl_config(id, level), clock.clone()), gossip_actor: None }
    }
    /// The node's other gossip backend: a GossipActor (a mailbox in front of the GossipState) instead of the shared lock.
    pub fn with_gossip_actor(id: u64, level: ConsistencyLevel, clock: &SimClock) -> Node {
        let h = redis_sim::production::GossipActor::spawn(repl_config(id, level));
        Node { id, state: ReplicatedShardedState::with_gossip_actor_and_time(repl_config(id, level), h.clone(), clock.clone()), gossip_actor: Some(h) }
    }
    pub async fn exec(&self, args: &[Vec<u8>]) -> R {
        match parse_cmd(args) { Ok(c) => R::from_resp(&self.state.execute(c).await), Err(e) => R::Err(e) }
    }
    /// Drain the node's outbound gossip queue into serialized messages (one per broadcast message).
    pub async fn pump(&self) -> Vec<Vec<u8>> {
        if let Some(h) = &self.gossip_actor { return h.drain_outbound().await.into_iter().filter_map(|m| m.message.serialize().ok()).collect(); }
        let Some(gs) = self.state.get_gossip_state() else { return vec![] };
        let msgs = gs.write().drain_outbound();
        msgs.into_iter().filter_map(|m| m.message.serialize().ok()).collect()
    }
    /// What the receiving side of the gossip socket does with a message.
    pub fn receive(&self, bytes: &[u8]) -> Result<usize, String> {
        let msg = GossipMessage::deserialize(bytes).map_err(|e| e.to_string())?;
        match msg.into_deltas() { Some(d) => { let n = d.len(); self.state.apply_remote_deltas(d); Ok(n) } None => Ok(0) }
    }
    pub async fn snapshot(&self) -> BTreeMap<String, ReplicatedValue> { self.state.snapshot_state().await.into_iter().collect() }
}

pub fn deltas_of(bytes: &[u8]) -> Vec<ReplicationDelta> {
    GossipMessage::deserialize(bytes).ok().and_then(|m| m.into_deltas()).unwrap_or_default()
}

#[derive(Debug, Clone)]
pub struct Flight { pub from: usize, pub to: usize, pub bytes: Vec<u8>, pub id: u64 }

/// In-flight messages with tape-chosen delivery order, duplication, loss (kept for later
/// redelivery) and partitions.
#[derive(Default)]
pub struct SimNet {
    pub flying: Vec<Flight>,
    pub lost: Vec<Flight>,
    pub blocked: std::collections::BTreeSet<(usize, usize)>,
    pub next_id: u64,
    pub delivered: u64, pub duplicated: u64, pub dropped: u64, pub reordered: u64,
}
impl SimNet {
    pub fn send(&mut self, from: usize, to: usize, bytes: Vec<u8>) { self.next_id += 1; self.flying.push(Flight { from, to, bytes, id: self.next_id }); }
    pub fn partition(&mut self, a: usize, b: usize) { self.blocked.insert((a.min(b), a.max(b))); }
    pub fn heal(&mut self) { self.blocked.clear(); }
    pub fn can(&self, a: usize, b: usize) -> bool { !self.blocked.contains(&(a.min(b), a.max(b))) }
    /// One network event chosen by the tape; returns a message to hand to its receiver, if any.
    pub fn step(&mut self, src: &mut Src, faults: bool) -> Option<Flight> {
        let ready: Vec<usize> = (0..self.flying.len()).filter(|i| self.can(self.flying[*i].from, self.flying[*i].to)).collect();
        if ready.is_empty() { return None; }
        let pick = ready[src.idx(ready.len())];
        if pick != ready[0] { self.reordered += 1; }
        let f = self.flying.remove(pick);
        if faults {
            match src.below(10) {
                0 => { self.dropped += 1; self.lost.push(f); return None; }
                1 => { self.duplicated += 1; self.flying.push(f.clone()); }
                _ => {}
            }
        }
        self.delivered += 1;
        Some(f)
    }
}
