pub mod crdt;
pub mod stream;
pub mod wire;
pub mod cmdgen;
pub mod linz;
pub mod cluster;
pub mod refredis;
