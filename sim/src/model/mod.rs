pub mod crdt;
pub mod stream;
