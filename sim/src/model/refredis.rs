//! RefRedis — an independent executable model of Redis 7.x semantics for the data commands the
//! code under test supports. Written from the Redis command reference and from the semantics of
//! the Redis sources (string2ll, index normalisation, expire generic command, t_string/t_list/
//! t_set/t_hash/t_zset), NOT from the code under test.
//!
//! Keys and members are byte strings; the keyspace is a BTreeMap; deadlines are absolute ms.
//! A key whose deadline is <= now does not exist (the model purges before every command, which is
//! observably the same as Redis's lazy + active expiry for everything the property talks about).
//!
//! Where the model has no authority (platform-dependent float text, behaviour I cannot state
//! precisely) `exec` returns `Exp::NoAuthority` WITHOUT touching the state; the harness then does
//! not send that command.

use super::wire::R;
use std::collections::{BTreeMap, BTreeSet};

pub type B = Vec<u8>;

#[derive(Debug, Clone, PartialEq)]
pub enum Val {
    Str(B),
    List(Vec<B>),
    Set(BTreeSet<B>),
    Hash(BTreeMap<B, B>),
    /// member -> score; ordering (score, member) is computed on demand
    Zset(BTreeMap<B, f64>),
}
impl Val {
    pub fn type_name(&self) -> &'static str {
        match self { Val::Str(_) => "string", Val::List(_) => "list", Val::Set(_) => "set", Val::Hash(_) => "hash", Val::Zset(_) => "zset" }
    }
}

#[derive(Debug, Clone, PartialEq)]
pub struct Entry { pub val: Val, pub exp: Option<u64> }

/// What Redis replies, and how strictly the reply is to be compared.
#[derive(Debug, Clone, PartialEq)]
pub enum Exp {
    /// exactly this reply
    Exact(R),
    /// top-level array compared as a multiset
    Unordered(Vec<R>),
    /// flat [a1,b1,a2,b2…] compared as a multiset of pairs
    UnorderedPairs(Vec<(R, R)>),
    /// an error reply: code (first word) always compared; text only when Redis fixes it verbatim
    Err { code: &'static str, text: Option<String>, judged: bool },
    /// SPOP: reply must be `n` distinct members of `key` (bulk if !array); state NOT yet changed —
    /// the harness calls `apply_spop` with the implementation's choice.
    Pop { key: B, n: usize, array: bool },
    /// RANDOMKEY on a non-empty keyspace: any live key
    AnyKey,
    /// SCAN family, cursor 0: full-iteration contract over `items` (keys, or pairs flattened)
    Scan { key: Option<B>, items: Vec<(R, Option<R>)> },
    /// the model does not speak about this input; state untouched
    NoAuthority(&'static str),
}

pub const WRONGTYPE: &str = "WRONGTYPE Operation against a key holding the wrong kind of value";
pub const NOT_INT: &str = "ERR value is not an integer or out of range";
pub const NOT_FLOAT: &str = "ERR value is not a valid float";
pub const SYNTAX: &str = "ERR syntax error";
pub const NO_SUCH_KEY: &str = "ERR no such key";
pub const INDEX_OOR: &str = "ERR index out of range";
pub const OVERFLOW: &str = "ERR increment or decrement would overflow";

fn err(text: &str) -> Exp {
    let code: &'static str = if text.starts_with("WRONGTYPE") { "WRONGTYPE" } else { "ERR" };
    Exp::Err { code, text: Some(text.to_string()), judged: true }
}
/// error whose text is recorded but not judged
fn err_code_only() -> Exp { Exp::Err { code: "ERR", text: None, judged: false } }
fn wrongtype() -> Exp { err(WRONGTYPE) }
/// arity errors: the text is recorded, only the code is judged
fn arity(name: &str) -> Exp { Exp::Err { code: "ERR", text: Some(format!("ERR wrong number of arguments for '{}' command", name)), judged: false } }
fn bad_expire(name: &str) -> Exp { err(&format!("ERR invalid expire time in '{}' command", name)) }
fn int(i: i64) -> Exp { Exp::Exact(R::Int(i)) }
fn ok() -> Exp { Exp::Exact(R::ok()) }
fn nil() -> Exp { Exp::Exact(R::nil()) }
fn bulk(b: &[u8]) -> Exp { Exp::Exact(R::bulk(b)) }
fn arr(xs: Vec<R>) -> Exp { Exp::Exact(R::Arr(Some(xs))) }

/// Redis `string2ll`: optional '-', no '+', no leading zeros, no spaces, no "-0", fits i64.
pub fn string2ll(s: &[u8]) -> Option<i64> {
    if s.is_empty() || s.len() > 20 { return None; }
    if s == b"0" { return Some(0); }
    let (neg, digits) = if s[0] == b'-' { (true, &s[1..]) } else { (false, s) };
    if digits.is_empty() { return None; }
    if !(b'1'..=b'9').contains(&digits[0]) { return None; }
    let mut v: u128 = 0;
    for c in digits { if !c.is_ascii_digit() { return None; } v = v * 10 + (*c - b'0') as u128; }
    if neg { if v > (i64::MAX as u128) + 1 { return None; } Some((-(v as i128)) as i64) }
    else { if v > i64::MAX as u128 { return None; } Some(v as i64) }
}

/// The part of C `strtod` + Redis `string2d` the generator can reach: decimal floats with optional
/// sign, optional fraction/exponent, and inf/infinity/nan (case-insensitive). Returns
/// `Some(Ok(v))` accepted, `Some(Err(()))` rejected by Redis, `None` = input outside what this
/// model is willing to judge (hex floats, very long mantissas…).
pub fn parse_double(s: &[u8]) -> Option<Result<f64, ()>> {
    if s.is_empty() { return Some(Err(())); }
    if s[0].is_ascii_whitespace() || s[0] == 0x0b { return Some(Err(())); }
    let Ok(t) = std::str::from_utf8(s) else { return Some(Err(())) };
    let lower = t.to_ascii_lowercase();
    let (sign, body) = match lower.as_bytes()[0] { b'+' => (1.0, &lower[1..]), b'-' => (-1.0, &lower[1..]), _ => (1.0, &lower[..]) };
    if body == "inf" || body == "infinity" { return Some(Ok(sign * f64::INFINITY)); }
    if body == "nan" { return Some(Err(())); }
    if body.starts_with("0x") || body.starts_with("nan") || body.starts_with("inf") { return None; }
    // decimal: digits [. digits] [e [+-] digits], at least one digit in the mantissa
    let bytes = body.as_bytes();
    let mut i = 0; let mut nd = 0;
    while i < bytes.len() && bytes[i].is_ascii_digit() { i += 1; nd += 1; }
    if i < bytes.len() && bytes[i] == b'.' { i += 1; while i < bytes.len() && bytes[i].is_ascii_digit() { i += 1; nd += 1; } }
    if nd == 0 { return Some(Err(())); }
    if i < bytes.len() && bytes[i] == b'e' {
        let mut j = i + 1;
        if j < bytes.len() && (bytes[j] == b'+' || bytes[j] == b'-') { j += 1; }
        let d0 = j;
        while j < bytes.len() && bytes[j].is_ascii_digit() { j += 1; }
        if j == d0 { return Some(Err(())); } // "1e" : strtod stops before 'e' -> trailing garbage
        i = j;
    }
    if i != bytes.len() { return Some(Err(())); }
    if nd > 17 { return None; }
    match body.parse::<f64>() {
        Ok(v) if v.is_finite() => Some(Ok(sign * v)),
        Ok(_) => Some(Err(())), // overflow: ERANGE with HUGE_VAL
        Err(_) => None,
    }
}

/// A double whose text is the same under "%.17g" (Redis 7.0) and shortest round-trip (7.2):
/// integers below 2^53 and multiples of 1/64 of modest size. Everything else is outside the
/// model's authority.
/// next doubles after 1 and 2: 17 significant digits under "%.17g" and under shortest round-trip alike
pub const NEIGHBOUR_SCORES: [(f64, &str); 2] = [(1.0000000000000002, "1.0000000000000002"), (2.0000000000000004, "2.0000000000000004")];

pub fn score_is_plain(v: f64) -> bool {
    if v.is_infinite() { return true; }
    if NEIGHBOUR_SCORES.iter().any(|(x, _)| *x == v) { return true; }
    let a = v.abs();
    if a >= 1e15 { return false; }
    if a.fract() == 0.0 { return true; }
    a < 1e9 && (a * 64.0).fract() == 0.0
}
/// Text of a plain score as Redis prints it in RESP2.
pub fn score_text(v: f64) -> B {
    if let Some((_, t)) = NEIGHBOUR_SCORES.iter().find(|(x, _)| *x == v) { return t.as_bytes().to_vec(); }
    if v.is_infinite() { return if v > 0.0 { b"inf".to_vec() } else { b"-inf".to_vec() }; }
    // negative zero keeps its sign in the text ("%.17g" and shortest round-trip alike) and ties with zero in the order
    if v == 0.0 { return if v.is_sign_negative() { b"-0".to_vec() } else { b"0".to_vec() }; }
    if v.fract() == 0.0 { return format!("{}", v as i64).into_bytes(); }
    // multiples of 1/64: exact decimal expansion with <= 6 fraction digits
    let n = (v * 64.0) as i64; // exact
    let neg = n < 0; let n = n.unsigned_abs();
    let ip = n / 64; let fp = (n % 64) * 15625; // /64 * 10^6
    let mut frac = format!("{:06}", fp);
    while frac.ends_with('0') { frac.pop(); }
    format!("{}{}.{}", if neg { "-" } else { "" }, ip, frac).into_bytes()
}

/// Redis `stringmatchlen` (glob): * ? [set] [^set] [a-z] and backslash escapes, byte-wise.
pub fn glob(p: &[u8], s: &[u8]) -> bool {
    let (mut pi, mut si) = (0usize, 0usize);
    while pi < p.len() {
        match p[pi] {
            b'*' => {
                while pi + 1 < p.len() && p[pi + 1] == b'*' { pi += 1; }
                if pi + 1 == p.len() { return true; }
                let mut k = si;
                loop {
                    if glob(&p[pi + 1..], &s[k..]) { return true; }
                    if k >= s.len() { return false; }
                    k += 1;
                }
            }
            b'?' => { if si >= s.len() { return false; } si += 1; }
            b'[' => {
                if si >= s.len() { return false; }
                pi += 1;
                let not = pi < p.len() && p[pi] == b'^';
                if not { pi += 1; }
                let mut matched = false;
                loop {
                    if pi < p.len() && p[pi] == b'\\' && pi + 1 < p.len() { pi += 1; if p[pi] == s[si] { matched = true; } }
                    else if pi < p.len() && p[pi] == b']' { break; }
                    else if pi >= p.len() { pi -= 1; break; }
                    else if pi + 2 < p.len() && p[pi + 1] == b'-' {
                        let (mut a, mut b) = (p[pi], p[pi + 2]);
                        if a > b { std::mem::swap(&mut a, &mut b); }
                        pi += 2;
                        if s[si] >= a && s[si] <= b { matched = true; }
                    } else if p[pi] == s[si] { matched = true; }
                    pi += 1;
                }
                if not { matched = !matched; }
                if !matched { return false; }
                si += 1;
            }
            b'\\' if pi + 1 < p.len() => { pi += 1; if si >= s.len() || p[pi] != s[si] { return false; } si += 1; }
            c => { if si >= s.len() || c != s[si] { return false; } si += 1; }
        }
        pi += 1;
        if si >= s.len() {
            while pi < p.len() && p[pi] == b'*' { pi += 1; }
            break;
        }
    }
    pi >= p.len() && si >= s.len()
}

fn up(a: &[u8]) -> String { String::from_utf8_lossy(a).to_ascii_uppercase() }

#[derive(Debug, Clone, Default)]
pub struct RefRedis {
    pub db: BTreeMap<B, Entry>,
    /// absolute ms
    pub now: u64,
    /// set by the last `exec`: a collection became empty and its key was removed
    pub emptied: bool,
    /// every key that stopped existing because its deadline was reached (by the clock, or because a
    /// command gave it a deadline that is already in the past); drained by the harness
    pub expired_log: Vec<(B, Entry)>,
}

impl RefRedis {
    pub fn new(now: u64) -> Self { RefRedis { db: BTreeMap::new(), now, emptied: false, expired_log: Vec::new() } }

    /// Move the clock (monotone) and drop every key whose deadline has been reached.
    /// Returns the keys that expired.
    pub fn set_now(&mut self, now: u64) -> Vec<(B, Entry)> {
        if now > self.now { self.now = now; }
        self.purge()
    }
    pub fn purge(&mut self) -> Vec<(B, Entry)> {
        let now = self.now;
        let dead: Vec<B> = self.db.iter().filter(|(_, e)| e.exp.map(|d| d <= now).unwrap_or(false)).map(|(k, _)| k.clone()).collect();
        let out: Vec<(B, Entry)> = dead.into_iter().map(|k| { let e = self.db.remove(&k).unwrap(); (k, e) }).collect();
        self.expired_log.extend(out.iter().cloned());
        out
    }
    pub fn pttl(&self, k: &[u8]) -> i64 {
        match self.db.get(k) { None => -2, Some(e) => match e.exp { None => -1, Some(d) => d as i64 - self.now as i64 } }
    }
    fn get(&self, k: &[u8]) -> Option<&Val> { self.db.get(k).map(|e| &e.val) }
    /// store a value, clearing any TTL (Redis `setKey` without KEEPTTL)
    fn put(&mut self, k: &[u8], v: Val) { self.db.insert(k.to_vec(), Entry { val: v, exp: None }); }
    /// store a value keeping the TTL of an existing key (in-place modification / dbOverwrite)
    fn put_keep(&mut self, k: &[u8], v: Val) {
        let exp = self.db.get(k).and_then(|e| e.exp);
        self.db.insert(k.to_vec(), Entry { val: v, exp });
    }
    fn drop_if_empty(&mut self, k: &[u8]) {
        let empty = match self.get(k) { Some(Val::List(l)) => l.is_empty(), Some(Val::Set(s)) => s.is_empty(), Some(Val::Hash(h)) => h.is_empty(), Some(Val::Zset(z)) => z.is_empty(), _ => false };
        if empty { self.db.remove(k); self.emptied = true; }
    }

    /// zset in Redis order: score ascending, then member bytes ascending
    pub fn zsorted(z: &BTreeMap<B, f64>) -> Vec<(B, f64)> {
        let mut v: Vec<(B, f64)> = z.iter().map(|(m, s)| (m.clone(), *s)).collect();
        v.sort_by(|a, b| a.1.partial_cmp(&b.1).unwrap_or(std::cmp::Ordering::Equal).then_with(|| a.0.cmp(&b.0)));
        v
    }

    /// Would `exec` decline this command? (runs on a copy; the state is untouched)
    pub fn clone_probe(&self, a: &[B]) -> Exp {
        let mut c = self.clone();
        match c.exec(a) { Exp::NoAuthority(w) => Exp::NoAuthority(w), _ => Exp::Exact(R::ok()) }
    }

    /// Execute one command (argument vector, command name first).
    pub fn exec(&mut self, a: &[B]) -> Exp {
        self.emptied = false;
        self.purge();
        if a.is_empty() { return Exp::NoAuthority("empty command"); }
        let name = up(&a[0]);
        match name.as_str() {
            "GET" | "SET" | "SETNX" | "SETEX" | "PSETEX" | "GETEX" | "GETDEL" | "GETSET" | "APPEND" | "STRLEN" | "MGET" | "MSET" | "MSETNX"
            | "GETRANGE" | "SUBSTR" | "SETRANGE" | "INCR" | "DECR" | "INCRBY" | "DECRBY" | "INCRBYFLOAT" | "SETBIT" | "GETBIT" => self.exec_string(&name, a),
            "DEL" | "EXISTS" | "TYPE" | "KEYS" | "DBSIZE" | "FLUSHDB" | "FLUSHALL" | "RENAME" | "RENAMENX" | "RANDOMKEY"
            | "EXPIRE" | "PEXPIRE" | "EXPIREAT" | "PEXPIREAT" | "TTL" | "PTTL" | "EXPIRETIME" | "PEXPIRETIME" | "PERSIST" => self.exec_key(&name, a),
            "LPUSH" | "RPUSH" | "LPOP" | "RPOP" | "LLEN" | "LINDEX" | "LRANGE" | "LSET" | "LTRIM" | "RPOPLPUSH" | "LMOVE" => self.exec_list(&name, a),
            "SADD" | "SREM" | "SMEMBERS" | "SISMEMBER" | "SCARD" | "SPOP" => self.exec_set(&name, a),
            "HSET" | "HGET" | "HDEL" | "HGETALL" | "HKEYS" | "HVALS" | "HLEN" | "HEXISTS" | "HINCRBY" => self.exec_hash(&name, a),
            "ZADD" | "ZREM" | "ZRANGE" | "ZREVRANGE" | "ZSCORE" | "ZRANK" | "ZCARD" | "ZCOUNT" | "ZRANGEBYSCORE" => self.exec_zset(&name, a),
            "SCAN" | "HSCAN" | "ZSCAN" => self.exec_scan(&name, a),
            _ => Exp::NoAuthority("command not modelled"),
        }
    }
}

// ------------------------------------------------------------------------------------------
// strings and counters
// ------------------------------------------------------------------------------------------

/// SET / GETEX option parsing (Redis `parseExtendedStringArgumentsOrReply`).
#[derive(Default, Debug)]
struct StrOpts { nx: bool, xx: bool, get: bool, keepttl: bool, persist: bool, unit_ms: bool, absolute: bool, expire: Option<B> }

fn parse_str_opts(args: &[B], is_set: bool) -> Result<StrOpts, ()> {
    let mut o = StrOpts::default();
    let (mut ex, mut px, mut exat, mut pxat) = (false, false, false, false);
    let mut j = 0;
    while j < args.len() {
        let opt = up(&args[j]);
        let next = args.get(j + 1);
        match opt.as_str() {
            "NX" if is_set && !o.xx => o.nx = true,
            "XX" if is_set && !o.nx => o.xx = true,
            "GET" if is_set => o.get = true,
            "KEEPTTL" if is_set && !o.persist && !ex && !exat && !px && !pxat => o.keepttl = true,
            "PERSIST" if !is_set && !ex && !exat && !px && !pxat && !o.keepttl => o.persist = true,
            "EX" if next.is_some() && !o.keepttl && !o.persist && !exat && !px && !pxat => { ex = true; o.expire = next.cloned(); o.unit_ms = false; o.absolute = false; j += 1; }
            "PX" if next.is_some() && !o.keepttl && !o.persist && !ex && !exat && !pxat => { px = true; o.expire = next.cloned(); o.unit_ms = true; o.absolute = false; j += 1; }
            "EXAT" if next.is_some() && !o.keepttl && !o.persist && !ex && !px && !pxat => { exat = true; o.expire = next.cloned(); o.unit_ms = false; o.absolute = true; j += 1; }
            "PXAT" if next.is_some() && !o.keepttl && !o.persist && !ex && !exat && !px => { pxat = true; o.expire = next.cloned(); o.unit_ms = true; o.absolute = true; j += 1; }
            _ => return Err(()),
        }
        j += 1;
    }
    Ok(o)
}

impl RefRedis {
    /// Redis `getExpireMillisecondsOrReply`: absolute deadline in ms, or the error reply.
    fn expire_ms(&self, raw: &[u8], unit_ms: bool, absolute: bool, cmd: &str) -> Result<u64, Exp> {
        let Some(mut ms) = string2ll(raw) else { return Err(err(NOT_INT)) };
        if ms <= 0 || (!unit_ms && ms > i64::MAX / 1000) { return Err(bad_expire(cmd)); }
        if !unit_ms { ms *= 1000; }
        if !absolute {
            match ms.checked_add(self.now as i64) { Some(v) if v > 0 => ms = v, _ => return Err(bad_expire(cmd)) }
        }
        Ok(ms as u64)
    }

    fn str_of(&self, k: &[u8]) -> Result<Option<&B>, Exp> {
        match self.get(k) { None => Ok(None), Some(Val::Str(s)) => Ok(Some(s)), Some(_) => Err(wrongtype()) }
    }

    fn incr_by(&mut self, k: &[u8], by: i64) -> Exp {
        let cur = match self.str_of(k) { Err(e) => return e, Ok(None) => 0, Ok(Some(s)) => match string2ll(s) { Some(v) => v, None => return err(NOT_INT) } };
        let Some(nv) = cur.checked_add(by) else { return err(OVERFLOW) };
        self.put_keep(k, Val::Str(nv.to_string().into_bytes()));
        int(nv)
    }

    fn exec_string(&mut self, name: &str, a: &[B]) -> Exp {
        let lname = name.to_ascii_lowercase();
        let n = a.len();
        match name {
            "GET" => {
                if n != 2 { return arity(&lname); }
                match self.str_of(&a[1]) { Err(e) => e, Ok(None) => nil(), Ok(Some(s)) => bulk(s) }
            }
            "SET" => {
                if n < 3 { return arity(&lname); }
                let Ok(o) = parse_str_opts(&a[3..], true) else { return err(SYNTAX) };
                self.set_generic(&a[1], &a[2], &o, "set", ok(), nil())
            }
            "SETNX" => {
                if n != 3 { return arity(&lname); }
                let o = StrOpts { nx: true, ..Default::default() };
                self.set_generic(&a[1], &a[2], &o, "setnx", int(1), int(0))
            }
            "SETEX" | "PSETEX" => {
                if n != 4 { return arity(&lname); }
                let o = StrOpts { expire: Some(a[2].clone()), unit_ms: name == "PSETEX", ..Default::default() };
                self.set_generic(&a[1], &a[3], &o, &lname, ok(), nil())
            }
            "GETEX" => {
                if n < 2 { return arity(&lname); }
                let Ok(o) = parse_str_opts(&a[2..], false) else { return err(SYNTAX) };
                let v = match self.str_of(&a[1]) { Err(e) => return e, Ok(None) => return nil(), Ok(Some(s)) => s.clone() };
                if let Some(raw) = &o.expire {
                    let d = match self.expire_ms(raw, o.unit_ms, o.absolute, "getex") { Ok(d) => d, Err(e) => return e };
                    if d <= self.now { if let Some(e) = self.db.remove(&a[1]) { self.expired_log.push((a[1].clone(), e)); } } else if let Some(e) = self.db.get_mut(&a[1]) { e.exp = Some(d); }
                } else if o.persist {
                    if let Some(e) = self.db.get_mut(&a[1]) { e.exp = None; }
                }
                bulk(&v)
            }
            "GETDEL" => {
                if n != 2 { return arity(&lname); }
                match self.str_of(&a[1]) { Err(e) => e, Ok(None) => nil(), Ok(Some(s)) => { let v = s.clone(); self.db.remove(&a[1]); bulk(&v) } }
            }
            "GETSET" => {
                if n != 3 { return arity(&lname); }
                let old = match self.str_of(&a[1]) { Err(e) => return e, Ok(o) => o.cloned() };
                self.put(&a[1], Val::Str(a[2].clone()));
                match old { Some(v) => bulk(&v), None => nil() }
            }
            "APPEND" => {
                if n != 3 { return arity(&lname); }
                let mut cur = match self.str_of(&a[1]) { Err(e) => return e, Ok(o) => o.cloned().unwrap_or_default() };
                cur.extend_from_slice(&a[2]);
                let len = cur.len() as i64;
                self.put_keep(&a[1], Val::Str(cur));
                int(len)
            }
            "STRLEN" => {
                if n != 2 { return arity(&lname); }
                match self.str_of(&a[1]) { Err(e) => e, Ok(None) => int(0), Ok(Some(s)) => int(s.len() as i64) }
            }
            "MGET" => {
                if n < 2 { return arity(&lname); }
                arr(a[1..].iter().map(|k| match self.get(k) { Some(Val::Str(s)) => R::bulk(s), _ => R::nil() }).collect())
            }
            "MSET" | "MSETNX" => {
                if n < 3 || n % 2 == 0 { return arity(&lname); }
                if name == "MSETNX" && a[1..].chunks(2).any(|c| self.db.contains_key(&c[0])) { return int(0); }
                for c in a[1..].chunks(2) { self.put(&c[0], Val::Str(c[1].clone())); }
                if name == "MSET" { ok() } else { int(1) }
            }
            "GETRANGE" | "SUBSTR" => {
                if n != 4 { return arity(&lname); }
                let (Some(start), Some(end)) = (string2ll(&a[2]), string2ll(&a[3])) else { return err(NOT_INT) };
                let s = match self.str_of(&a[1]) { Err(e) => return e, Ok(None) => return bulk(b""), Ok(Some(s)) => s };
                let len = s.len() as i128;
                let (mut st, mut en) = (start as i128, end as i128);
                if st < 0 && en < 0 && st > en { return bulk(b""); }
                if st < 0 { st += len; }
                if en < 0 { en += len; }
                if st < 0 { st = 0; }
                if en < 0 { en = 0; }
                if en >= len { en = len - 1; }
                if st > en || len == 0 { return bulk(b""); }
                bulk(&s[st as usize..=en as usize])
            }
            "SETRANGE" => {
                if n != 4 { return arity(&lname); }
                let Some(off) = string2ll(&a[2]) else { return err(NOT_INT) };
                if off < 0 { return err("ERR offset is out of range"); }
                let cur = match self.str_of(&a[1]) { Err(e) => return e, Ok(o) => o.cloned() };
                let v = &a[3];
                if v.is_empty() { return int(cur.map(|s| s.len()).unwrap_or(0) as i64); }
                if off as u128 + v.len() as u128 > 512 * 1024 * 1024 { return err("ERR string exceeds maximum allowed size (proto-max-bulk-len)"); }
                let mut s = cur.unwrap_or_default();
                let off = off as usize;
                if s.len() < off + v.len() { s.resize(off + v.len(), 0); }
                s[off..off + v.len()].copy_from_slice(v);
                let len = s.len() as i64;
                self.put_keep(&a[1], Val::Str(s));
                int(len)
            }
            "INCR" | "DECR" => {
                if n != 2 { return arity(&lname); }
                self.incr_by(&a[1], if name == "INCR" { 1 } else { -1 })
            }
            "INCRBY" | "DECRBY" => {
                if n != 3 { return arity(&lname); }
                let Some(by) = string2ll(&a[2]) else { return err(NOT_INT) };
                if name == "DECRBY" {
                    // Redis: "decrement would overflow" for LLONG_MIN; text not judged
                    if by == i64::MIN { return err_code_only(); }
                    return self.incr_by(&a[1], -by);
                }
                self.incr_by(&a[1], by)
            }
            "INCRBYFLOAT" => {
                if n != 3 { return arity(&lname); }
                let cur = match self.str_of(&a[1]) { Err(e) => return e, Ok(o) => o.cloned() };
                let cur_v = match &cur { None => 0.0, Some(s) => match parse_double(s) { Some(Ok(v)) => v, Some(Err(())) => return err(NOT_FLOAT), None => return Exp::NoAuthority("INCRBYFLOAT on a value whose long-double reading is not modelled") } };
                let inc = match parse_double(&a[2]) { Some(Ok(v)) => v, Some(Err(())) => return err(NOT_FLOAT), None => return Exp::NoAuthority("INCRBYFLOAT increment not modelled") };
                // authority only where long double, double and the decimal text agree exactly
                let plain = |v: f64| v.is_finite() && v.abs() < 1e12 && (v * 64.0).fract() == 0.0;
                if !plain(cur_v) || !plain(inc) { return Exp::NoAuthority("INCRBYFLOAT outside exactly representable short decimals"); }
                if let Some(s) = &cur { if s.len() > 17 { return Exp::NoAuthority("INCRBYFLOAT on a long numeral"); } }
                let nv = cur_v + inc;
                if !plain(nv) { return Exp::NoAuthority("INCRBYFLOAT result outside exactly representable short decimals"); }
                let text = if nv == 0.0 { b"0".to_vec() } else { score_text(nv) };
                self.put_keep(&a[1], Val::Str(text.clone()));
                bulk(&text)
            }
            "SETBIT" => {
                if n != 4 { return arity(&lname); }
                let off = match string2ll(&a[2]) { Some(v) if (0..4_294_967_296i64).contains(&v) => v as usize, _ => return err("ERR bit offset is not an integer or out of range") };
                let bit = match string2ll(&a[3]) { Some(v @ (0 | 1)) => v as u8, _ => return err("ERR bit is not an integer or out of range") };
                if off > 1 << 20 { return Exp::NoAuthority("SETBIT with a large offset is not generated"); }
                let mut s = match self.str_of(&a[1]) { Err(e) => return e, Ok(o) => o.cloned().unwrap_or_default() };
                let byte = off >> 3;
                if s.len() < byte + 1 { s.resize(byte + 1, 0); }
                let mask = 1u8 << (7 - (off & 7));
                let old = (s[byte] & mask != 0) as i64;
                if bit == 1 { s[byte] |= mask; } else { s[byte] &= !mask; }
                self.put_keep(&a[1], Val::Str(s));
                int(old)
            }
            "GETBIT" => {
                if n != 3 { return arity(&lname); }
                let off = match string2ll(&a[2]) { Some(v) if (0..4_294_967_296i64).contains(&v) => v as usize, _ => return err("ERR bit offset is not an integer or out of range") };
                let s = match self.str_of(&a[1]) { Err(e) => return e, Ok(None) => return int(0), Ok(Some(s)) => s };
                let byte = off >> 3;
                if byte >= s.len() { return int(0); }
                int((s[byte] & (1u8 << (7 - (off & 7))) != 0) as i64)
            }
            _ => Exp::NoAuthority("string command not modelled"),
        }
    }

    /// Redis `setGenericCommand`.
    fn set_generic(&mut self, k: &[u8], v: &[u8], o: &StrOpts, cmd: &str, ok_reply: Exp, abort_reply: Exp) -> Exp {
        let deadline = match &o.expire { Some(raw) => match self.expire_ms(raw, o.unit_ms, o.absolute, cmd) { Ok(d) => Some(d), Err(e) => return e }, None => None };
        let mut get_reply = None;
        if o.get {
            match self.str_of(k) { Err(e) => return e, Ok(None) => get_reply = Some(nil()), Ok(Some(s)) => get_reply = Some(bulk(s)) }
        }
        let found = self.db.contains_key(k);
        if (o.nx && found) || (o.xx && !found) { return get_reply.unwrap_or(abort_reply); }
        if o.keepttl { self.put_keep(k, Val::Str(v.to_vec())); } else { self.put(k, Val::Str(v.to_vec())); }
        if let Some(d) = deadline { if let Some(e) = self.db.get_mut(k) { e.exp = Some(d); } }
        self.purge(); // an absolute deadline in the past: the key is logically gone at once
        get_reply.unwrap_or(ok_reply)
    }
}

// ------------------------------------------------------------------------------------------
// keys and expiry
// ------------------------------------------------------------------------------------------

impl RefRedis {
    /// Redis `expireGenericCommand`. `basetime` = now for EXPIRE/PEXPIRE, 0 for *AT.
    fn expire_generic(&mut self, a: &[B], unit_ms: bool, relative: bool, lname: &str) -> Exp {
        // flags first
        let (mut nx, mut xx, mut gt, mut lt) = (false, false, false, false);
        for f in &a[3..] {
            match up(f).as_str() { "NX" => nx = true, "XX" => xx = true, "GT" => gt = true, "LT" => lt = true,
                _ => return Exp::Err { code: "ERR", text: Some(format!("ERR Unsupported option {}", String::from_utf8_lossy(f))), judged: false } }
        }
        if nx && (xx || gt || lt) { return err("ERR NX and XX, GT or LT options at the same time are not compatible"); }
        if gt && lt { return err("ERR GT and LT options at the same time are not compatible"); }
        let Some(mut when) = string2ll(&a[2]) else { return err(NOT_INT) };
        if !unit_ms {
            if when > i64::MAX / 1000 || when < i64::MIN / 1000 { return bad_expire(lname); }
            when *= 1000;
        }
        let basetime = if relative { self.now as i64 } else { 0 };
        if when > i64::MAX - basetime { return bad_expire(lname); }
        when += basetime;
        let Some(e) = self.db.get(&a[1]) else { return int(0) };
        let cur: i64 = e.exp.map(|d| d as i64).unwrap_or(-1);
        if nx && cur != -1 { return int(0); }
        if xx && cur == -1 { return int(0); }
        if gt && (when <= cur || cur == -1) { return int(0); }
        if lt && cur != -1 && when >= cur { return int(0); }
        if when <= self.now as i64 { if let Some(e) = self.db.remove(&a[1]) { self.expired_log.push((a[1].clone(), e)); } return int(1); }
        if let Some(e) = self.db.get_mut(&a[1]) { e.exp = Some(when as u64); }
        int(1)
    }

    fn exec_key(&mut self, name: &str, a: &[B]) -> Exp {
        let lname = name.to_ascii_lowercase();
        let n = a.len();
        match name {
            "DEL" => {
                if n < 2 { return arity(&lname); }
                let mut c = 0;
                for k in &a[1..] { if self.db.remove(k).is_some() { c += 1; } }
                int(c)
            }
            "EXISTS" => {
                if n < 2 { return arity(&lname); }
                int(a[1..].iter().filter(|k| self.db.contains_key(*k)).count() as i64)
            }
            "TYPE" => {
                if n != 2 { return arity(&lname); }
                Exp::Exact(R::Simple(self.get(&a[1]).map(|v| v.type_name()).unwrap_or("none").to_string()))
            }
            "KEYS" => {
                if n != 2 { return arity(&lname); }
                let all = a[1] == b"*";
                Exp::Unordered(self.db.keys().filter(|k| all || glob(&a[1], k)).map(|k| R::bulk(k)).collect())
            }
            "DBSIZE" => { if n != 1 { return arity(&lname); } int(self.db.len() as i64) }
            "FLUSHDB" | "FLUSHALL" => {
                if n != 1 { return Exp::NoAuthority("FLUSH* with options is not generated"); }
                self.db.clear();
                ok()
            }
            "RENAME" | "RENAMENX" => {
                if n != 3 { return arity(&lname); }
                let nx = name == "RENAMENX";
                if !self.db.contains_key(&a[1]) { return err(NO_SUCH_KEY); }
                if a[1] == a[2] { return if nx { int(0) } else { ok() }; }
                if nx && self.db.contains_key(&a[2]) { return int(0); }
                let e = self.db.remove(&a[1]).unwrap();
                self.db.insert(a[2].clone(), e);
                if nx { int(1) } else { ok() }
            }
            "RANDOMKEY" => {
                if n != 1 { return arity(&lname); }
                if self.db.is_empty() { nil() } else { Exp::AnyKey }
            }
            "EXPIRE" | "PEXPIRE" => {
                if n < 3 { return arity(&lname); }
                self.expire_generic(a, name == "PEXPIRE", true, &lname)
            }
            "EXPIREAT" | "PEXPIREAT" => {
                if n < 3 { return arity(&lname); }
                if n > 3 { return Exp::NoAuthority("EXPIREAT/PEXPIREAT flags are not supported by the code under test"); }
                self.expire_generic(a, name == "PEXPIREAT", false, &lname)
            }
            "TTL" | "PTTL" => {
                if n != 2 { return arity(&lname); }
                let p = self.pttl(&a[1]);
                if p < 0 { return int(p); }
                int(if name == "TTL" { (p + 500) / 1000 } else { p })
            }
            "EXPIRETIME" | "PEXPIRETIME" => {
                if n != 2 { return arity(&lname); }
                match self.db.get(&a[1]) { None => int(-2), Some(e) => match e.exp { None => int(-1), Some(d) => int(if name == "EXPIRETIME" { (d as i64 + 500) / 1000 } else { d as i64 }) } }
            }
            "PERSIST" => {
                if n != 2 { return arity(&lname); }
                match self.db.get_mut(&a[1]) { Some(e) if e.exp.is_some() => { e.exp = None; int(1) } _ => int(0) }
            }
            _ => Exp::NoAuthority("key command not modelled"),
        }
    }
}

// ------------------------------------------------------------------------------------------
// lists
// ------------------------------------------------------------------------------------------

/// Redis range normalisation for LRANGE/ZRANGE: None = empty range.
fn norm_range(start: i64, end: i64, len: usize) -> Option<(usize, usize)> {
    let len = len as i128;
    let (mut s, mut e) = (start as i128, end as i128);
    if s < 0 { s += len; }
    if e < 0 { e += len; }
    if s < 0 { s = 0; }
    if s > e || s >= len { return None; }
    if e >= len { e = len - 1; }
    Some((s as usize, e as usize))
}

impl RefRedis {
    fn list_of(&self, k: &[u8]) -> Result<Option<&Vec<B>>, Exp> {
        match self.get(k) { None => Ok(None), Some(Val::List(l)) => Ok(Some(l)), Some(_) => Err(wrongtype()) }
    }

    fn lmove(&mut self, src: &[u8], dst: &[u8], from_left: bool, to_left: bool) -> Exp {
        let mut s = match self.list_of(src) { Err(e) => return e, Ok(None) => return nil(), Ok(Some(l)) => l.clone() };
        // destination type is checked before anything is popped
        if let Err(e) = self.list_of(dst) { return e; }
        let v = if from_left { s.remove(0) } else { s.pop().unwrap() };
        if src == dst {
            if to_left { s.insert(0, v.clone()); } else { s.push(v.clone()); }
            self.put_keep(src, Val::List(s));
        } else {
            self.put_keep(src, Val::List(s));
            self.drop_if_empty(src);
            let mut d = self.list_of(dst).ok().flatten().cloned().unwrap_or_default();
            if to_left { d.insert(0, v.clone()); } else { d.push(v.clone()); }
            self.put_keep(dst, Val::List(d));
        }
        bulk(&v)
    }

    fn exec_list(&mut self, name: &str, a: &[B]) -> Exp {
        let lname = name.to_ascii_lowercase();
        let n = a.len();
        match name {
            "LPUSH" | "RPUSH" => {
                if n < 3 { return arity(&lname); }
                let mut l = match self.list_of(&a[1]) { Err(e) => return e, Ok(o) => o.cloned().unwrap_or_default() };
                for v in &a[2..] { if name == "LPUSH" { l.insert(0, v.clone()); } else { l.push(v.clone()); } }
                let len = l.len() as i64;
                self.put_keep(&a[1], Val::List(l));
                int(len)
            }
            "LPOP" | "RPOP" => {
                if n < 2 { return arity(&lname); }
                if n > 2 { return Exp::NoAuthority("LPOP/RPOP with a count is not supported by the code under test"); }
                let mut l = match self.list_of(&a[1]) { Err(e) => return e, Ok(None) => return nil(), Ok(Some(l)) => l.clone() };
                let v = if name == "LPOP" { l.remove(0) } else { l.pop().unwrap() };
                self.put_keep(&a[1], Val::List(l));
                self.drop_if_empty(&a[1]);
                bulk(&v)
            }
            "LLEN" => {
                if n != 2 { return arity(&lname); }
                match self.list_of(&a[1]) { Err(e) => e, Ok(o) => int(o.map(|l| l.len()).unwrap_or(0) as i64) }
            }
            "LINDEX" => {
                if n != 3 { return arity(&lname); }
                let l = match self.list_of(&a[1]) { Err(e) => return e, Ok(None) => return nil(), Ok(Some(l)) => l };
                let Some(i) = string2ll(&a[2]) else { return err(NOT_INT) };
                let len = l.len() as i128;
                let idx = if i < 0 { len + i as i128 } else { i as i128 };
                if idx < 0 || idx >= len { nil() } else { bulk(&l[idx as usize]) }
            }
            "LRANGE" => {
                if n != 4 { return arity(&lname); }
                let (Some(s), Some(e)) = (string2ll(&a[2]), string2ll(&a[3])) else { return err(NOT_INT) };
                let l = match self.list_of(&a[1]) { Err(e) => return e, Ok(None) => return arr(vec![]), Ok(Some(l)) => l };
                match norm_range(s, e, l.len()) { None => arr(vec![]), Some((s, e)) => arr(l[s..=e].iter().map(|x| R::bulk(x)).collect()) }
            }
            "LSET" => {
                if n != 4 { return arity(&lname); }
                let mut l = match self.list_of(&a[1]) { Err(e) => return e, Ok(None) => return err(NO_SUCH_KEY), Ok(Some(l)) => l.clone() };
                let Some(i) = string2ll(&a[2]) else { return err(NOT_INT) };
                let len = l.len() as i128;
                let idx = if i < 0 { len + i as i128 } else { i as i128 };
                if idx < 0 || idx >= len { return err(INDEX_OOR); }
                l[idx as usize] = a[3].clone();
                self.put_keep(&a[1], Val::List(l));
                ok()
            }
            "LTRIM" => {
                if n != 4 { return arity(&lname); }
                let (Some(s), Some(e)) = (string2ll(&a[2]), string2ll(&a[3])) else { return err(NOT_INT) };
                let l = match self.list_of(&a[1]) { Err(e) => return e, Ok(None) => return ok(), Ok(Some(l)) => l.clone() };
                let kept = match norm_range(s, e, l.len()) { None => vec![], Some((s, e)) => l[s..=e].to_vec() };
                self.put_keep(&a[1], Val::List(kept));
                self.drop_if_empty(&a[1]);
                ok()
            }
            "RPOPLPUSH" => {
                if n != 3 { return arity(&lname); }
                self.lmove(&a[1], &a[2], false, true)
            }
            "LMOVE" => {
                if n != 5 { return arity(&lname); }
                let side = |x: &B| match up(x).as_str() { "LEFT" => Some(true), "RIGHT" => Some(false), _ => None };
                let (Some(f), Some(t)) = (side(&a[3]), side(&a[4])) else { return err(SYNTAX) };
                self.lmove(&a[1], &a[2], f, t)
            }
            _ => Exp::NoAuthority("list command not modelled"),
        }
    }
}

// ------------------------------------------------------------------------------------------
// sets
// ------------------------------------------------------------------------------------------

impl RefRedis {
    fn set_of(&self, k: &[u8]) -> Result<Option<&BTreeSet<B>>, Exp> {
        match self.get(k) { None => Ok(None), Some(Val::Set(s)) => Ok(Some(s)), Some(_) => Err(wrongtype()) }
    }

    /// Apply the implementation's (validated) SPOP choice.
    pub fn apply_spop(&mut self, k: &[u8], popped: &[B]) {
        self.emptied = false;
        if let Some(Entry { val: Val::Set(s), .. }) = self.db.get_mut(k) { for m in popped { s.remove(m); } }
        self.drop_if_empty(k);
    }

    fn exec_set(&mut self, name: &str, a: &[B]) -> Exp {
        let lname = name.to_ascii_lowercase();
        let n = a.len();
        match name {
            "SADD" => {
                if n < 3 { return arity(&lname); }
                let mut s = match self.set_of(&a[1]) { Err(e) => return e, Ok(o) => o.cloned().unwrap_or_default() };
                let mut added = 0;
                for m in &a[2..] { if s.insert(m.clone()) { added += 1; } }
                self.put_keep(&a[1], Val::Set(s));
                int(added)
            }
            "SREM" => {
                if n < 3 { return arity(&lname); }
                let mut s = match self.set_of(&a[1]) { Err(e) => return e, Ok(None) => return int(0), Ok(Some(s)) => s.clone() };
                let mut removed = 0;
                for m in &a[2..] { if s.remove(m) { removed += 1; } }
                self.put_keep(&a[1], Val::Set(s));
                self.drop_if_empty(&a[1]);
                int(removed)
            }
            "SMEMBERS" => {
                if n != 2 { return arity(&lname); }
                match self.set_of(&a[1]) { Err(e) => e, Ok(o) => Exp::Unordered(o.map(|s| s.iter().map(|m| R::bulk(m)).collect()).unwrap_or_default()) }
            }
            "SISMEMBER" => {
                if n != 3 { return arity(&lname); }
                match self.set_of(&a[1]) { Err(e) => e, Ok(o) => int(o.map(|s| s.contains(&a[2])).unwrap_or(false) as i64) }
            }
            "SCARD" => {
                if n != 2 { return arity(&lname); }
                match self.set_of(&a[1]) { Err(e) => e, Ok(o) => int(o.map(|s| s.len()).unwrap_or(0) as i64) }
            }
            "SPOP" => {
                if n < 2 { return arity(&lname); }
                if n > 3 { return err(SYNTAX); }
                if n == 2 {
                    return match self.set_of(&a[1]) { Err(e) => e, Ok(None) => nil(), Ok(Some(_)) => Exp::Pop { key: a[1].clone(), n: 1, array: false } };
                }
                let count = match string2ll(&a[2]) { None => return err(NOT_INT), Some(c) if c < 0 => return err("ERR value is out of range, must be positive"), Some(c) => c as u64 };
                let s = match self.set_of(&a[1]) { Err(e) => return e, Ok(None) => return arr(vec![]), Ok(Some(s)) => s };
                if count == 0 { return arr(vec![]); }
                Exp::Pop { key: a[1].clone(), n: (count as usize).min(s.len()), array: true }
            }
            _ => Exp::NoAuthority("set command not modelled"),
        }
    }
}

// ------------------------------------------------------------------------------------------
// hashes
// ------------------------------------------------------------------------------------------

impl RefRedis {
    fn hash_of(&self, k: &[u8]) -> Result<Option<&BTreeMap<B, B>>, Exp> {
        match self.get(k) { None => Ok(None), Some(Val::Hash(h)) => Ok(Some(h)), Some(_) => Err(wrongtype()) }
    }

    fn exec_hash(&mut self, name: &str, a: &[B]) -> Exp {
        let lname = name.to_ascii_lowercase();
        let n = a.len();
        match name {
            "HSET" => {
                if n < 4 || n % 2 == 1 { return arity(&lname); }
                let mut h = match self.hash_of(&a[1]) { Err(e) => return e, Ok(o) => o.cloned().unwrap_or_default() };
                let mut added = 0;
                for c in a[2..].chunks(2) { if h.insert(c[0].clone(), c[1].clone()).is_none() { added += 1; } }
                self.put_keep(&a[1], Val::Hash(h));
                int(added)
            }
            "HGET" => {
                if n != 3 { return arity(&lname); }
                match self.hash_of(&a[1]) { Err(e) => e, Ok(o) => match o.and_then(|h| h.get(&a[2])) { Some(v) => bulk(v), None => nil() } }
            }
            "HDEL" => {
                if n < 3 { return arity(&lname); }
                let mut h = match self.hash_of(&a[1]) { Err(e) => return e, Ok(None) => return int(0), Ok(Some(h)) => h.clone() };
                let mut removed = 0;
                for f in &a[2..] { if h.remove(f).is_some() { removed += 1; } }
                self.put_keep(&a[1], Val::Hash(h));
                self.drop_if_empty(&a[1]);
                int(removed)
            }
            "HGETALL" => {
                if n != 2 { return arity(&lname); }
                match self.hash_of(&a[1]) { Err(e) => e, Ok(o) => Exp::UnorderedPairs(o.map(|h| h.iter().map(|(f, v)| (R::bulk(f), R::bulk(v))).collect()).unwrap_or_default()) }
            }
            "HKEYS" | "HVALS" => {
                if n != 2 { return arity(&lname); }
                match self.hash_of(&a[1]) { Err(e) => e, Ok(o) => Exp::Unordered(o.map(|h| h.iter().map(|(f, v)| R::bulk(if name == "HKEYS" { f } else { v })).collect()).unwrap_or_default()) }
            }
            "HLEN" => {
                if n != 2 { return arity(&lname); }
                match self.hash_of(&a[1]) { Err(e) => e, Ok(o) => int(o.map(|h| h.len()).unwrap_or(0) as i64) }
            }
            "HEXISTS" => {
                if n != 3 { return arity(&lname); }
                match self.hash_of(&a[1]) { Err(e) => e, Ok(o) => int(o.map(|h| h.contains_key(&a[2])).unwrap_or(false) as i64) }
            }
            "HINCRBY" => {
                if n != 4 { return arity(&lname); }
                let Some(by) = string2ll(&a[3]) else { return err(NOT_INT) };
                let mut h = match self.hash_of(&a[1]) { Err(e) => return e, Ok(o) => o.cloned().unwrap_or_default() };
                let cur = match h.get(&a[2]) { None => 0, Some(v) => match string2ll(v) { Some(x) => x, None => return err("ERR hash value is not an integer") } };
                let Some(nv) = cur.checked_add(by) else { return err(OVERFLOW) };
                h.insert(a[2].clone(), nv.to_string().into_bytes());
                self.put_keep(&a[1], Val::Hash(h));
                int(nv)
            }
            _ => Exp::NoAuthority("hash command not modelled"),
        }
    }
}

// ------------------------------------------------------------------------------------------
// sorted sets
// ------------------------------------------------------------------------------------------

/// Redis `zslParseRange` bound: optional '(' then strtod over the rest. None = not a float;
/// Err = outside the model's authority.
fn parse_bound(s: &[u8]) -> Result<Option<(f64, bool)>, &'static str> {
    let (ex, body) = if s.first() == Some(&b'(') { (true, &s[1..]) } else { (false, s) };
    if body.is_empty() || body[0].is_ascii_whitespace() { return Err("score bound that relies on strtod leniency (empty / leading space)"); }
    match parse_double(body) { Some(Ok(v)) => Ok(Some((v, ex))), Some(Err(())) => Ok(None), None => Err("score bound not modelled") }
}
fn in_range(s: f64, min: (f64, bool), max: (f64, bool)) -> bool {
    (if min.1 { s > min.0 } else { s >= min.0 }) && (if max.1 { s < max.0 } else { s <= max.0 })
}

impl RefRedis {
    fn zset_of(&self, k: &[u8]) -> Result<Option<&BTreeMap<B, f64>>, Exp> {
        match self.get(k) { None => Ok(None), Some(Val::Zset(z)) => Ok(Some(z)), Some(_) => Err(wrongtype()) }
    }

    fn with_scores(items: &[(B, f64)], ws: bool) -> Exp {
        let mut out = Vec::new();
        for (m, s) in items { out.push(R::bulk(m)); if ws { out.push(R::bulk(&score_text(*s))); } }
        arr(out)
    }

    fn exec_zset(&mut self, name: &str, a: &[B]) -> Exp {
        let lname = name.to_ascii_lowercase();
        let n = a.len();
        match name {
            "ZADD" => {
                if n < 4 { return arity(&lname); }
                let (mut nx, mut xx, mut gt, mut lt, mut ch) = (false, false, false, false, false);
                let mut i = 2;
                while i < n {
                    match up(&a[i]).as_str() { "NX" => nx = true, "XX" => xx = true, "GT" => gt = true, "LT" => lt = true, "CH" => ch = true,
                        "INCR" => return Exp::NoAuthority("ZADD INCR is not supported by the code under test"), _ => break }
                    i += 1;
                }
                let rest = &a[i..];
                if rest.is_empty() || rest.len() % 2 != 0 { return err(SYNTAX); }
                if nx && xx { return err("ERR XX and NX options at the same time are not compatible"); }
                if (gt && nx) || (lt && nx) || (gt && lt) { return err("ERR GT, LT, and/or NX options at the same time are not compatible"); }
                let mut pairs = Vec::new();
                for c in rest.chunks(2) {
                    match parse_double(&c[0]) {
                        Some(Ok(v)) => { if !score_is_plain(v) { return Exp::NoAuthority("score whose text is platform/version dependent"); } pairs.push((v, c[1].clone())); }
                        Some(Err(())) => return err(NOT_FLOAT),
                        None => return Exp::NoAuthority("score text not modelled"),
                    }
                }
                let existing = match self.zset_of(&a[1]) { Err(e) => return e, Ok(o) => o.cloned() };
                if existing.is_none() && xx { return int(0); }
                let mut z = existing.unwrap_or_default();
                let (mut added, mut updated) = (0, 0);
                for (score, m) in pairs {
                    match z.get(&m).copied() {
                        Some(cur) => {
                            if nx { continue; }
                            if score != cur {
                                if (lt && score >= cur) || (gt && score <= cur) { continue; }
                                z.insert(m, score); updated += 1;
                            }
                        }
                        None => { if xx { continue; } z.insert(m, score); added += 1; }
                    }
                }
                self.put_keep(&a[1], Val::Zset(z));
                self.drop_if_empty(&a[1]);
                int(if ch { added + updated } else { added })
            }
            "ZREM" => {
                if n < 3 { return arity(&lname); }
                let mut z = match self.zset_of(&a[1]) { Err(e) => return e, Ok(None) => return int(0), Ok(Some(z)) => z.clone() };
                let mut removed = 0;
                for m in &a[2..] { if z.remove(m).is_some() { removed += 1; } }
                self.put_keep(&a[1], Val::Zset(z));
                self.drop_if_empty(&a[1]);
                int(removed)
            }
            "ZRANGE" | "ZREVRANGE" => {
                if n < 4 { return arity(&lname); }
                let mut ws = false;
                for o in &a[4..] {
                    match up(o).as_str() { "WITHSCORES" => ws = true,
                        "BYSCORE" | "BYLEX" | "REV" | "LIMIT" => return Exp::NoAuthority("ZRANGE BYSCORE/BYLEX/REV/LIMIT are not supported by the code under test"),
                        _ => return err(SYNTAX) }
                }
                let (Some(s), Some(e)) = (string2ll(&a[2]), string2ll(&a[3])) else { return err(NOT_INT) };
                let z = match self.zset_of(&a[1]) { Err(e) => return e, Ok(None) => return arr(vec![]), Ok(Some(z)) => z };
                let mut items = Self::zsorted(z);
                if name == "ZREVRANGE" { items.reverse(); }
                match norm_range(s, e, items.len()) { None => arr(vec![]), Some((s, e)) => Self::with_scores(&items[s..=e], ws) }
            }
            "ZSCORE" => {
                if n != 3 { return arity(&lname); }
                match self.zset_of(&a[1]) { Err(e) => e, Ok(o) => match o.and_then(|z| z.get(&a[2])) { Some(s) => bulk(&score_text(*s)), None => nil() } }
            }
            "ZRANK" => {
                if n < 3 { return arity(&lname); }
                if n > 3 { return Exp::NoAuthority("ZRANK WITHSCORE (7.2) is not generated"); }
                match self.zset_of(&a[1]) { Err(e) => e, Ok(None) => nil(), Ok(Some(z)) => match Self::zsorted(z).iter().position(|(m, _)| m == &a[2]) { Some(p) => int(p as i64), None => nil() } }
            }
            "ZCARD" => {
                if n != 2 { return arity(&lname); }
                match self.zset_of(&a[1]) { Err(e) => e, Ok(o) => int(o.map(|z| z.len()).unwrap_or(0) as i64) }
            }
            "ZCOUNT" => {
                if n != 4 { return arity(&lname); }
                let (min, max) = match (parse_bound(&a[2]), parse_bound(&a[3])) {
                    (Err(w), _) | (_, Err(w)) => return Exp::NoAuthority(w),
                    (Ok(Some(x)), Ok(Some(y))) => (x, y),
                    _ => return err("ERR min or max is not a float"),
                };
                match self.zset_of(&a[1]) { Err(e) => e, Ok(o) => int(o.map(|z| z.values().filter(|s| in_range(**s, min, max)).count()).unwrap_or(0) as i64) }
            }
            "ZRANGEBYSCORE" => {
                if n < 4 { return arity(&lname); }
                let mut ws = false;
                let mut limit: Option<(i64, i64)> = None;
                let mut i = 4;
                while i < n {
                    match up(&a[i]).as_str() {
                        "WITHSCORES" => { ws = true; i += 1; }
                        "LIMIT" if i + 2 < n => {
                            let (Some(off), Some(cnt)) = (string2ll(&a[i + 1]), string2ll(&a[i + 2])) else { return err(NOT_INT) };
                            limit = Some((off, cnt)); i += 3;
                        }
                        _ => return err(SYNTAX),
                    }
                }
                let (min, max) = match (parse_bound(&a[2]), parse_bound(&a[3])) {
                    (Err(w), _) | (_, Err(w)) => return Exp::NoAuthority(w),
                    (Ok(Some(x)), Ok(Some(y))) => (x, y),
                    _ => return err("ERR min or max is not a float"),
                };
                if let Some((off, _)) = limit { if off < 0 { return Exp::NoAuthority("ZRANGEBYSCORE LIMIT with a negative offset"); } }
                let z = match self.zset_of(&a[1]) { Err(e) => return e, Ok(None) => return arr(vec![]), Ok(Some(z)) => z };
                let mut items: Vec<(B, f64)> = Self::zsorted(z).into_iter().filter(|(_, s)| in_range(*s, min, max)).collect();
                if let Some((off, cnt)) = limit {
                    items = items.into_iter().skip(off as usize).collect();
                    if cnt >= 0 { items.truncate(cnt as usize); }
                }
                Self::with_scores(&items, ws)
            }
            _ => Exp::NoAuthority("zset command not modelled"),
        }
    }
}

// ------------------------------------------------------------------------------------------
// SCAN family
// ------------------------------------------------------------------------------------------

impl RefRedis {
    fn exec_scan(&mut self, name: &str, a: &[B]) -> Exp {
        let lname = name.to_ascii_lowercase();
        let n = a.len();
        let first = if name == "SCAN" { 1 } else { 2 };
        if n < first + 1 { return arity(&lname); }
        // cursor: strtoul over the whole argument
        let cur = &a[first];
        if cur.is_empty() { return Exp::NoAuthority("empty cursor (strtoul leniency)"); }
        if cur.iter().all(|c| c.is_ascii_digit()) {
            if cur.len() > 19 { return Exp::NoAuthority("huge cursor"); }
        } else if cur[0] == b'+' || cur[0] == b'-' || cur[0].is_ascii_whitespace() {
            return Exp::NoAuthority("cursor that relies on strtoul leniency");
        } else if cur[0].is_ascii_digit() {
            return err("ERR invalid cursor"); // digits followed by garbage
        } else {
            return err("ERR invalid cursor");
        }
        if cur.iter().any(|c| *c != b'0') { return Exp::NoAuthority("only full iterations from cursor 0 are judged"); }
        let mut pat: Option<B> = None;
        let mut i = first + 1;
        while i < n {
            let o = up(&a[i]);
            if i + 1 >= n { return err(SYNTAX); }
            match o.as_str() {
                "COUNT" => { match string2ll(&a[i + 1]) { None => return err(NOT_INT), Some(c) if c < 1 => return err(SYNTAX), Some(_) => {} } }
                "MATCH" => pat = Some(a[i + 1].clone()),
                "TYPE" if name == "SCAN" => return Exp::NoAuthority("SCAN TYPE is not supported by the code under test"),
                "NOVALUES" => return Exp::NoAuthority("HSCAN NOVALUES (7.4)"),
                _ => return err(SYNTAX),
            }
            i += 2;
        }
        let m = |x: &B| match &pat { None => true, Some(p) => p == b"*" || glob(p, x) };
        match name {
            "SCAN" => Exp::Scan { key: None, items: self.db.keys().filter(|k| m(k)).map(|k| (R::bulk(k), None)).collect() },
            "HSCAN" => match self.hash_of(&a[1]) { Err(e) => e, Ok(o) => Exp::Scan { key: Some(a[1].clone()), items: o.map(|h| h.iter().filter(|(f, _)| m(f)).map(|(f, v)| (R::bulk(f), Some(R::bulk(v)))).collect()).unwrap_or_default() } },
            _ => match self.zset_of(&a[1]) { Err(e) => e, Ok(o) => Exp::Scan { key: Some(a[1].clone()), items: o.map(|z| z.iter().filter(|(f, _)| m(f)).map(|(f, s)| (R::bulk(f), Some(R::bulk(&score_text(*s))))).collect()).unwrap_or_default() } },
        }
    }
}
