//! Wing–Gong/Lowe linearizability search for one Redis string key.

use crate::model::wire::R;
use std::collections::HashSet;

/// Operations on one key (multi-key commands contribute one sub-operation per key).
#[derive(Debug, Clone, PartialEq, Eq, Hash)]
pub enum KOp {
    Get,
    Set(Vec<u8>),
    SetNx(Vec<u8>),
    SetXx(Vec<u8>),
    /// SET k v GET / GETSET
    Swap(Vec<u8>),
    Incr(i64),
    Append(Vec<u8>),
    Del,
    Strlen,
    Exists,
    /// EVAL: local v = GET k; SET k (v or '')..arg; return v
    ScriptAppend(Vec<u8>),
}

pub type KState = Option<Vec<u8>>;

/// Sequential specification: (next state, reply). Error replies compare by being an error only.
pub fn apply(st: &KState, op: &KOp) -> (KState, R) {
    match op {
        KOp::Get => (st.clone(), R::Bulk(st.clone())),
        KOp::Set(v) => (Some(v.clone()), R::ok()),
        KOp::SetNx(v) => if st.is_none() { (Some(v.clone()), R::ok()) } else { (st.clone(), R::nil()) },
        KOp::SetXx(v) => if st.is_some() { (Some(v.clone()), R::ok()) } else { (st.clone(), R::nil()) },
        KOp::Swap(v) => (Some(v.clone()), R::Bulk(st.clone())),
        KOp::Incr(d) => {
            let cur = match st { None => Some(0i64), Some(b) => std::str::from_utf8(b).ok().and_then(|s| if is_canonical_int(s) { s.parse::<i64>().ok() } else { None }) };
            match cur.and_then(|c| c.checked_add(*d)) {
                Some(n) => (Some(n.to_string().into_bytes()), R::Int(n)),
                None => (st.clone(), R::Err("ERR".into())),
            }
        }
        KOp::Append(s) => { let mut v = st.clone().unwrap_or_default(); v.extend_from_slice(s); let n = v.len() as i64; (Some(v), R::Int(n)) }
        KOp::Del => (None, R::Int(if st.is_some() { 1 } else { 0 })),
        KOp::Strlen => (st.clone(), R::Int(st.as_ref().map(|v| v.len()).unwrap_or(0) as i64)),
        KOp::Exists => (st.clone(), R::Int(if st.is_some() { 1 } else { 0 })),
        KOp::ScriptAppend(s) => { let old = st.clone(); let mut v = st.clone().unwrap_or_default(); v.extend_from_slice(s); (Some(v), R::Bulk(old)) }
    }
}

fn is_canonical_int(s: &str) -> bool {
    // the harness only ever stores canonical decimal integers or non-numeric strings
    !s.is_empty() && (s == "0" || { let t = s.strip_prefix('-').unwrap_or(s); !t.is_empty() && !t.starts_with('0') && t.bytes().all(|b| b.is_ascii_digit()) })
}

fn reply_matches(model: &R, seen: &R) -> bool {
    match (model, seen) { (R::Err(_), R::Err(_)) => true, _ => model == seen }
}

#[derive(Debug, Clone)]
pub struct HOp { pub inv: u64, pub ret: Option<u64>, pub op: KOp, pub reply: Option<R>, pub who: usize, pub label: String }

/// Is there a linearization of `ops` (<= 60) starting from `init`? Pending operations (ret = None)
/// may take effect at any point after their invocation, or never. `None` = the search gave up
/// (more than `budget` distinct (set, state) pairs visited): no verdict.
pub fn linearizable_within(init: &KState, ops: &[HOp], budget: usize) -> Option<bool> {
    let n = ops.len();
    assert!(n <= 60, "history too long for the checker");
    let must: u64 = ops.iter().enumerate().filter(|(_, o)| o.ret.is_some()).fold(0, |m, (i, _)| m | (1u64 << i));
    let mut seen: HashSet<(u64, KState)> = HashSet::new();
    fn go(ops: &[HOp], done: u64, st: &KState, must: u64, seen: &mut HashSet<(u64, KState)>, budget: usize) -> Option<bool> {
        if done & must == must { return Some(true); }
        if seen.len() >= budget { return None; }
        if !seen.insert((done, st.clone())) { return Some(false); }
        // minimal return time among not-yet-linearized completed ops: an op may go next only if it
        // was invoked before that instant
        let mut min_ret = u64::MAX;
        for (i, o) in ops.iter().enumerate() { if done & (1u64 << i) == 0 { if let Some(r) = o.ret { min_ret = min_ret.min(r); } } }
        for (i, o) in ops.iter().enumerate() {
            if done & (1u64 << i) != 0 { continue; }
            if o.inv > min_ret { continue; }
            let (ns, rep) = apply(st, &o.op);
            let ok = match &o.reply { Some(r) if o.ret.is_some() => reply_matches(&rep, r), _ => true };
            if ok {
                match go(ops, done | (1u64 << i), &ns, must, seen, budget) { Some(true) => return Some(true), None => return None, Some(false) => {} }
            }
        }
        Some(false)
    }
    go(ops, 0, init, must, &mut seen, budget)
}
pub fn linearizable(init: &KState, ops: &[HOp]) -> bool { linearizable_within(init, ops, usize::MAX).unwrap_or(true) }
