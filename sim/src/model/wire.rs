//! Client-side view of the protocol: commands as argument vectors, replies as a small tree,
//! RESP2 encode/decode written independently of the code under test.

use bytes::Bytes;
use redis_sim::redis::{Command, RespValue, RespValueZeroCopy};

#[derive(Debug, Clone, PartialEq, Eq, PartialOrd, Ord, Hash)]
pub enum R {
    Simple(String),
    Err(String),
    Int(i64),
    Bulk(Option<Vec<u8>>),
    Arr(Option<Vec<R>>),
}

impl R {
    pub fn ok() -> R { R::Simple("OK".into()) }
    pub fn nil() -> R { R::Bulk(None) }
    pub fn bulk(b: &[u8]) -> R { R::Bulk(Some(b.to_vec())) }
    pub fn is_err(&self) -> bool { matches!(self, R::Err(_)) }
    /// error code = first word of the message (ERR, WRONGTYPE, EXECABORT, NOSCRIPT…)
    pub fn err_code(&self) -> Option<&str> { if let R::Err(m) = self { m.split_whitespace().next() } else { None } }
    pub fn from_resp(v: &RespValue) -> R {
        match v {
            RespValue::SimpleString(s) => R::Simple(s.to_string()),
            RespValue::Error(s) => R::Err(s.to_string()),
            RespValue::Integer(i) => R::Int(*i),
            RespValue::BulkString(b) => R::Bulk(b.clone()),
            RespValue::Array(a) => R::Arr(a.as_ref().map(|xs| xs.iter().map(R::from_resp).collect())),
        }
    }
    pub fn show(&self) -> String {
        match self {
            R::Simple(s) => format!("+{}", s),
            R::Err(s) => format!("-{}", s),
            R::Int(i) => format!(":{}", i),
            R::Bulk(None) => "(nil)".into(),
            R::Bulk(Some(b)) => format!("\"{}\"", show_bytes(b)),
            R::Arr(None) => "(nil-array)".into(),
            R::Arr(Some(xs)) => format!("[{}]", xs.iter().map(|x| x.show()).collect::<Vec<_>>().join(", ")),
        }
    }
    /// Same reply up to the order of the elements of a (top-level) array.
    pub fn eq_unordered(&self, other: &R) -> bool {
        match (self, other) {
            (R::Arr(Some(a)), R::Arr(Some(b))) => { let (mut x, mut y) = (a.clone(), b.clone()); x.sort(); y.sort(); x == y }
            _ => self == other,
        }
    }
}

pub fn show_bytes(b: &[u8]) -> String {
    let mut s = String::new();
    for c in b { if (0x20..0x7f).contains(c) && *c != b'\\' && *c != b'"' { s.push(*c as char); } else { s.push_str(&format!("\\x{:02x}", c)); } }
    s
}
pub fn show_cmd(args: &[Vec<u8>]) -> String { args.iter().map(|a| { let s = show_bytes(a); if s.is_empty() || s.contains(' ') { format!("\"{}\"", s) } else { s } }).collect::<Vec<_>>().join(" ") }

pub fn cmd(parts: &[&str]) -> Vec<Vec<u8>> { parts.iter().map(|p| p.as_bytes().to_vec()).collect() }

/// RESP2 encoding of a command as a client sends it.
pub fn encode_cmd(args: &[Vec<u8>]) -> Vec<u8> {
    let mut out = format!("*{}\r\n", args.len()).into_bytes();
    for a in args { out.extend_from_slice(format!("${}\r\n", a.len()).as_bytes()); out.extend_from_slice(a); out.extend_from_slice(b"\r\n"); }
    out
}

/// The production parse entry: frame -> Command (what the connection handler does after RespCodec::parse).
pub fn parse_cmd(args: &[Vec<u8>]) -> Result<Command, String> {
    let v = RespValueZeroCopy::Array(Some(args.iter().map(|a| RespValueZeroCopy::BulkString(Some(Bytes::copy_from_slice(a)))).collect()));
    Command::from_resp_zero_copy(&v)
}

#[derive(Debug, Clone, PartialEq, Eq)]
pub enum Decoded { Value(R, usize), Incomplete, Invalid(String) }

/// Independent RESP2 decoder for replies (client side of the simulated stream).
pub fn decode_reply(buf: &[u8]) -> Decoded {
    fn line(buf: &[u8], from: usize) -> Option<(usize, usize)> {
        let mut i = from;
        while i + 1 < buf.len() { if buf[i] == b'\r' && buf[i + 1] == b'\n' { return Some((from, i)); } i += 1; }
        None
    }
    fn go(buf: &[u8], pos: usize, depth: usize) -> Decoded {
        if depth > 64 { return Decoded::Invalid("nesting".into()); }
        if pos >= buf.len() { return Decoded::Incomplete; }
        let t = buf[pos];
        let Some((s, e)) = line(buf, pos + 1) else { return Decoded::Incomplete };
        let text = &buf[s..e];
        let next = e + 2;
        match t {
            b'+' => Decoded::Value(R::Simple(String::from_utf8_lossy(text).into_owned()), next),
            b'-' => Decoded::Value(R::Err(String::from_utf8_lossy(text).into_owned()), next),
            b':' => match std::str::from_utf8(text).ok().and_then(|x| x.parse::<i64>().ok()) { Some(i) => Decoded::Value(R::Int(i), next), None => Decoded::Invalid(format!("bad integer {:?}", String::from_utf8_lossy(text))) },
            b'$' => {
                let Some(n) = std::str::from_utf8(text).ok().and_then(|x| x.parse::<i64>().ok()) else { return Decoded::Invalid("bad bulk length".into()) };
                if n == -1 { return Decoded::Value(R::Bulk(None), next); }
                if n < 0 { return Decoded::Invalid("negative bulk length".into()); }
                let n = n as usize;
                if buf.len() < next + n + 2 { return Decoded::Incomplete; }
                if &buf[next + n..next + n + 2] != b"\r\n" { return Decoded::Invalid("bulk not terminated by CRLF".into()); }
                Decoded::Value(R::Bulk(Some(buf[next..next + n].to_vec())), next + n + 2)
            }
            b'*' => {
                let Some(n) = std::str::from_utf8(text).ok().and_then(|x| x.parse::<i64>().ok()) else { return Decoded::Invalid("bad array length".into()) };
                if n == -1 { return Decoded::Value(R::Arr(None), next); }
                if n < 0 { return Decoded::Invalid("negative array length".into()); }
                let mut items = Vec::new();
                let mut p = next;
                for _ in 0..n {
                    match go(buf, p, depth + 1) { Decoded::Value(v, q) => { items.push(v); p = q; } other => return other }
                }
                Decoded::Value(R::Arr(Some(items)), p)
            }
            other => Decoded::Invalid(format!("bad type byte 0x{:02x}", other)),
        }
    }
    go(buf, 0, 0)
}

/// Decode as many complete replies as the buffer holds.
pub fn decode_all(buf: &[u8]) -> (Vec<R>, usize, Option<String>) {
    let mut out = Vec::new();
    let mut pos = 0;
    while pos < buf.len() {
        match decode_reply(&buf[pos..]) {
            Decoded::Value(v, n) => { out.push(v); pos += n; }
            Decoded::Incomplete => break,
            Decoded::Invalid(e) => return (out, pos, Some(e)),
        }
    }
    (out, pos, None)
}
