//! Grammar-based generator of client commands (argument vectors), swarm-configured per run.

use crate::simkit::tape::Src;

pub type Cmd = Vec<Vec<u8>>;

#[derive(Debug, Clone, Copy, PartialEq, Eq, PartialOrd, Ord)]
pub enum Fam { Str, Counter, Key, Expire, List, Set, Hash, Zset, Scan, MultiKey, TwoKey }

#[derive(Debug, Clone)]
pub struct GenCfg {
    pub fams: Vec<Fam>,
    pub keys: Vec<Vec<u8>>,
    /// boundary-heavy argument values (odd integers, empty/binary strings, huge indices)
    pub edgy: bool,
    /// floats allowed (only values exactly representable with few digits)
    pub floats: bool,
    pub expiry: bool,
    pub uniq: u64,
}

fn b(s: &str) -> Vec<u8> { s.as_bytes().to_vec() }

impl GenCfg {
    pub fn swarm(src: &mut Src, all: &[Fam], nkeys_max: usize) -> GenCfg {
        let mut fams: Vec<Fam> = all.iter().copied().filter(|_| src.chance(3, 5)).collect();
        if fams.is_empty() { fams.push(all[src.idx(all.len())]); }
        let nkeys = 1 + src.idx(nkeys_max);
        let pool: Vec<Vec<u8>> = vec![b("k0"), b("k1"), b("k2"), b("key:3"), b("{t}4"), b("k 5"), b("K0"), b("a-much-longer-key-name-that-does-not-fit-inline-0123456789"), b("")];
        let mut keys = Vec::new();
        for i in 0..nkeys { keys.push(pool[if i < 3 { i } else { 3 + src.idx(pool.len() - 3) }].clone()); }
        keys.dedup();
        GenCfg { fams, keys, edgy: src.chance(1, 2), floats: src.chance(1, 3), expiry: src.chance(1, 2), uniq: 0 }
    }
    pub fn key(&self, src: &mut Src) -> Vec<u8> { self.keys[src.idx(self.keys.len())].clone() }
    pub fn val(&mut self, src: &mut Src) -> Vec<u8> {
        self.uniq += 1;
        if !self.edgy || src.chance(1, 2) { return b(&format!("v{}", self.uniq)); }
        let pool: [&[u8]; 18] = [b"", b"a", b"10", b"0", b"-1", b"9223372036854775807", b"-9223372036854775808", b"9223372036854775808", b"+5", b"007", b" 1", b"1 ", b"-0", b"1.0", b"3.5", b"abc\r\ndef", &[0, 255, 13, 10, 0], b"12345678901234567890123"];
        pool[src.idx(pool.len())].to_vec()
    }
    pub fn int(&self, src: &mut Src) -> Vec<u8> {
        if !self.edgy || src.chance(2, 3) { return b(&format!("{}", src.irange(-3, 12))); }
        let pool = ["0", "1", "-1", "9223372036854775807", "-9223372036854775808", "9223372036854775808", "abc", "", "+5", "007", "1.5", " 3"];
        b(pool[src.idx(pool.len())])
    }
    pub fn index(&self, src: &mut Src) -> Vec<u8> {
        if !self.edgy || src.chance(2, 3) { return b(&format!("{}", src.irange(-4, 5))); }
        let pool = ["0", "-1", "-100", "100", "9223372036854775807", "-9223372036854775808", "x", "1.0"];
        b(pool[src.idx(pool.len())])
    }
    pub fn member(&mut self, src: &mut Src) -> Vec<u8> {
        let pool = ["a", "b", "c", "d", "", "10", "-1"];
        if self.edgy && src.chance(1, 6) { return vec![0xff, 0xfe]; }
        b(pool[src.idx(if self.edgy { pool.len() } else { 4 })])
    }
    pub fn score(&self, src: &mut Src) -> Vec<u8> {
        let pool = ["0", "1", "-1", "-0", "2", "10", "1.5", "-2.5", "inf", "-inf", "+inf", "nan", "abc", "1e3", "3.0"];
        let n = if self.edgy { pool.len() } else if self.floats { 8 } else { 6 };
        b(pool[src.idx(n)])
    }
    pub fn ttl_secs(&self, src: &mut Src) -> Vec<u8> {
        let pool = ["10", "1", "100", "0", "-1", "9223372036854775807", "abc", "2"];
        b(pool[src.idx(if self.edgy { pool.len() } else { 3 })])
    }
    pub fn ttl_ms(&self, src: &mut Src) -> Vec<u8> {
        let pool = ["1500", "1", "100", "999", "1000", "0", "-1", "9223372036854775807", "abc", "2500"];
        b(pool[src.idx(if self.edgy { pool.len() } else { 5 })])
    }
}

fn c(parts: Vec<Vec<u8>>) -> Cmd { parts }

/// One command of a randomly chosen enabled family.
pub fn gen_cmd(src: &mut Src, g: &mut GenCfg) -> Cmd {
    let fam = g.fams[src.idx(g.fams.len())];
    let k = g.key(src);
    match fam {
        Fam::Str => match src.below(14) {
            0 | 1 => c(vec![b("GET"), k]),
            2 | 3 => {
                let mut v = vec![b("SET"), k, g.val(src)];
                if src.chance(1, 3) { v.push(b(if src.chance(1, 2) { "NX" } else { "XX" })); }
                if src.chance(1, 5) { v.push(b("GET")); }
                if g.expiry && src.chance(1, 3) {
                    match src.below(5) { 0 => { v.push(b("EX")); v.push(g.ttl_secs(src)); } 1 => { v.push(b("PX")); v.push(g.ttl_ms(src)); } 2 => v.push(b("KEEPTTL")), 3 => { v.push(b("EXAT")); v.push(b(&format!("{}", 1_700_000_000 + src.irange(-5, 100)))); } _ => { v.push(b("PXAT")); v.push(b(&format!("{}", 1_700_000_000_000i64 + src.irange(-5000, 100_000)))); } }
                }
                if g.edgy && src.chance(1, 12) { v.push(b("NX")); v.push(b("XX")); }
                c(v)
            }
            4 => c(vec![b("APPEND"), k, g.val(src)]),
            5 => c(vec![b("STRLEN"), k]),
            6 => c(vec![b("GETSET"), k, g.val(src)]),
            7 => c(vec![b("SETNX"), k, g.val(src)]),
            8 => c(vec![b("GETDEL"), k]),
            9 => c(vec![b("GETRANGE"), k, g.index(src), g.index(src)]),
            10 => c(vec![b("SETRANGE"), k, b(&format!("{}", src.irange(0, 30))), g.val(src)]),
            11 if g.expiry => c(vec![b("SETEX"), k, g.ttl_secs(src), g.val(src)]),
            12 if g.expiry => c(vec![b("PSETEX"), k, g.ttl_ms(src), g.val(src)]),
            _ => c(vec![b("GET"), k]),
        },
        Fam::Counter => match src.below(6) {
            0 => c(vec![b("INCR"), k]),
            1 => c(vec![b("DECR"), k]),
            2 => c(vec![b("INCRBY"), k, g.int(src)]),
            3 => c(vec![b("DECRBY"), k, g.int(src)]),
            4 if g.floats => c(vec![b("INCRBYFLOAT"), k, b(["1.5", "-0.5", "2", "0.25", "10"][src.idx(5)])]),
            _ => c(vec![b("SET"), k, g.int(src)]),
        },
        Fam::Key => match src.below(7) {
            0 => c(vec![b("DEL"), k]),
            1 => c(vec![b("EXISTS"), k]),
            2 => c(vec![b("TYPE"), k]),
            3 => c(vec![b("DBSIZE")]),
            4 => c(vec![b("KEYS"), b("*")]),
            5 => c(vec![b("EXISTS"), k.clone(), k]),
            _ => c(vec![b("DEL"), k, g.key(src)]),
        },
        Fam::Expire => match src.below(9) {
            0 => { let mut v = vec![b("EXPIRE"), k, g.ttl_secs(src)]; if src.chance(1, 2) { v.push(b(["NX", "XX", "GT", "LT"][src.idx(4)])); } c(v) }
            1 => { let mut v = vec![b("PEXPIRE"), k, g.ttl_ms(src)]; if src.chance(1, 2) { v.push(b(["NX", "XX", "GT", "LT"][src.idx(4)])); } c(v) }
            2 => c(vec![b("TTL"), k]),
            3 => c(vec![b("PTTL"), k]),
            4 => c(vec![b("PERSIST"), k]),
            5 => c(vec![b("EXPIREAT"), k, b(&format!("{}", 1_700_000_000 + src.irange(-5, 100)))]),
            6 => c(vec![b("PEXPIREAT"), k, b(&format!("{}", 1_700_000_000_000i64 + src.irange(-5000, 100_000)))]),
            7 => c(vec![b("SET"), k, g.val(src), b("PX"), g.ttl_ms(src)]),
            _ => c(vec![b("SET"), k, g.val(src), b("EX"), g.ttl_secs(src)]),
        },
        Fam::List => match src.below(13) {
            0 | 1 => { let mut v = vec![b(if src.chance(1, 2) { "LPUSH" } else { "RPUSH" }), k]; for _ in 0..=src.below(3) { v.push(g.member(src)); } c(v) }
            2 => c(vec![b("LPOP"), k]),
            3 => c(vec![b("RPOP"), k]),
            4 => c(vec![b("LLEN"), k]),
            5 => c(vec![b("LRANGE"), k, g.index(src), g.index(src)]),
            6 => c(vec![b("LINDEX"), k, g.index(src)]),
            7 => c(vec![b("LSET"), k, g.index(src), g.member(src)]),
            8 => c(vec![b("LTRIM"), k, g.index(src), g.index(src)]),
            9 => c(vec![b("LRANGE"), k, b("0"), b("-1")]),
            _ => { let mut v = vec![b("RPUSH"), k]; for _ in 0..=src.below(2) { v.push(g.member(src)); } c(v) }
        },
        Fam::Set => match src.below(8) {
            0 | 1 => { let mut v = vec![b("SADD"), k]; for _ in 0..=src.below(3) { v.push(g.member(src)); } c(v) }
            2 => { let mut v = vec![b("SREM"), k]; for _ in 0..=src.below(2) { v.push(g.member(src)); } c(v) }
            3 => c(vec![b("SMEMBERS"), k]),
            4 => c(vec![b("SISMEMBER"), k, g.member(src)]),
            5 => c(vec![b("SCARD"), k]),
            6 => { let mut v = vec![b("SPOP"), k]; if src.chance(1, 2) { v.push(b(["1", "0", "2", "100", "-1"][src.idx(if g.edgy { 5 } else { 3 })])); } c(v) }
            _ => c(vec![b("SCARD"), k]),
        },
        Fam::Hash => match src.below(11) {
            0 | 1 => { let mut v = vec![b("HSET"), k]; for _ in 0..=src.below(2) { v.push(g.member(src)); v.push(g.val(src)); } c(v) }
            2 => c(vec![b("HGET"), k, g.member(src)]),
            3 => { let mut v = vec![b("HDEL"), k]; for _ in 0..=src.below(2) { v.push(g.member(src)); } c(v) }
            4 => c(vec![b("HGETALL"), k]),
            5 => c(vec![b("HKEYS"), k]),
            6 => c(vec![b("HVALS"), k]),
            7 => c(vec![b("HLEN"), k]),
            8 => c(vec![b("HEXISTS"), k, g.member(src)]),
            9 => c(vec![b("HINCRBY"), k, g.member(src), g.int(src)]),
            _ => c(vec![b("HSET"), k, g.member(src), g.int(src)]),
        },
        Fam::Zset => match src.below(12) {
            0 | 1 | 2 => {
                let mut v = vec![b("ZADD"), k];
                if src.chance(1, 3) { v.push(b(["NX", "XX", "GT", "LT"][src.idx(4)])); }
                if src.chance(1, 5) { v.push(b("CH")); }
                for _ in 0..=src.below(2) { v.push(g.score(src)); v.push(g.member(src)); }
                c(v)
            }
            3 => { let mut v = vec![b("ZREM"), k]; for _ in 0..=src.below(2) { v.push(g.member(src)); } c(v) }
            4 => { let mut v = vec![b("ZRANGE"), k, g.index(src), g.index(src)]; if src.chance(1, 2) { v.push(b("WITHSCORES")); } c(v) }
            5 => { let mut v = vec![b("ZREVRANGE"), k, g.index(src), g.index(src)]; if src.chance(1, 2) { v.push(b("WITHSCORES")); } c(v) }
            6 => c(vec![b("ZSCORE"), k, g.member(src)]),
            7 => c(vec![b("ZRANK"), k, g.member(src)]),
            8 => c(vec![b("ZCARD"), k]),
            9 => c(vec![b("ZCOUNT"), k, b(["-inf", "0", "(1", "1", "5"][src.idx(5)]), b(["+inf", "10", "(2", "1", "-1"][src.idx(5)])]),
            10 => { let mut v = vec![b("ZRANGEBYSCORE"), k, b(["-inf", "0", "(1", "1"][src.idx(4)]), b(["+inf", "10", "(2", "1"][src.idx(4)])]; if src.chance(1, 3) { v.push(b("WITHSCORES")); } if src.chance(1, 4) { v.push(b("LIMIT")); v.push(b(["0", "1", "-1"][src.idx(3)])); v.push(b(["1", "2", "0", "-1"][src.idx(4)])); } c(v) }
            _ => c(vec![b("ZRANGE"), k, b("0"), b("-1"), b("WITHSCORES")]),
        },
        Fam::Scan => match src.below(4) {
            0 => { let mut v = vec![b("SCAN"), b("0")]; if src.chance(1, 3) { v.push(b("MATCH")); v.push(b(["*", "k*", "k?", "[a-z]*", "k[0-9]", "[k]0", "k1", "k\\0", "\\k1"][src.idx(9)])); } if src.chance(1, 3) { v.push(b("COUNT")); v.push(b(["10", "1", "100"][src.idx(3)])); } c(v) }
            1 => c(vec![b("HSCAN"), k, b("0")]),
            2 => c(vec![b("ZSCAN"), k, b("0")]),
            _ => c(vec![b("KEYS"), b(["*", "k*", "k?", "*0", "k[0-9]", "[k]1", "k0", "key:[0-9]", "[a-z]2", "k\\0", "\\k1", "k\\2", "k0*0", "k*k1"][src.idx(14)])]),
        },
        Fam::MultiKey => match src.below(5) {
            0 => { let mut v = vec![b("MGET")]; for _ in 0..=src.below(3) { v.push(g.key(src)); } c(v) }
            1 => { let mut v = vec![b("MSET")]; for _ in 0..=src.below(3) { v.push(g.key(src)); v.push(g.val(src)); } c(v) }
            2 => { let mut v = vec![b("DEL")]; for _ in 0..=src.below(3) { v.push(g.key(src)); } c(v) }
            3 => { let mut v = vec![b("EXISTS")]; for _ in 0..=src.below(3) { v.push(g.key(src)); } c(v) }
            _ => c(vec![b("FLUSHDB")]),
        },
        Fam::TwoKey => match src.below(5) {
            4 => { let mut v = vec![b("MSETNX")]; for _ in 0..=src.below(2) { v.push(g.key(src)); v.push(g.val(src)); } c(v) }
            0 => c(vec![b("RPOPLPUSH"), k, g.key(src)]),
            1 => c(vec![b("LMOVE"), k, g.key(src), b(["LEFT", "RIGHT"][src.idx(2)]), b(["LEFT", "RIGHT"][src.idx(2)])]),
            2 => c(vec![b("RENAME"), k, g.key(src)]),
            _ => c(vec![b("RENAMENX"), k, g.key(src)]),
        },
    }
}

pub const SINGLE_KEY_FAMS: &[Fam] = &[Fam::Str, Fam::Counter, Fam::Key, Fam::Expire, Fam::List, Fam::Set, Fam::Hash, Fam::Zset];
pub const ALL_FAMS: &[Fam] = &[Fam::Str, Fam::Counter, Fam::Key, Fam::Expire, Fam::List, Fam::Set, Fam::Hash, Fam::Zset, Fam::Scan, Fam::MultiKey, Fam::TwoKey];
