//! Delta-stream generator: real ShardReplicaState replicas issue writes and see each other's
//! deltas, giving realistic streams (interleaved per-replica clocks, equal times on different
//! replicas, tombstones, hashes, type changes, remote stamps far ahead).

use crate::simkit::tape::Src;
use redis_sim::redis::SDS;
use redis_sim::replication::lattice::ReplicaId;
use redis_sim::replication::state::{ReplicationDelta, ShardReplicaState};
use redis_sim::replication::ConsistencyLevel;

pub struct StreamCfg { pub nrep: usize, pub nkeys: usize, pub max_ops: usize, pub hashes: bool, pub type_changes: bool, pub deletes: bool, pub expiry: bool }

pub struct Emitted { pub delta: ReplicationDelta, pub wall_ms: u64, pub op: String }

/// Returns the emitted deltas in emission order together with the simulated wall-clock instant
/// of each operation (the wall clock advances by a tape-chosen amount per op).
pub fn gen_stream(src: &mut Src, cfg: &StreamCfg, start_ms: u64) -> (Vec<Emitted>, u64) { gen_stream_at(src, cfg, start_ms, 0) }

/// As `gen_stream`, with every replica's Lamport clock starting at `clock_base`: a second stream
/// that continues an earlier one must not reissue its stamps (top-level or per hash field).
pub fn gen_stream_at(src: &mut Src, cfg: &StreamCfg, start_ms: u64, clock_base: u64) -> (Vec<Emitted>, u64) {
    let mut reps: Vec<ShardReplicaState> = (0..cfg.nrep).map(|i| { let mut r = ShardReplicaState::new(ReplicaId::new(i as u64 + 1), ConsistencyLevel::Eventual); r.lamport_clock.time = clock_base; r }).collect();
    let mut out: Vec<Emitted> = Vec::new();
    let mut now = start_ms;
    let mut uniq = 0u64;
    // which keys are hashes (when type changes are off a key keeps its type)
    let key_is_hash: Vec<bool> = (0..cfg.nkeys).map(|i| cfg.hashes && i % 2 == 1).collect();
    let ops = src.list(cfg.max_ops, 15, 16, |s| (s.below(10), s.idx(cfg.nrep), s.idx(cfg.nkeys), s.below(4), s.below(3), s.below(5)));
    for (op, r, k, a, b, dt) in ops {
        uniq += 1;
        now += [0u64, 1, 50, 5_000, 4_000_000][dt as usize];
        let key = format!("k{}", k);
        let want_hash = if cfg.type_changes { cfg.hashes && op >= 5 && op <= 7 } else { key_is_hash[k] };
        let (d, what) = match op {
            8 if cfg.nrep > 1 => {
                // remote delivery: replica r sees some earlier delta (advances its clock, maybe far ahead)
                if !out.is_empty() { let i = (a as usize * 5 + b as usize + uniq as usize) % out.len(); let dd = out[i].delta.clone(); reps[r].apply_remote_delta(dd); }
                (None, String::new())
            }
            9 | 4 if cfg.deletes => {
                if want_hash { (reps[r].record_hash_delete(key.clone(), vec![format!("f{}", a % 3)]), format!("r{} HDEL {} f{}", r + 1, key, a % 3)) }
                else { (reps[r].record_delete(key.clone()), format!("r{} DEL {}", r + 1, key)) }
            }
            _ => {
                if want_hash {
                    let fields: Vec<(String, SDS)> = (0..=b).map(|i| (format!("f{}", (a + i) % 3), SDS::from_str(&format!("h{}.{}", uniq, i)))).collect();
                    let w = format!("r{} HSET {} {:?}", r + 1, key, fields.iter().map(|(f, _)| f.clone()).collect::<Vec<_>>());
                    (Some(reps[r].record_hash_write(key.clone(), fields)), w)
                } else {
                    let exp = if cfg.expiry && a == 3 { Some(now + 10_000 + uniq) } else { None };
                    (Some(reps[r].record_write(key.clone(), SDS::from_str(&format!("v{}", uniq)), exp)), format!("r{} SET {} v{}", r + 1, key, uniq))
                }
            }
        };
        if let Some(delta) = d { out.push(Emitted { delta, wall_ms: now, op: what }); }
    }
    (out, now)
}
