//! SimStream: the byte stream between a simulated client and the production connection handler.
//! The client decides how the bytes are cut into reads; the server's writes accumulate in an outbox.

use std::cell::RefCell;
use std::collections::VecDeque;
use std::io;
use std::pin::Pin;
use std::rc::Rc;
use std::task::{Context, Poll, Waker};
use tokio::io::{AsyncRead, AsyncWrite, ReadBuf};

#[derive(Default)]
pub struct StreamState {
    /// chunks delivered by the client and not yet read by the server; one chunk = one read() result
    pub inbox: VecDeque<Vec<u8>>,
    pub eof: bool,
    pub read_waker: Option<Waker>,
    /// everything the server wrote
    pub outbox: Vec<u8>,
    pub out_waker: Option<Waker>,
    pub reads: u64,
    pub writes: u64,
    /// server-side write limit per call (short writes), 0 = unlimited
    pub max_write: usize,
    /// fail the n-th write call (1-based), 0 = never
    pub fail_write_at: u64,
    pub closed_by_server: bool,
}

#[derive(Clone, Default)]
pub struct StreamHandle(pub Rc<RefCell<StreamState>>);

impl StreamHandle {
    pub fn new() -> Self { StreamHandle(Rc::new(RefCell::new(StreamState::default()))) }
    pub fn server_end(&self) -> SimStream { SimStream { st: self.0.clone() } }
    /// Client side: make `bytes` available as one read.
    pub fn deliver(&self, bytes: &[u8]) {
        if bytes.is_empty() { return; }
        let mut s = self.0.borrow_mut();
        s.inbox.push_back(bytes.to_vec());
        if let Some(w) = s.read_waker.take() { w.wake(); }
    }
    pub fn close(&self) { let mut s = self.0.borrow_mut(); s.eof = true; if let Some(w) = s.read_waker.take() { w.wake(); } }
    pub fn out_len(&self) -> usize { self.0.borrow().outbox.len() }
    pub fn out(&self) -> Vec<u8> { self.0.borrow().outbox.clone() }
    pub fn pending_in(&self) -> usize { self.0.borrow().inbox.iter().map(|c| c.len()).sum() }
    /// Future resolving when the outbox has grown beyond `len` bytes.
    pub fn wait_out(&self, len: usize) -> WaitOut { WaitOut { st: self.0.clone(), len } }
}

pub struct WaitOut { st: Rc<RefCell<StreamState>>, len: usize }
impl std::future::Future for WaitOut {
    type Output = ();
    fn poll(self: Pin<&mut Self>, cx: &mut Context<'_>) -> Poll<()> {
        let mut s = self.st.borrow_mut();
        if s.outbox.len() > self.len || s.closed_by_server { return Poll::Ready(()); }
        s.out_waker = Some(cx.waker().clone());
        Poll::Pending
    }
}

pub struct SimStream { st: Rc<RefCell<StreamState>> }

impl Drop for SimStream {
    fn drop(&mut self) { let mut s = self.st.borrow_mut(); s.closed_by_server = true; if let Some(w) = s.out_waker.take() { w.wake(); } }
}

impl AsyncRead for SimStream {
    fn poll_read(self: Pin<&mut Self>, cx: &mut Context<'_>, buf: &mut ReadBuf<'_>) -> Poll<io::Result<()>> {
        let mut s = self.st.borrow_mut();
        s.reads += 1;
        if let Some(mut chunk) = s.inbox.pop_front() {
            let n = chunk.len().min(buf.remaining());
            buf.put_slice(&chunk[..n]);
            if n < chunk.len() { let rest = chunk.split_off(n); s.inbox.push_front(rest); }
            return Poll::Ready(Ok(()));
        }
        if s.eof { return Poll::Ready(Ok(())); }
        s.read_waker = Some(cx.waker().clone());
        Poll::Pending
    }
}

impl AsyncWrite for SimStream {
    fn poll_write(self: Pin<&mut Self>, _cx: &mut Context<'_>, data: &[u8]) -> Poll<io::Result<usize>> {
        let mut s = self.st.borrow_mut();
        s.writes += 1;
        if s.fail_write_at != 0 && s.writes == s.fail_write_at { return Poll::Ready(Err(io::Error::new(io::ErrorKind::BrokenPipe, "injected write error"))); }
        let n = if s.max_write == 0 { data.len() } else { data.len().min(s.max_write) };
        s.outbox.extend_from_slice(&data[..n]);
        if let Some(w) = s.out_waker.take() { w.wake(); }
        Poll::Ready(Ok(n))
    }
    fn poll_flush(self: Pin<&mut Self>, _cx: &mut Context<'_>) -> Poll<io::Result<()>> { Poll::Ready(Ok(())) }
    fn poll_shutdown(self: Pin<&mut Self>, _cx: &mut Context<'_>) -> Poll<io::Result<()>> { Poll::Ready(Ok(())) }
}
