//! Tape minimiser (delta debugging over the choice tape, span-aware).

use std::time::{Duration, Instant};

pub struct ShrinkStats { pub tests: u64, pub from_len: usize, pub to_len: usize }

/// `test(tape)` returns `Some(spans)` iff the run on `tape` still shows the same violation key
/// (spans = element spans recorded by the generators during that run).
pub fn shrink(
    tape: Vec<u64>,
    spans: Vec<(usize, usize)>,
    mut test: impl FnMut(&[u64]) -> Option<(Vec<u64>, Vec<(usize, usize)>)>,
    max_tests: u64,
    max_wall: Duration,
) -> (Vec<u64>, ShrinkStats) {
    let start = Instant::now();
    let mut best = tape;
    let mut spans = spans;
    let from_len = best.len();
    let mut tests = 0u64;
    macro_rules! budget { () => { tests < max_tests && start.elapsed() < max_wall } }
    macro_rules! attempt {
        ($cand:expr) => {{
            tests += 1;
            match test(&$cand) {
                Some((used, sp)) => { best = used; spans = sp; true }
                None => false,
            }
        }};
    }

    // Normalise: the run may not have consumed everything.
    let b0 = best.clone();
    let _ = attempt!(b0);

    let mut improved = true;
    while improved && budget!() {
        improved = false;
        // 1. truncate tail
        let mut cut = best.len() / 2;
        while cut >= 1 && budget!() {
            if best.len() > cut {
                let cand = best[..best.len() - cut].to_vec();
                if attempt!(cand) { improved = true; continue; }
            }
            cut /= 2;
        }
        // 2. delete recorded spans, last first, larger first among equals
        let mut i = 0usize;
        loop {
            if !budget!() { break; }
            let mut sp = spans.clone();
            sp.sort_by(|a, b| (b.1 - b.0).cmp(&(a.1 - a.0)).then(b.0.cmp(&a.0)));
            if i >= sp.len() { break; }
            let (s, e) = sp[i];
            if e <= best.len() && s < e {
                let mut cand = best[..s].to_vec();
                cand.extend_from_slice(&best[e..]);
                if attempt!(cand) { improved = true; continue; }
            }
            i += 1;
        }
        // 3. delete chunks
        for k in [8usize, 4, 2, 1] {
            let mut i = best.len();
            while i >= k && budget!() {
                let s = i - k;
                let mut cand = best[..s].to_vec();
                cand.extend_from_slice(&best[i..]);
                if attempt!(cand) { improved = true; i = s.min(best.len()); } else { i -= 1; }
            }
        }
        // 4. simplify values
        let mut i = 0;
        while i < best.len() && budget!() {
            if best[i] != 0 {
                let mut cand = best.clone();
                cand[i] = 0;
                if attempt!(cand) { improved = true; }
                else if best[i] > 1 {
                    let mut cand = best.clone();
                    cand[i] = best[i] / 2;
                    if attempt!(cand) { improved = true; continue; }
                    let mut cand = best.clone();
                    cand[i] = best[i] - 1;
                    if attempt!(cand) { improved = true; continue; }
                }
            }
            i += 1;
        }
    }
    let to_len = best.len();
    (best, ShrinkStats { tests, from_len, to_len })
}
