//! Batch runner: seeds -> runs -> violations -> minimise -> replay file -> evidence.

use super::findings::Findings;
use super::shrink;
use super::tape::{mix, Src};
use serde_json::{json, Value};
use std::collections::{BTreeMap, HashSet};
use std::panic::{catch_unwind, AssertUnwindSafe};
use std::sync::atomic::{AtomicBool, AtomicU64, Ordering};
use std::sync::Mutex;
use std::time::{Duration, Instant};

#[derive(Clone, Copy, PartialEq, Eq, Debug)]
pub enum Tier { Quick, Thorough }
impl Tier {
    pub fn name(&self) -> &'static str { match self { Tier::Quick => "quick", Tier::Thorough => "thorough" } }
}

#[derive(Debug, Clone)]
pub struct Violation { pub key: String, pub msg: String }

pub struct RunCtx<'a> {
    pub tier: Tier,
    pub trace: bool,
    pub findings: &'a Findings,
    /// index of the run in its batch (0 for replays)
    pub index: u64,
}
impl<'a> RunCtx<'a> {
    pub fn known(&self, key: &str) -> bool { self.findings.is_open(key) }
}

#[derive(Default)]
pub struct RunReport {
    pub violations: Vec<Violation>,
    pub nontrivial: bool,
    pub fingerprint: u64,
    pub faults: BTreeMap<&'static str, u64>,
    pub probes: BTreeMap<&'static str, u64>,
    pub sim_ms: u64,
    /// sub-evaluations inside the run (crash images, law instances, mutated images…); ≥ 1
    pub evals: u64,
    /// distinct non-trivial sub-cases inside this run, as fingerprints
    pub sub_fps: Vec<u64>,
    pub trace: Vec<String>,
    pub sample: Option<Value>,
    pub steps: u64,
    /// tape cells to overwrite so that the tape denotes exactly the failing sub-case of an enumerating run
    pub retarget: Option<Vec<(usize, u64)>>,
}
impl RunReport {
    pub fn fault(&mut self, k: &'static str) { *self.faults.entry(k).or_insert(0) += 1; }
    pub fn probe(&mut self, k: &'static str) { *self.probes.entry(k).or_insert(0) += 1; }
    pub fn probe_n(&mut self, k: &'static str, n: u64) { *self.probes.entry(k).or_insert(0) += n; }
    pub fn violate(&mut self, key: impl Into<String>, msg: impl Into<String>) {
        self.violations.push(Violation { key: key.into(), msg: msg.into() });
    }
    pub fn log(&mut self, on: bool, f: impl FnOnce() -> String) { if on { self.trace.push(f()); } }
}

pub trait Property: Sync {
    fn id(&self) -> &'static str;
    fn level(&self) -> &'static str;
    fn rule(&self) -> &'static str;
    fn components_real(&self) -> Vec<&'static str>;
    fn components_stubbed(&self) -> Vec<&'static str>;
    fn assumptions(&self) -> Vec<&'static str> { vec![] }
    /// probes that must be > 0 over a batch or the workload is wrong (harness error, exit 2)
    fn required_probes(&self) -> Vec<&'static str> { vec![] }
    fn runs(&self, tier: Tier) -> u64;
    /// Tapes derived from a finished pilot run (fault-placement enumeration); each is run as its own case.
    fn derive(&self, _tape: &[u64], _rep: &RunReport, _tier: Tier) -> Vec<Vec<u64>> { vec![] }
    fn run(&self, src: &mut Src, ctx: &RunCtx) -> RunReport;
}

thread_local! {
    static LAST_PANIC: std::cell::RefCell<Option<String>> = const { std::cell::RefCell::new(None) };
}

pub fn install_panic_hook() {
    std::panic::set_hook(Box::new(|info| {
        let mut loc = info.location().map(|l| format!("{}:{}", l.file(), l.line())).unwrap_or_default();
        let msg = if let Some(s) = info.payload().downcast_ref::<&str>() { s.to_string() }
            else if let Some(s) = info.payload().downcast_ref::<String>() { s.clone() } else { String::new() };
        if !(loc.starts_with("/repo/src/") || loc.starts_with("src/")) {
            // The panic was raised inside a library (allocator, slice indexing…): attribute it to the
            // innermost frame that belongs to the code under test or to the harness.
            let bt = std::backtrace::Backtrace::force_capture().to_string();
            for line in bt.lines() {
                let l = line.trim();
                if let Some(i) = l.find("redis_sim::") {
                    let f: String = l[i..].chars().take_while(|c| !c.is_whitespace()).collect();
                    let f = f.split("::h").next().unwrap_or(&f).to_string();
                    loc = format!("src/<{}>", f);
                    break;
                }
                if l.contains("verif_sim::props::") || l.contains("verif_sim::model::") { break; }
            }
        }
        LAST_PANIC.with(|p| *p.borrow_mut() = Some(format!("{} @ {}", msg, loc)));
    }));
}

pub enum Exec { Report(RunReport), HarnessPanic(String) }

/// Digest of everything a run reports (used to show that a run is a function of its seed alone).
pub fn report_hash(rep: &RunReport, tape_len: usize) -> u64 {
    let mut h = super::tape::fnv(rep.fingerprint, &rep.evals.to_le_bytes());
    h = super::tape::fnv(h, &rep.steps.to_le_bytes());
    for v in &rep.violations { h = super::tape::fnv(h, v.key.as_bytes()); }
    for f in &rep.sub_fps { h = super::tape::fnv(h, &f.to_le_bytes()); }
    super::tape::fnv(h, &(tape_len as u64).to_le_bytes())
}

/// Run once under catch_unwind. A panic whose location is inside /repo/src is a violation of the
/// property being checked (the shipped profile aborts on panic); a panic elsewhere is a harness error.
pub fn exec(prop: &dyn Property, src: &mut Src, ctx: &RunCtx) -> Exec {
    LAST_PANIC.with(|p| *p.borrow_mut() = None);
    let r = catch_unwind(AssertUnwindSafe(|| prop.run(src, ctx)));
    match r {
        Ok(mut rep) => {
            // A task spawned by the code under test (shard actor, WAL actor…) that panicked is caught
            // by tokio and only shows as a closed channel; the hook still recorded it.
            if let Some(what) = LAST_PANIC.with(|p| p.borrow_mut().take()) {
                if let Some(at) = what.rsplit(" @ ").next() {
                    if at.starts_with("/repo/src/") || at.starts_with("src/<redis_sim") {
                        let site = at.trim_start_matches("/repo/");
                        rep.violate(format!("{}/panic/{}", prop.id(), site), format!("a task of the system under test panicked: {}", what));
                    } else {
                        return Exec::HarnessPanic(what);
                    }
                }
            }
            Exec::Report(rep)
        }
        Err(_) => {
            let what = LAST_PANIC.with(|p| p.borrow_mut().take()).unwrap_or_else(|| "panic".into());
            if let Some(at) = what.rsplit(" @ ").next() {
                if at.starts_with("/repo/src/") || at.starts_with("src/<redis_sim") {
                    let mut rep = RunReport::default();
                    rep.evals = 1;
                    let site = at.trim_start_matches("/repo/");
                    rep.violate(format!("{}/panic/{}", prop.id(), site), what.clone());
                    return Exec::Report(rep);
                }
            }
            Exec::HarnessPanic(what)
        }
    }
}

pub struct BatchCfg {
    pub seed: u64,
    pub tier: Tier,
    pub runs: u64,
    pub threads: usize,
    pub wall: Duration,
}

struct Agg {
    evals: u64,
    runs: u64,
    nontrivial_runs: u64,
    fps: HashSet<u64>,
    faults: BTreeMap<&'static str, u64>,
    probes: BTreeMap<&'static str, u64>,
    sim_ms: u64,
    steps: u64,
    samples: Vec<Value>,
    trivial_sample: Option<Value>,
    known: BTreeMap<String, (u64, String)>,
    viol: BTreeMap<(u64, u64), (Vec<u64>, Vec<(usize, usize)>, Violation)>,
    harness: Vec<String>,
    /// (run index, report hash) of the first runs of the batch, re-executed afterwards on the main thread
    first_hashes: Vec<(u64, u64)>,
}

const SELFCHECK_RUNS: u64 = 24;

pub fn slug(s: &str) -> String {
    s.chars().map(|c| if c.is_ascii_alphanumeric() { c } else { '-' }).collect::<String>()
}

pub fn verif_root() -> String { std::env::var("VERIF_ROOT").unwrap_or_else(|_| "/verif".to_string()) }

/// Runs a batch, minimises and reports. Returns the process exit code.
pub fn run_batch(prop: &dyn Property, cfg: &BatchCfg) -> i32 {
    let start = Instant::now();
    let findings = match Findings::load() { Ok(f) => f, Err(e) => { eprintln!("harness error: {}", e); return 2; } };
    let next = AtomicU64::new(0);
    let stop = AtomicBool::new(false);
    let agg = Mutex::new(Agg {
        evals: 0, runs: 0, nontrivial_runs: 0, fps: HashSet::new(), faults: BTreeMap::new(), probes: BTreeMap::new(),
        sim_ms: 0, steps: 0, samples: Vec::new(), trivial_sample: None, known: BTreeMap::new(), viol: BTreeMap::new(), harness: Vec::new(), first_hashes: Vec::new(),
    });
    println!("check {} tier={} seed={} runs={} threads={}", prop.id(), cfg.tier.name(), cfg.seed, cfg.runs, cfg.threads);
    std::thread::scope(|s| {
        for _ in 0..cfg.threads {
            s.spawn(|| {
                let mut local: Vec<((u64, u64), RunReport, Vec<u64>, Vec<(usize, usize)>)> = Vec::new();
                let flush = |local: &mut Vec<((u64, u64), RunReport, Vec<u64>, Vec<(usize, usize)>)>| {
                    let mut a = agg.lock().unwrap();
                    for (i, rep, tape, spans) in local.drain(..) {
                        a.runs += 1;
                        a.evals += rep.evals.max(1);
                        a.sim_ms += rep.sim_ms;
                        a.steps += rep.steps;
                        if rep.nontrivial {
                            a.nontrivial_runs += 1;
                            if rep.sub_fps.is_empty() { a.fps.insert(rep.fingerprint); }
                        }
                        for f in &rep.sub_fps { a.fps.insert(*f); }
                        for (k, v) in &rep.faults { *a.faults.entry(k).or_insert(0) += v; }
                        for (k, v) in &rep.probes { *a.probes.entry(k).or_insert(0) += v; }
                        if let Some(sv) = rep.sample {
                            // prefer runs that met the non-trivial condition; keep one other as a fallback
                            if rep.nontrivial { if a.samples.len() < 4 { a.samples.push(sv); } } else if a.trivial_sample.is_none() { a.trivial_sample = Some(sv); }
                        }
                        for v in rep.violations {
                            if findings.is_open(&v.key) {
                                let e = a.known.entry(v.key.clone()).or_insert((0, v.msg.clone()));
                                e.0 += 1;
                            } else if !a.viol.contains_key(&i) {
                                a.viol.insert(i, (tape.clone(), spans.clone(), v));
                            }
                        }
                    }
                };
                loop {
                    if stop.load(Ordering::Relaxed) { break; }
                    let i = next.fetch_add(1, Ordering::Relaxed);
                    if i >= cfg.runs { break; }
                    if start.elapsed() > cfg.wall { stop.store(true, Ordering::Relaxed); break; }
                    let seed = mix(cfg.seed, i);
                    let mut src = Src::record(seed);
                    let ctx = RunCtx { tier: cfg.tier, trace: i < 3, findings: &findings, index: i };
                    match exec(prop, &mut src, &ctx) {
                        Exec::Report(rep) => {
                            let unknown = rep.violations.iter().any(|v| !findings.is_open(&v.key));
                            let (mut tape, spans) = src.into_tape();
                            if i < SELFCHECK_RUNS { agg.lock().unwrap().first_hashes.push((i, report_hash(&rep, tape.len()))); }
                            if unknown { if let Some(rt) = &rep.retarget { for (c, v) in rt { if *c < tape.len() { tape[*c] = *v; } } } }
                            if unknown { stop.store(true, Ordering::Relaxed); }
                            let derived = if unknown { vec![] } else { prop.derive(&tape, &rep, cfg.tier) };
                            local.push(((i, 0), rep, if unknown { tape } else { Vec::new() }, if unknown { spans } else { Vec::new() }));
                            for (j, dt) in derived.into_iter().enumerate() {
                                let mut dsrc = Src::replay(dt);
                                let dctx = RunCtx { tier: cfg.tier, trace: false, findings: &findings, index: i };
                                match exec(prop, &mut dsrc, &dctx) {
                                    Exec::Report(drep) => {
                                        let unk = drep.violations.iter().any(|v| !findings.is_open(&v.key));
                                        let (mut t, sp) = dsrc.into_tape();
                                        if unk { if let Some(rt) = &drep.retarget { for (c, v) in rt { if *c < t.len() { t[*c] = *v; } } } }
                                        if unk { stop.store(true, Ordering::Relaxed); }
                                        local.push(((i, j as u64 + 1), drep, if unk { t } else { Vec::new() }, if unk { sp } else { Vec::new() }));
                                        if unk { break; }
                                    }
                                    Exec::HarnessPanic(w) => {
                                        agg.lock().unwrap().harness.push(format!("run {}.{} seed {}: {}", i, j + 1, seed, w));
                                        stop.store(true, Ordering::Relaxed);
                                        break;
                                    }
                                }
                            }
                        }
                        Exec::HarnessPanic(w) => {
                            agg.lock().unwrap().harness.push(format!("run {} seed {}: {}", i, seed, w));
                            stop.store(true, Ordering::Relaxed);
                        }
                    }
                    if local.len() >= 64 { flush(&mut local); }
                }
                flush(&mut local);
            });
        }
    });
    let mut a = agg.into_inner().unwrap();
    let wall = start.elapsed().as_secs_f64();
    if !a.harness.is_empty() {
        for h in &a.harness { eprintln!("HARNESS-ERROR {}", h); }
        return 2;
    }
    for (k, (n, msg)) in &a.known {
        let what = findings.open.get(k).map(|f| f.what.clone()).unwrap_or_default();
        println!("KNOWN-FINDING: property={} {} ({} occurrences; e.g. {}) {}", prop.id(), k, n, truncate(msg, 160), what);
    }
    let mut exit = 0;
    let mut replay_path = None;
    let mut viol_json = Value::Null;
    if let Some((&ij, _)) = a.viol.iter().next() {
        let (tape, spans, v) = a.viol.remove(&ij).unwrap();
        let i = ij.0;
        let seed = mix(cfg.seed, i).wrapping_add(ij.1);
        let key = v.key.clone();
        let (min_tape, st) = shrink::shrink(tape.clone(), spans, |cand| {
            let mut src = Src::replay(cand.to_vec());
            let ctx = RunCtx { tier: cfg.tier, trace: false, findings: &findings, index: 0 };
            match exec(prop, &mut src, &ctx) {
                Exec::Report(rep) => {
                    if rep.violations.iter().any(|x| x.key == key) { Some(src.into_tape()) } else { None }
                }
                Exec::HarnessPanic(_) => None,
            }
        }, 4000, Duration::from_secs(90));
        // final traced run on the minimised tape
        let mut src = Src::replay(min_tape.clone());
        let ctx = RunCtx { tier: cfg.tier, trace: true, findings: &findings, index: 0 };
        let (trace, msg) = match exec(prop, &mut src, &ctx) {
            Exec::Report(rep) => {
                let m = rep.violations.iter().find(|x| x.key == key).map(|x| x.msg.clone()).unwrap_or(v.msg.clone());
                (rep.trace, m)
            }
            Exec::HarnessPanic(w) => (vec![format!("harness panic on replay: {}", w)], v.msg.clone()),
        };
        let dir = format!("{}/replays", verif_root());
        let _ = std::fs::create_dir_all(&dir);
        let path = format!("{}/{}-{}-{}.json", dir, prop.id(), slug(&key), seed);
        let doc = json!({
            "property": prop.id(), "tier": cfg.tier.name(), "batch_seed": cfg.seed, "run_index": i, "derived_index": ij.1, "run_seed": mix(cfg.seed, i),
            "violation_key": key, "message": msg,
            "tape": min_tape, "original_tape_len": st.from_len, "minimised_tape_len": st.to_len, "shrink_tests": st.tests,
            "trace": trace,
        });
        if let Err(e) = std::fs::write(&path, serde_json::to_string_pretty(&doc).unwrap()) {
            eprintln!("harness error: cannot write replay {}: {}", path, e);
            return 2;
        }
        println!("violation key={} msg={}", key, truncate(&msg, 400));
        println!("VIOLATION property={} replay={}", prop.id(), path);
        viol_json = json!({"key": key, "message": truncate(&msg, 400), "replay": path, "tape_len": st.to_len});
        replay_path = Some(path);
        exit = 1;
    }
    // required probes
    let mut probe_missing = Vec::new();
    if exit == 0 {
        for p in prop.required_probes() {
            if a.probes.get(p).copied().unwrap_or(0) == 0 { probe_missing.push(p); }
        }
    }
    if a.samples.is_empty() { if let Some(t) = a.trivial_sample.take() { a.samples.push(t); } }
    // determinism of the harness on this very batch: the first runs are executed once more, on this thread,
    // and must report exactly what they reported inside the batch (C20 compares processes by itself)
    let mut same = 0u64;
    let mut differing: Vec<u64> = Vec::new();
    if prop.id() == "C20" { a.first_hashes.clear(); }
    if prop.id() != "C20" {
        a.first_hashes.sort();
        for (i, h) in &a.first_hashes {
            let mut src = Src::record(mix(cfg.seed, *i));
            let ctx = RunCtx { tier: cfg.tier, trace: *i < 3, findings: &findings, index: *i };
            let h2 = match exec(prop, &mut src, &ctx) { Exec::Report(rep) => { let (t, _) = src.into_tape(); report_hash(&rep, t.len()) } Exec::HarnessPanic(_) => 0xdead };
            if h2 == *h { same += 1; } else { differing.push(*i); }
        }
        if !differing.is_empty() { eprintln!("WARNING determinism self-check: runs {:?} reported differently when repeated", differing); }
    }
    let distinct = a.fps.len() as u64;
    let ev = json!({
        "property_id": prop.id(),
        "tier": cfg.tier.name(),
        "seed": cfg.seed,
        "level": prop.level(),
        "coverage": {
            "evaluations": a.evals,
            "distinct_nontrivial": distinct,
            "rule": prop.rule(),
            "explanation": prop.rule(),
            "samples": a.samples,
            "simulated_runs": a.runs,
            "nontrivial_runs": a.nontrivial_runs,
            "runs_per_hour": if wall > 0.0 { (a.runs as f64 / wall * 3600.0) as u64 } else { 0 },
            "simulated_ms": a.sim_ms,
            "scheduler_steps": a.steps,
            "faults_fired": a.faults,
            "probes": a.probes,
            "distinct_measure": "FNV-1a fingerprint of (operation list, fired faults, realised schedule/arrival order) per run or per sub-case",
            "components_real": prop.components_real(),
            "components_stubbed": prop.components_stubbed(),
            "known_findings_hit": a.known.iter().map(|(k, (n, _))| (k.clone(), *n)).collect::<BTreeMap<_, _>>(),
            "violation": viol_json,
            "threads": cfg.threads,
            "determinism_selfcheck": {"runs_repeated_on_another_thread": a.first_hashes.len(), "identical": same, "differing_run_indices": differing, "what": "report hash = (fingerprint, evaluations, scheduler steps, violation keys, sub-case fingerprints, tape length); `check selftest` compares 150 runs per property across 16 threads, 1 thread and a fresh process"},
            "stopped_early": a.runs < cfg.runs,
        },
        "assumptions": prop.assumptions(),
        "wall_s": wall,
        "violations": if exit == 1 { 1 } else { 0 },
    });
    let edir = format!("{}/evidence", verif_root());
    let _ = std::fs::create_dir_all(&edir);
    let epath = format!("{}/{}.json", edir, prop.id());
    if let Err(e) = std::fs::write(&epath, serde_json::to_string_pretty(&ev).unwrap()) {
        eprintln!("harness error: cannot write evidence {}: {}", epath, e);
        return 2;
    }
    println!("{}: runs={} evals={} distinct_nontrivial={} wall={:.1}s faults={:?} probes={:?}", prop.id(), a.runs, a.evals, distinct, wall, a.faults, a.probes);
    if !probe_missing.is_empty() {
        eprintln!("HARNESS-ERROR required probes never fired: {:?}", probe_missing);
        return 2;
    }
    let _ = replay_path;
    exit
}

fn truncate(s: &str, n: usize) -> String {
    if s.len() <= n { s.to_string() } else {
        let mut e = n; while !s.is_char_boundary(e) { e -= 1; }
        format!("{}…", &s[..e])
    }
}

/// Replay a file: exit 1 if the same violation key reproduces, 0 if not.
pub fn replay_file(prop: &dyn Property, path: &str) -> i32 {
    let findings = Findings::load().unwrap_or_default();
    let txt = match std::fs::read_to_string(path) { Ok(t) => t, Err(e) => { eprintln!("cannot read {}: {}", path, e); return 2; } };
    let doc: Value = match serde_json::from_str(&txt) { Ok(v) => v, Err(e) => { eprintln!("bad replay file: {}", e); return 2; } };
    let tape: Vec<u64> = doc["tape"].as_array().map(|a| a.iter().filter_map(|x| x.as_u64()).collect()).unwrap_or_default();
    let key = doc["violation_key"].as_str().unwrap_or("").to_string();
    let tier = if doc["tier"].as_str() == Some("thorough") { Tier::Thorough } else { Tier::Quick };
    let mut src = Src::replay(tape);
    let ctx = RunCtx { tier, trace: true, findings: &findings, index: 0 };
    match exec(prop, &mut src, &ctx) {
        Exec::Report(rep) => {
            for l in &rep.trace { println!("  {}", l); }
            if let Some(v) = rep.violations.iter().find(|v| v.key == key) {
                println!("reproduced key={} msg={}", v.key, v.msg);
                println!("VIOLATION property={} replay={}", prop.id(), path);
                1
            } else {
                println!("not reproduced (violations seen: {:?})", rep.violations.iter().map(|v| &v.key).collect::<Vec<_>>());
                0
            }
        }
        Exec::HarnessPanic(w) => { eprintln!("HARNESS-ERROR {}", w); 2 }
    }
}

/// Determinism self-check: the same seeds must give the same per-run reports whatever the thread
/// count and whichever process runs them. Returns a digest of (fingerprint, evals, violation keys)
/// per run index.
pub fn digest_batch(prop: &dyn Property, seed: u64, runs: u64, threads: usize, tier: Tier) -> u64 {
    let findings = Findings::load().unwrap_or_default();
    let next = AtomicU64::new(0);
    let out: Mutex<Vec<(u64, u64)>> = Mutex::new(Vec::new());
    std::thread::scope(|s| {
        for _ in 0..threads {
            s.spawn(|| loop {
                let i = next.fetch_add(1, Ordering::Relaxed);
                if i >= runs { break; }
                let mut src = Src::record(mix(seed, i));
                let tr = std::env::var("VERIF_SELFTEST_TRACE_RUN").ok().and_then(|s| s.parse::<u64>().ok()) == Some(i);
                let ctx = RunCtx { tier, trace: tr, findings: &findings, index: i };
                let h = match exec(prop, &mut src, &ctx) {
                    Exec::Report(rep) => {
                        if tr { for l in &rep.trace { println!("trace {}", l); } println!("trace sample {:?}", rep.sample); }
                        let mut h = super::tape::fnv(rep.fingerprint, &rep.evals.to_le_bytes());
                        h = super::tape::fnv(h, &rep.steps.to_le_bytes());
                        for v in &rep.violations { h = super::tape::fnv(h, v.key.as_bytes()); }
                        for f in &rep.sub_fps { h = super::tape::fnv(h, &f.to_le_bytes()); }
                        let (tape, _) = src.into_tape();
                        if std::env::var("VERIF_SELFTEST_DEBUG").is_ok() && (i < 3 || std::env::var("VERIF_SELFTEST_DEBUG").as_deref() == Ok("2")) { println!("dbg run {} fp={:x} evals={} steps={} viol={:?} subfps={:?} tape={}", i, rep.fingerprint, rep.evals, rep.steps, rep.violations.iter().map(|v| v.key.clone()).collect::<Vec<_>>(), rep.sub_fps.iter().take(6).collect::<Vec<_>>(), tape.len()); }
                        super::tape::fnv(h, &(tape.len() as u64).to_le_bytes())
                    }
                    Exec::HarnessPanic(_) => 0xdead,
                };
                out.lock().unwrap().push((i, h));
            });
        }
    });
    let mut v = out.into_inner().unwrap();
    v.sort();
    if std::env::var("VERIF_SELFTEST_DEBUG").is_ok() { for (i, h) in &v { println!("run {} {:016x}", i, h); } }
    let mut d = 0u64;
    for (i, h) in v { d = super::tape::fnv(d, &i.to_le_bytes()); d = super::tape::fnv(d, &h.to_le_bytes()); }
    d
}
