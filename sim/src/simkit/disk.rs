//! SimWalStore: a `WalStore` whose every call is a numbered event, with injectable faults and
//! crash images. A file's durable content is its prefix up to the last *successful* fsync.

use redis_sim::streaming::{WalError, WalFileReader, WalFileWriter, WalStore};
use std::collections::BTreeMap;
use std::sync::{Arc, Mutex};

#[derive(Debug, Clone, Copy, PartialEq, Eq, PartialOrd, Ord)]
pub enum WalFault {
    AppendError,
    /// write `permille`/1000 of the bytes (at least 1, fewer than all), then fail
    AppendPartial(u16),
    /// like AppendPartial, but reported as a plain I/O error (what `write_all` on a real file does)
    AppendTornIo(u16),
    SyncError,
    DiskFull,
    CreateError,
}
impl WalFault {
    pub fn name(&self) -> &'static str {
        match self {
            WalFault::AppendError => "wal_append_error",
            WalFault::AppendPartial(_) => "wal_append_partial",
            WalFault::AppendTornIo(_) => "wal_append_torn_io",
            WalFault::SyncError => "wal_fsync_error",
            WalFault::DiskFull => "wal_disk_full",
            WalFault::CreateError => "wal_create_error",
        }
    }
}

#[derive(Debug, Clone, Copy, PartialEq, Eq)]
pub enum IoKind { Create, Append, Sync, Delete, List, OpenRead }

#[derive(Debug, Clone)]
pub struct IoEvent {
    pub seq: u64,
    pub call: u64,
    pub kind: IoKind,
    pub file: String,
    pub len: usize,
    pub fault: Option<WalFault>,
    pub data: Vec<u8>,
}

#[derive(Debug, Clone, Default)]
pub struct SimFile { pub data: Vec<u8>, pub synced: usize }

pub type Image = BTreeMap<String, Vec<u8>>;

#[derive(Default)]
pub struct DiskInner {
    pub files: BTreeMap<String, SimFile>,
    pub calls: u64,
    /// faults keyed by I/O call index (create/append/sync calls are counted; reads are not)
    pub plan: BTreeMap<u64, WalFault>,
    pub fired: Vec<(u64, WalFault)>,
    /// fail the n-th open_read from now (0 = the next one) once with a transient I/O error
    pub fail_open_read_in: Option<u64>,
    pub read_errors_fired: u64,
    pub events: Vec<IoEvent>,
    /// (global seq at which this durable image became current, image)
    pub images: Vec<(u64, Image)>,
    /// (seq, full contents incl. unsynced tails) for lenient crash images
    pub volatile_images: Vec<(u64, BTreeMap<String, (Vec<u8>, usize)>)>,
    pub record_images: bool,
}

/// Global event sequence shared by the disk and the harness (acks are stamped from it too).
#[derive(Clone, Default)]
pub struct Seq(Arc<Mutex<u64>>);
impl Seq {
    pub fn next(&self) -> u64 { let mut g = self.0.lock().unwrap(); *g += 1; *g }
    pub fn now(&self) -> u64 { *self.0.lock().unwrap() }
}

#[derive(Clone)]
pub struct SimWalStore { pub inner: Arc<Mutex<DiskInner>>, pub seq: Seq }

impl SimWalStore {
    pub fn new(seq: Seq) -> Self {
        let mut d = DiskInner::default();
        d.record_images = true;
        d.images.push((0, Image::new()));
        SimWalStore { inner: Arc::new(Mutex::new(d)), seq }
    }
    pub fn from_image(img: &Image) -> Self {
        let mut d = DiskInner::default();
        for (n, b) in img { d.files.insert(n.clone(), SimFile { data: b.clone(), synced: b.len() }); }
        SimWalStore { inner: Arc::new(Mutex::new(d)), seq: Seq::default() }
    }
    pub fn set_plan(&self, plan: BTreeMap<u64, WalFault>) { self.inner.lock().unwrap().plan = plan; }
    pub fn durable_image(&self) -> Image {
        let d = self.inner.lock().unwrap();
        d.files.iter().map(|(n, f)| (n.clone(), f.data[..f.synced].to_vec())).collect()
    }
    pub fn full_image(&self) -> Image {
        let d = self.inner.lock().unwrap();
        d.files.iter().map(|(n, f)| (n.clone(), f.data.clone())).collect()
    }
    fn snapshot(d: &mut DiskInner, seq: u64) {
        if !d.record_images { return; }
        let img: Image = d.files.iter().map(|(n, f)| (n.clone(), f.data[..f.synced].to_vec())).collect();
        d.images.push((seq, img));
    }
    fn snapshot_volatile(d: &mut DiskInner, seq: u64) {
        if !d.record_images { return; }
        let img = d.files.iter().map(|(n, f)| (n.clone(), (f.data.clone(), f.synced))).collect();
        d.volatile_images.push((seq, img));
    }
    fn take_fault(d: &mut DiskInner) -> (u64, Option<WalFault>) {
        let c = d.calls;
        d.calls += 1;
        (c, d.plan.get(&c).copied())
    }
}

pub struct SimWalWriter { name: String, store: SimWalStore, size: u64 }

impl WalFileWriter for SimWalWriter {
    fn append(&mut self, data: &[u8]) -> Result<u64, WalError> {
        let seq = self.store.seq.next();
        let mut d = self.store.inner.lock().unwrap();
        let (call, fault) = SimWalStore::take_fault(&mut d);
        let mut applied = None;
        let res = match fault {
            Some(WalFault::AppendError) => { applied = fault; Err(WalError::Io(std::io::Error::new(std::io::ErrorKind::Other, "injected append error"))) }
            Some(WalFault::DiskFull) => { applied = fault; Err(WalError::DiskFull) }
            Some(WalFault::AppendPartial(pm)) if data.len() >= 2 => {
                applied = fault;
                let k = ((data.len() as u64 * pm as u64) / 1000).clamp(1, data.len() as u64 - 1) as usize;
                if let Some(f) = d.files.get_mut(&self.name) { f.data.extend_from_slice(&data[..k]); self.size = f.data.len() as u64; }
                Err(WalError::PartialWrite { expected: data.len(), actual: k })
            }
            Some(WalFault::AppendTornIo(pm)) if data.len() >= 2 => {
                applied = fault;
                let k = ((data.len() as u64 * pm as u64) / 1000).clamp(1, data.len() as u64 - 1) as usize;
                if let Some(f) = d.files.get_mut(&self.name) { f.data.extend_from_slice(&data[..k]); self.size = f.data.len() as u64; }
                Err(WalError::Io(std::io::Error::new(std::io::ErrorKind::Other, "injected I/O error after a short write")))
            }
            _ => {
                match d.files.get_mut(&self.name) {
                    Some(f) => { f.data.extend_from_slice(data); self.size = f.data.len() as u64; Ok(self.size) }
                    None => Err(WalError::NotFound(self.name.clone())),
                }
            }
        };
        if let Some(f) = applied { d.fired.push((call, f)); }
        d.events.push(IoEvent { seq, call, kind: IoKind::Append, file: self.name.clone(), len: data.len(), fault: applied, data: data.to_vec() });
        SimWalStore::snapshot_volatile(&mut d, seq);
        res
    }
    fn sync(&mut self) -> Result<(), WalError> {
        let seq = self.store.seq.next();
        let mut d = self.store.inner.lock().unwrap();
        let (call, fault) = SimWalStore::take_fault(&mut d);
        let mut applied = None;
        let res = match fault {
            Some(WalFault::SyncError) => { applied = fault; Err(WalError::FsyncFailed("injected fsync error".into())) }
            _ => {
                if let Some(f) = d.files.get_mut(&self.name) { f.synced = f.data.len(); }
                Ok(())
            }
        };
        if let Some(f) = applied { d.fired.push((call, f)); }
        d.events.push(IoEvent { seq, call, kind: IoKind::Sync, file: self.name.clone(), len: 0, fault: applied, data: Vec::new() });
        if res.is_ok() { SimWalStore::snapshot(&mut d, seq); SimWalStore::snapshot_volatile(&mut d, seq); }
        res
    }
    fn size(&self) -> u64 { self.size }
}

pub struct SimWalReader { data: Vec<u8> }
impl WalFileReader for SimWalReader {
    fn read_all(&mut self) -> Result<Vec<u8>, WalError> { Ok(self.data.clone()) }
}

impl WalStore for SimWalStore {
    type Writer = SimWalWriter;
    type Reader = SimWalReader;
    fn create(&self, name: &str) -> Result<Self::Writer, WalError> {
        let seq = self.seq.next();
        let mut d = self.inner.lock().unwrap();
        let (call, fault) = SimWalStore::take_fault(&mut d);
        if let Some(WalFault::CreateError) = fault {
            d.fired.push((call, WalFault::CreateError));
            d.events.push(IoEvent { seq, call, kind: IoKind::Create, file: name.to_string(), len: 0, fault, data: Vec::new() });
            return Err(WalError::Io(std::io::Error::new(std::io::ErrorKind::Other, "injected create error")));
        }
        d.files.insert(name.to_string(), SimFile::default());
        d.events.push(IoEvent { seq, call, kind: IoKind::Create, file: name.to_string(), len: 0, fault: None, data: Vec::new() });
        SimWalStore::snapshot(&mut d, seq);
        SimWalStore::snapshot_volatile(&mut d, seq);
        Ok(SimWalWriter { name: name.to_string(), store: self.clone(), size: 0 })
    }
    fn open_read(&self, name: &str) -> Result<Self::Reader, WalError> {
        let mut d = self.inner.lock().unwrap();
        if let Some(n) = d.fail_open_read_in {
            if n == 0 { d.fail_open_read_in = None; d.read_errors_fired += 1; return Err(WalError::Io(std::io::Error::new(std::io::ErrorKind::Other, format!("injected read error on {}", name)))); }
            d.fail_open_read_in = Some(n - 1);
        }
        d.files.get(name).map(|f| SimWalReader { data: f.data.clone() }).ok_or_else(|| WalError::NotFound(name.to_string()))
    }
    fn list(&self) -> Result<Vec<String>, WalError> {
        Ok(self.inner.lock().unwrap().files.keys().cloned().collect())
    }
    fn delete(&self, name: &str) -> Result<(), WalError> {
        let seq = self.seq.next();
        let mut d = self.inner.lock().unwrap();
        d.files.remove(name);
        let call = d.calls;
        d.events.push(IoEvent { seq, call, kind: IoKind::Delete, file: name.to_string(), len: 0, fault: None, data: Vec::new() });
        SimWalStore::snapshot(&mut d, seq);
        SimWalStore::snapshot_volatile(&mut d, seq);
        Ok(())
    }
    fn exists(&self, name: &str) -> Result<bool, WalError> {
        Ok(self.inner.lock().unwrap().files.contains_key(name))
    }
}
