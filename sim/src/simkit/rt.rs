//! Single-threaded tokio runtime with paused clock and a process scheduler whose every choice
//! comes from the tape.

use super::tape::Src;
use std::future::Future;
use std::pin::Pin;
use std::sync::atomic::{AtomicBool, Ordering};
use std::sync::Arc;
use std::task::{Context, Poll, Wake, Waker};
use std::time::Duration;

pub fn runtime(seed: u64) -> tokio::runtime::Runtime {
    tokio::runtime::Builder::new_current_thread()
        .enable_time()
        .start_paused(true)
        .rng_seed(tokio::runtime::RngSeed::from_bytes(&seed.to_le_bytes()))
        .build()
        .expect("tokio runtime")
}

/// Run `f` to completion on a fresh deterministic runtime. The runtime (and with it every task the
/// code under test spawned) is dropped before returning.
pub fn block_on<F: Future>(seed: u64, f: F) -> F::Output {
    let rt = runtime(seed);
    let out = rt.block_on(f);
    drop(rt);
    out
}

struct Flag(AtomicBool, Arc<std::sync::Mutex<Option<Waker>>>);
impl Wake for Flag {
    fn wake(self: Arc<Self>) { self.wake_by_ref(); }
    fn wake_by_ref(self: &Arc<Self>) {
        self.0.store(true, Ordering::SeqCst);
        if let Some(w) = self.1.lock().unwrap().take() { w.wake(); }
    }
}

struct AnyReady<'s, 'a>(&'s Sched<'a>);
impl<'s, 'a> Future for AnyReady<'s, 'a> {
    type Output = ();
    fn poll(self: Pin<&mut Self>, cx: &mut Context<'_>) -> Poll<()> {
        *self.0.main.lock().unwrap() = Some(cx.waker().clone());
        if !self.0.ready().is_empty() { return Poll::Ready(()); }
        Poll::Pending
    }
}

struct Proc<'a> {
    name: String,
    fut: Option<Pin<Box<dyn Future<Output = ()> + 'a>>>,
    flag: Arc<Flag>,
    polls: u64,
}

/// Owns the "process" futures (clients, connection handlers, flush/compaction calls…). They are
/// never spawned: they only run when the scheduler polls them, so mailbox arrival order and the
/// instant at which a reply is observed are functions of the decision sequence alone. Tasks the
/// code under test spawns itself (shard actors, WAL actor) run only inside `yield_actors`/`sleep`.
pub struct Sched<'a> {
    procs: Vec<Proc<'a>>,
    pub steps: u64,
    pub order_fp: u64,
    main: Arc<std::sync::Mutex<Option<Waker>>>,
    /// simulated ms after which an all-blocked system is declared idle
    pub idle_limit_ms: u64,
}

#[derive(Debug, Clone, Copy, PartialEq, Eq)]
pub enum Step { Polled(usize), Yielded, Waited, Idle }

impl<'a> Sched<'a> {
    pub fn new() -> Self { Sched { procs: Vec::new(), steps: 0, order_fp: 0, main: Arc::new(std::sync::Mutex::new(None)), idle_limit_ms: 60_000 } }

    pub fn add(&mut self, name: impl Into<String>, fut: impl Future<Output = ()> + 'a) -> usize {
        let flag = Arc::new(Flag(AtomicBool::new(true), self.main.clone()));
        self.procs.push(Proc { name: name.into(), fut: Some(Box::pin(tokio::task::unconstrained(fut))), flag, polls: 0 });
        self.procs.len() - 1
    }
    pub fn name(&self, i: usize) -> &str { &self.procs[i].name }
    pub fn len(&self) -> usize { self.procs.len() }
    pub fn is_done(&self, i: usize) -> bool { self.procs[i].fut.is_none() }
    pub fn all_done(&self) -> bool { self.procs.iter().all(|p| p.fut.is_none()) }
    pub fn alive(&self) -> Vec<usize> { (0..self.procs.len()).filter(|i| self.procs[*i].fut.is_some()).collect() }
    pub fn ready(&self) -> Vec<usize> {
        (0..self.procs.len()).filter(|i| self.procs[*i].fut.is_some() && self.procs[*i].flag.0.load(Ordering::SeqCst)).collect()
    }
    pub fn polls(&self, i: usize) -> u64 { self.procs[i].polls }

    /// Poll process `i` once. Returns true if it completed.
    pub fn poll(&mut self, i: usize) -> bool {
        self.steps += 1;
        self.order_fp = super::tape::fnv(self.order_fp, &[i as u8, 1]);
        let p = &mut self.procs[i];
        let Some(fut) = p.fut.as_mut() else { return true };
        p.flag.0.store(false, Ordering::SeqCst);
        p.polls += 1;
        let waker = Waker::from(p.flag.clone());
        let mut cx = Context::from_waker(&waker);
        match fut.as_mut().poll(&mut cx) {
            Poll::Ready(()) => { p.fut = None; true }
            Poll::Pending => false,
        }
    }

    /// Drop process `i` at its current await point (client disconnect / kill).
    pub fn cancel(&mut self, i: usize) {
        self.order_fp = super::tape::fnv(self.order_fp, &[i as u8, 2]);
        self.procs[i].fut = None;
    }

    /// Let the tasks spawned by the code under test run until none is runnable.
    pub async fn yield_actors(&mut self) {
        self.steps += 1;
        self.order_fp = super::tape::fnv(self.order_fp, &[0xff, 3]);
        tokio::task::yield_now().await;
    }

    /// Advance simulated time by `ms` (tokio's paused clock jumps from timer to timer while idle).
    pub async fn sleep(&mut self, ms: u64) {
        self.steps += 1;
        self.order_fp = super::tape::fnv(self.order_fp, &[0xfe, 4]);
        tokio::time::sleep(Duration::from_millis(ms)).await;
    }

    /// One scheduling decision drawn from the tape. Canonical (tape value 0) behaviour: poll the
    /// first ready process; if none is ready, yield to actors; if still none, sleep 1 ms.
    /// `yield_bias`: out of 8, how often a yield is chosen although some process is ready.
    pub async fn step(&mut self, src: &mut Src, yield_bias: u64) -> Step {
        let ready = self.ready();
        if ready.is_empty() {
            self.yield_actors().await;
            if self.ready().is_empty() {
                if self.all_done() { return Step::Idle; }
                // Block the main future: tokio's paused clock then jumps to the next pending timer
                // (group-commit wait, write timeout…). If nothing wakes a process within
                // `idle_limit_ms` simulated ms the system is idle/deadlocked.
                let limit = Duration::from_millis(self.idle_limit_ms);
                let woke = tokio::select! {
                    biased;
                    _ = AnyReady(self) => true,
                    _ = tokio::time::sleep(limit) => false,
                };
                return if woke { Step::Waited } else { Step::Idle };
            }
            return Step::Yielded;
        }
        let k = src.below(ready.len() as u64 + 1);
        // k == ready.len() would be "yield"; remap so that 0 = poll first ready
        if k as usize == ready.len() && src.chance(yield_bias, 8) {
            self.yield_actors().await;
            return Step::Yielded;
        }
        let i = ready[(k as usize) % ready.len()];
        self.poll(i);
        Step::Polled(i)
    }

    /// Drive everything to completion with decisions from the tape, at most `max_steps` steps.
    /// Returns false if the step budget ran out with processes still alive.
    pub async fn run_all(&mut self, src: &mut Src, yield_bias: u64, max_steps: u64) -> bool {
        let mut n = 0;
        while !self.all_done() {
            n += 1;
            if n > max_steps { return false; }
            if let Step::Idle = self.step(src, yield_bias).await { break; }
        }
        self.all_done()
    }
}
