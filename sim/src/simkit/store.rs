//! SimStore: an `ObjectStore` whose every call is a numbered event and (optionally) a scheduling
//! point, with injectable faults and crash images. put is not atomic, rename is.

use redis_sim::streaming::{ListResult, ObjectMeta, ObjectStore};
use std::collections::BTreeMap;
use std::future::Future;
use std::io::{Error as IoError, ErrorKind, Result as IoResult};
use std::pin::Pin;
use std::sync::{Arc, Mutex};
use std::task::{Context, Poll};

#[derive(Debug, Clone, Copy, PartialEq, Eq, PartialOrd, Ord)]
pub enum StoreFault {
    /// put fails, nothing written
    PutError,
    /// put writes `permille`/1000 of the bytes (at least 0, fewer than all), then fails
    PutTorn(u16),
    /// put writes everything but reports an error
    PutAmbiguous,
    GetError,
    /// get of a segment or checkpoint object returns the bytes with one bit flipped (the stored object is
    /// intact): these formats carry checksums the readers validate. Other objects: as GetError.
    GetCorrupt,
    RenameError,
    /// rename takes effect but reports an error (a copy-then-delete rename whose delete half failed)
    RenameAmbiguous,
    DeleteError,
    /// list omits the last object
    ListIncomplete,
}
impl StoreFault {
    pub fn name(&self) -> &'static str {
        match self {
            StoreFault::PutError => "store_put_error",
            StoreFault::PutTorn(_) => "store_put_torn",
            StoreFault::PutAmbiguous => "store_put_ambiguous",
            StoreFault::GetError => "store_get_error",
            StoreFault::GetCorrupt => "store_get_corrupt",
            StoreFault::RenameError => "store_rename_error",
            StoreFault::RenameAmbiguous => "store_rename_ambiguous",
            StoreFault::DeleteError => "store_delete_error",
            StoreFault::ListIncomplete => "store_list_incomplete",
        }
    }
}

#[derive(Debug, Clone, Copy, PartialEq, Eq)]
pub enum OpKind { Put, Get, Exists, Delete, List, Rename, Head }
impl OpKind {
    pub fn name(&self) -> &'static str {
        match self { OpKind::Put => "put", OpKind::Get => "get", OpKind::Exists => "exists", OpKind::Delete => "delete", OpKind::List => "list", OpKind::Rename => "rename", OpKind::Head => "head" }
    }
}

#[derive(Debug, Clone)]
pub struct StoreEvent { pub op: u64, pub kind: OpKind, pub key: String, pub len: usize, pub fault: Option<StoreFault>, pub ok: bool, pub who: u32 }

pub type Objects = BTreeMap<String, Vec<u8>>;

#[derive(Debug, Clone)]
pub struct CrashImage { pub op: u64, pub phase: &'static str, pub objects: Objects }

#[derive(Default)]
pub struct StoreInner {
    pub objs: Objects,
    pub ops: u64,
    pub plan: BTreeMap<u64, StoreFault>,
    /// fault at the n-th operation (0-based) issued through the handle of actor `who`
    pub who_plan: BTreeMap<(u32, u64), StoreFault>,
    pub who_ops: BTreeMap<u32, u64>,
    /// one-shot: the next rename issued by this actor gets this fault
    pub next_rename_fault: BTreeMap<u32, StoreFault>,
    /// one-shot: after skipping this many deletes issued by this actor, the next one fails
    pub next_delete_fault: BTreeMap<u32, u64>,
    pub fired: Vec<(u64, StoreFault)>,
    pub events: Vec<StoreEvent>,
    pub images: Vec<CrashImage>,
    pub record_images: bool,
    pub yield_each_op: bool,
    pub now_ms: u64,
}

#[derive(Clone)]
pub struct SimStore { pub inner: Arc<Mutex<StoreInner>>, pub who: u32 }

struct YieldOnce(bool);
impl Future for YieldOnce {
    type Output = ();
    fn poll(mut self: Pin<&mut Self>, cx: &mut Context<'_>) -> Poll<()> {
        if self.0 { return Poll::Ready(()); }
        self.0 = true;
        cx.waker().wake_by_ref();
        Poll::Pending
    }
}

impl SimStore {
    pub fn new() -> Self { SimStore { inner: Arc::new(Mutex::new(StoreInner { record_images: true, ..Default::default() })), who: 0 } }
    pub fn from_objects(objs: &Objects) -> Self {
        SimStore { inner: Arc::new(Mutex::new(StoreInner { objs: objs.clone(), ..Default::default() })), who: 0 }
    }
    /// A handle that stamps its events with `who` (to tell concurrent actors apart in traces).
    pub fn as_actor(&self, who: u32) -> Self { SimStore { inner: self.inner.clone(), who } }
    pub fn set_plan(&self, plan: BTreeMap<u64, StoreFault>) { self.inner.lock().unwrap().plan = plan; }
    pub fn set_who_plan(&self, plan: BTreeMap<(u32, u64), StoreFault>) { self.inner.lock().unwrap().who_plan = plan; }
    pub fn set_yield(&self, on: bool) { self.inner.lock().unwrap().yield_each_op = on; }
    pub fn set_record(&self, on: bool) { self.inner.lock().unwrap().record_images = on; }
    pub fn objects(&self) -> Objects { self.inner.lock().unwrap().objs.clone() }
    pub fn ops(&self) -> u64 { self.inner.lock().unwrap().ops }

    fn begin(d: &mut StoreInner, who: u32) -> (u64, Option<StoreFault>) {
        let op = d.ops;
        d.ops += 1;
        let nth = { let c = d.who_ops.entry(who).or_insert(0); let n = *c; *c += 1; n };
        (op, d.plan.get(&op).copied().or_else(|| d.who_plan.get(&(who, nth)).copied()))
    }
    fn image(d: &mut StoreInner, op: u64, phase: &'static str) {
        if d.record_images { let objects = d.objs.clone(); d.images.push(CrashImage { op, phase, objects }); }
    }
    fn injected(what: &str) -> IoError { IoError::new(ErrorKind::Other, format!("injected {}", what)) }
}

impl ObjectStore for SimStore {
    fn put<'a>(&'a self, key: &'a str, data: &'a [u8]) -> Pin<Box<dyn Future<Output = IoResult<()>> + Send + 'a>> {
        Box::pin(async move {
            if self.inner.lock().unwrap().yield_each_op { YieldOnce(false).await; }
            let mut d = self.inner.lock().unwrap();
            let (op, fault) = SimStore::begin(&mut d, self.who);
            SimStore::image(&mut d, op, "before");
            // "during": the object may be left holding any prefix
            if d.record_images && !data.is_empty() {
                for cut in [0usize, data.len() / 2, data.len() - 1] {
                    let mut objects = d.objs.clone();
                    objects.insert(key.to_string(), data[..cut].to_vec());
                    d.images.push(CrashImage { op, phase: "during-put", objects });
                }
            }
            let mut applied = None;
            let res = match fault {
                Some(StoreFault::PutError) => { applied = fault; Err(SimStore::injected("put error")) }
                Some(StoreFault::PutTorn(pm)) => {
                    applied = fault;
                    let k = ((data.len() as u64 * pm as u64) / 1000).min(data.len().saturating_sub(1) as u64) as usize;
                    d.objs.insert(key.to_string(), data[..k].to_vec());
                    Err(SimStore::injected("torn put"))
                }
                Some(StoreFault::PutAmbiguous) => { applied = fault; d.objs.insert(key.to_string(), data.to_vec()); Err(SimStore::injected("put timeout after write")) }
                _ => { d.objs.insert(key.to_string(), data.to_vec()); Ok(()) }
            };
            if let Some(f) = applied { d.fired.push((op, f)); }
            let ok = res.is_ok();
            d.events.push(StoreEvent { op, kind: OpKind::Put, key: key.to_string(), len: data.len(), fault: applied, ok, who: self.who });
            res
        })
    }
    fn get<'a>(&'a self, key: &'a str) -> Pin<Box<dyn Future<Output = IoResult<Vec<u8>>> + Send + 'a>> {
        Box::pin(async move {
            if self.inner.lock().unwrap().yield_each_op { YieldOnce(false).await; }
            let mut d = self.inner.lock().unwrap();
            let (op, fault) = SimStore::begin(&mut d, self.who);
            let mut applied = None;
            let res = match fault {
                Some(StoreFault::GetError) => { applied = fault; Err(SimStore::injected("get error")) }
                Some(StoreFault::GetCorrupt) => {
                    applied = fault;
                    if key.contains("/segments/") || key.contains("/checkpoints/") {
                        d.objs.get(key).cloned().map(|mut b| { if !b.is_empty() { let i = b.len() / 2; b[i] ^= 0x10; } b }).ok_or_else(|| IoError::new(ErrorKind::NotFound, format!("not found: {}", key)))
                    } else { Err(SimStore::injected("get error")) }
                }
                _ => d.objs.get(key).cloned().ok_or_else(|| IoError::new(ErrorKind::NotFound, format!("not found: {}", key))),
            };
            if let Some(f) = applied { d.fired.push((op, f)); }
            let ok = res.is_ok();
            d.events.push(StoreEvent { op, kind: OpKind::Get, key: key.to_string(), len: 0, fault: applied, ok, who: self.who });
            res
        })
    }
    fn exists<'a>(&'a self, key: &'a str) -> Pin<Box<dyn Future<Output = IoResult<bool>> + Send + 'a>> {
        Box::pin(async move {
            if self.inner.lock().unwrap().yield_each_op { YieldOnce(false).await; }
            let mut d = self.inner.lock().unwrap();
            let (op, _) = SimStore::begin(&mut d, self.who);
            let r = d.objs.contains_key(key);
            d.events.push(StoreEvent { op, kind: OpKind::Exists, key: key.to_string(), len: 0, fault: None, ok: true, who: self.who });
            Ok(r)
        })
    }
    fn delete<'a>(&'a self, key: &'a str) -> Pin<Box<dyn Future<Output = IoResult<()>> + Send + 'a>> {
        Box::pin(async move {
            if self.inner.lock().unwrap().yield_each_op { YieldOnce(false).await; }
            let mut d = self.inner.lock().unwrap();
            let (op, fault) = SimStore::begin(&mut d, self.who);
            let fault = fault.or_else(|| match d.next_delete_fault.get(&self.who).copied() { Some(0) => { d.next_delete_fault.remove(&self.who); Some(StoreFault::DeleteError) } Some(n) => { d.next_delete_fault.insert(self.who, n - 1); None } None => None });
            SimStore::image(&mut d, op, "before");
            let mut applied = None;
            let res = match fault {
                Some(StoreFault::DeleteError) => { applied = fault; Err(SimStore::injected("delete error")) }
                _ => { d.objs.remove(key); Ok(()) }
            };
            if let Some(f) = applied { d.fired.push((op, f)); }
            let ok = res.is_ok();
            d.events.push(StoreEvent { op, kind: OpKind::Delete, key: key.to_string(), len: 0, fault: applied, ok, who: self.who });
            res
        })
    }
    fn list<'a>(&'a self, prefix: &'a str, _token: Option<&'a str>) -> Pin<Box<dyn Future<Output = IoResult<ListResult>> + Send + 'a>> {
        Box::pin(async move {
            if self.inner.lock().unwrap().yield_each_op { YieldOnce(false).await; }
            let mut d = self.inner.lock().unwrap();
            let (op, fault) = SimStore::begin(&mut d, self.who);
            let now = d.now_ms;
            let mut objects: Vec<ObjectMeta> = d.objs.iter().filter(|(k, _)| k.starts_with(prefix))
                .map(|(k, v)| ObjectMeta { key: k.clone(), size_bytes: v.len() as u64, created_at_ms: now, etag: None }).collect();
            let mut applied = None;
            if let Some(StoreFault::ListIncomplete) = fault { applied = fault; objects.pop(); }
            if let Some(f) = applied { d.fired.push((op, f)); }
            d.events.push(StoreEvent { op, kind: OpKind::List, key: prefix.to_string(), len: objects.len(), fault: applied, ok: true, who: self.who });
            Ok(ListResult { objects, continuation_token: None })
        })
    }
    fn rename<'a>(&'a self, from: &'a str, to: &'a str) -> Pin<Box<dyn Future<Output = IoResult<()>> + Send + 'a>> {
        Box::pin(async move {
            if self.inner.lock().unwrap().yield_each_op { YieldOnce(false).await; }
            let mut d = self.inner.lock().unwrap();
            let (op, fault) = SimStore::begin(&mut d, self.who);
            let fault = fault.or_else(|| d.next_rename_fault.remove(&self.who));
            SimStore::image(&mut d, op, "before");
            let mut applied = None;
            let res = match fault {
                Some(StoreFault::RenameError) => { applied = fault; Err(SimStore::injected("rename error")) }
                Some(StoreFault::RenameAmbiguous) => {
                    applied = fault;
                    if let Some(v) = d.objs.remove(from) { d.objs.insert(to.to_string(), v); }
                    Err(SimStore::injected("rename: the source could not be removed after the copy"))
                }
                _ => match d.objs.remove(from) {
                    Some(v) => { d.objs.insert(to.to_string(), v); Ok(()) }
                    None => Err(IoError::new(ErrorKind::NotFound, format!("not found: {}", from))),
                },
            };
            if let Some(f) = applied { d.fired.push((op, f)); }
            let ok = res.is_ok();
            d.events.push(StoreEvent { op, kind: OpKind::Rename, key: format!("{} -> {}", from, to), len: 0, fault: applied, ok, who: self.who });
            res
        })
    }
    fn head<'a>(&'a self, key: &'a str) -> Pin<Box<dyn Future<Output = IoResult<ObjectMeta>> + Send + 'a>> {
        Box::pin(async move {
            let mut d = self.inner.lock().unwrap();
            let (op, _) = SimStore::begin(&mut d, self.who);
            let now = d.now_ms;
            let r = d.objs.get(key).map(|v| ObjectMeta { key: key.to_string(), size_bytes: v.len() as u64, created_at_ms: now, etag: None })
                .ok_or_else(|| IoError::new(ErrorKind::NotFound, format!("not found: {}", key)));
            d.events.push(StoreEvent { op, kind: OpKind::Head, key: key.to_string(), len: 0, fault: None, ok: r.is_ok(), who: self.who });
            r
        })
    }
}
