//! One simulated clock usable as `io::TimeSource`, `streaming::StreamingClock` and (through hook H2)
//! as the per-thread override behind `ProductionTimeSource`.

use redis_sim::io::TimeSource;
use redis_sim::streaming::{StreamingClock, StreamingTimestamp};
use std::sync::atomic::{AtomicU64, Ordering};
use std::sync::Arc;

#[derive(Clone, Debug)]
pub struct SimClock(pub Arc<AtomicU64>);

impl SimClock {
    pub fn new(ms: u64) -> Self { SimClock(Arc::new(AtomicU64::new(ms))) }
    pub fn now(&self) -> u64 { self.0.load(Ordering::SeqCst) }
    pub fn set(&self, ms: u64) { self.0.store(ms, Ordering::SeqCst); }
    pub fn advance(&self, ms: u64) -> u64 { self.0.fetch_add(ms, Ordering::SeqCst) + ms }
    /// Also drive `ProductionTimeSource` on this thread (hook H2).
    pub fn publish(&self) { redis_sim::production::verif_hooks::clock::set(self.now()); }
}

impl TimeSource for SimClock {
    fn now_millis(&self) -> u64 { self.now() }
}
impl StreamingClock for SimClock {
    fn now(&self) -> StreamingTimestamp { StreamingTimestamp::from_millis(SimClock::now(self)) }
}
