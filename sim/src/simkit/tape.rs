//! Choice tape: the single source of every random decision in a run.
//!
//! In *record* mode values come from a ChaCha8 stream seeded by the run seed and are
//! appended to the tape. In *replay* mode values are read back from a given tape; past its
//! end every draw yields 0, which every generator in this crate treats as the simplest
//! choice (stop, no fault, first alternative, canonical schedule). A run is therefore a pure
//! function of (tape, code); minimisation edits the tape.

use rand::{RngCore, SeedableRng};
use rand_chacha::ChaCha8Rng;

pub struct Src {
    rng: Option<ChaCha8Rng>,
    tape: Vec<u64>,
    pos: usize,
    spans: Vec<(usize, usize)>,
    open: Vec<usize>,
}

impl Src {
    pub fn record(seed: u64) -> Self {
        Src { rng: Some(ChaCha8Rng::seed_from_u64(seed)), tape: Vec::new(), pos: 0, spans: Vec::new(), open: Vec::new() }
    }
    pub fn replay(tape: Vec<u64>) -> Self {
        Src { rng: None, tape, pos: 0, spans: Vec::new(), open: Vec::new() }
    }
    /// The tape actually consumed so far (recorded values, or the replayed prefix that was read,
    /// padded with zeros for reads past the end).
    pub fn into_tape(self) -> (Vec<u64>, Vec<(usize, usize)>) {
        let mut t = self.tape;
        if self.rng.is_none() {
            t.truncate(self.pos.min(t.len()));
        }
        (t, self.spans)
    }
    pub fn pos(&self) -> usize { self.pos }

    #[inline]
    fn next_raw(&mut self, bound: u64) -> u64 {
        debug_assert!(bound > 0);
        let v = match &mut self.rng {
            Some(r) => {
                let v = r.next_u64() % bound;
                self.tape.push(v);
                v
            }
            None => {
                let v = if self.pos < self.tape.len() { self.tape[self.pos] % bound } else { 0 };
                v
            }
        };
        self.pos += 1;
        v
    }

    /// Uniform in `[0, n)`; `n == 0` yields 0 without consuming.
    pub fn below(&mut self, n: u64) -> u64 {
        if n <= 1 {
            // still consume one cell so that structure does not depend on n
            self.next_raw(1);
            return 0;
        }
        self.next_raw(n)
    }
    pub fn idx(&mut self, n: usize) -> usize { self.below(n as u64) as usize }
    /// Inclusive range.
    pub fn range(&mut self, lo: u64, hi: u64) -> u64 { lo + self.below(hi - lo + 1) }
    pub fn irange(&mut self, lo: i64, hi: i64) -> i64 { lo + self.below((hi - lo + 1) as u64) as i64 }
    /// True with probability `num/den`; tape value 0 means false.
    pub fn chance(&mut self, num: u64, den: u64) -> bool {
        let v = self.next_raw(den);
        v >= den - num.min(den)
    }
    /// "Generate another element?" with the given continue probability; 0 on the tape stops.
    pub fn more(&mut self, num: u64, den: u64) -> bool { self.chance(num, den) }
    pub fn pick<'a, T>(&mut self, xs: &'a [T]) -> &'a T { &xs[self.idx(xs.len())] }
    /// Weighted choice; index 0 is the "simplest".
    pub fn weighted(&mut self, weights: &[u32]) -> usize {
        let total: u64 = weights.iter().map(|w| *w as u64).sum();
        let mut v = self.below(total.max(1));
        for (i, w) in weights.iter().enumerate() {
            if v < *w as u64 { return i; }
            v -= *w as u64;
        }
        weights.len() - 1
    }
    pub fn u64_any(&mut self) -> u64 { self.next_raw(u64::MAX) }

    pub fn begin(&mut self) { self.open.push(self.pos); }
    pub fn end(&mut self) {
        if let Some(s) = self.open.pop() {
            if self.pos > s { self.spans.push((s, self.pos)); }
        }
    }
    /// Bounded list with per-element spans: calls `f` while `more()` says so, at most `max` times.
    pub fn list<T>(&mut self, max: usize, num: u64, den: u64, mut f: impl FnMut(&mut Src) -> T) -> Vec<T> {
        let mut out = Vec::new();
        while out.len() < max {
            self.begin();
            if !self.more(num, den) { self.end(); break; }
            out.push(f(self));
            self.end();
        }
        out
    }
}

/// SplitMix64: derive per-run seeds from (master seed, index).
pub fn mix(a: u64, b: u64) -> u64 {
    let mut z = a.wrapping_add(0x9E3779B97F4A7C15u64.wrapping_mul(b.wrapping_add(1)));
    z = (z ^ (z >> 30)).wrapping_mul(0xBF58476D1CE4E5B9);
    z = (z ^ (z >> 27)).wrapping_mul(0x94D049BB133111EB);
    z ^ (z >> 31)
}

/// FNV-1a for fingerprints (stable across processes, unlike std's RandomState).
pub fn fnv(h: u64, bytes: &[u8]) -> u64 {
    let mut h = if h == 0 { 0xcbf29ce484222325 } else { h };
    for b in bytes { h ^= *b as u64; h = h.wrapping_mul(0x100000001b3); }
    h
}
