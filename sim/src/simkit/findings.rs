//! Known findings file: /verif/known_findings.json (read-only at run time).

use serde::Deserialize;
use std::collections::BTreeMap;

#[derive(Debug, Clone, Deserialize)]
pub struct Finding {
    pub key: String,
    pub property: String,
    pub status: String, // "open" | "fixed"
    #[serde(default)]
    pub commit: Option<String>,
    pub what: String,
    #[serde(default, rename = "where")]
    pub where_: Option<String>,
}

#[derive(Debug, Clone, Default)]
pub struct Findings {
    pub open: BTreeMap<String, Finding>,
}

impl Findings {
    pub fn load() -> Result<Self, String> {
        let path = std::env::var("VERIF_KNOWN_FINDINGS").unwrap_or_else(|_| "/verif/known_findings.json".to_string());
        let txt = match std::fs::read_to_string(&path) {
            Ok(t) => t,
            Err(_) => return Ok(Findings::default()),
        };
        let all: Vec<Finding> = serde_json::from_str(&txt).map_err(|e| format!("{}: {}", path, e))?;
        let mut open = BTreeMap::new();
        for f in all {
            if f.status == "open" {
                open.insert(f.key.clone(), f);
            }
        }
        Ok(Findings { open })
    }
    pub fn is_open(&self, key: &str) -> bool { self.open.contains_key(key) }
}
