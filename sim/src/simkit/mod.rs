pub mod tape;
pub mod shrink;
pub mod runner;
pub mod rt;
pub mod findings;
pub mod disk;
pub mod store;
pub mod clock;
pub mod stream;

pub use runner::{Property, RunCtx, RunReport, Violation, Tier};
pub use tape::{Src, mix, fnv};
