//! C07 — CRDT merge is commutative, associative and idempotent in all it exposes.
//!
//! Decided as independence from delivery order, grouping and duplication: real
//! `ShardReplicaState`s issue writes (strings with expiry, deletes, hash writes/deletes, type
//! changes) and receive each other's deltas over a reordering/duplicating network; counters and
//! sets are built with their public mutators. (1) twin replicas that saw the same multiset of
//! deltas in different orders must have equal observable projections; (2) the three laws are
//! evaluated on values harvested from the run (deltas in flight, replica states, merges of those).

use crate::model::crdt::{proj_s};
use crate::simkit::runner::{Property, RunCtx, RunReport, Tier};
use crate::simkit::tape::{fnv, Src};
use redis_sim::redis::SDS;
use redis_sim::replication::lattice::{GCounter, GSet, LamportClock, ORSet, PNCounter, ReplicaId, VectorClock};
use redis_sim::replication::state::{CrdtValue, ReplicatedValue, ReplicationDelta, ShardReplicaState};
use redis_sim::replication::ConsistencyLevel;
use serde_json::json;
use std::collections::BTreeMap;

pub struct C07;

fn kind(v: &ReplicatedValue) -> &'static str { v.crdt_type() }

fn law_key(law: &str, vals: &[&ReplicatedValue]) -> String {
    let mut kinds: Vec<&str> = vals.iter().map(|v| kind(v)).collect();
    kinds.sort(); kinds.dedup();
    if kinds.len() > 1 { format!("C07/{}/type-mismatch", law) } else { format!("C07/{}/{}", law, kinds[0].to_lowercase()) }
}

impl Property for C07 {
    fn id(&self) -> &'static str { "C07" }
    fn level(&self) -> &'static str { "exploration" }
    fn rule(&self) -> &'static str {
        "3-4 real ShardReplicaState replicas (Eventual or Causal) issue SET (with/without expiry), DEL, HSET, HDEL on 1-3 shared keys and apply each other's deltas in tape-chosen orders with duplicates; counters/sets are built with their public mutators on several replica ids and given stamps unique per replica, and additionally evolved as 2-3 replicas that add/remove/increment with their own id and merge each other's current state (every intermediate state harvested). Laws (commutativity, associativity, idempotence) are evaluated on tape-chosen pairs/triples of harvested values (deltas, replica states, merges thereof) by comparing the full observable projection; twin replicas fed the same multiset in different orders are compared too. Non-trivial = instance has >= 2 distinct stamps; distinct = fingerprint of the projected operands"
    }
    fn components_real(&self) -> Vec<&'static str> { vec!["replication::state::ShardReplicaState::{record_write,record_delete,record_hash_write,record_hash_delete,apply_remote_delta}", "ReplicatedValue::merge", "CrdtValue::merge_with_timestamps", "lattice::{LwwRegister,GCounter,PNCounter,GSet,ORSet,VectorClock,LamportClock}::merge"] }
    fn components_stubbed(&self) -> Vec<&'static str> { vec!["network: deltas are handed over in memory in tape-chosen order (no gossip transport in this check; C06 runs that)"] }
    fn required_probes(&self) -> Vec<&'static str> { vec!["law_instance_mixed_types", "law_instance_equal_time_different_replica", "twin_order_compared", "crdt_history_group"] }
    fn runs(&self, tier: Tier) -> u64 { match tier { Tier::Quick => 100000, Tier::Thorough => 6000000 } }

    fn run(&self, src: &mut Src, ctx: &RunCtx) -> RunReport {
        let mut rep = RunReport::default();
        let nrep = 3 + src.below(2) as usize;
        let causal = src.chance(1, 3);
        let level = if causal { ConsistencyLevel::Causal } else { ConsistencyLevel::Eventual };
        let mut reps: Vec<ShardReplicaState> = (0..nrep).map(|i| ShardReplicaState::new(ReplicaId::new(i as u64 + 1), level)).collect();
        let keys = ["k0", "k1", "k2"];
        let nkeys = 1 + src.below(3) as usize;
        let mut deltas: Vec<ReplicationDelta> = Vec::new();
        let mut uniq = 0u64;
        // ---- phase 1: operations interleaved with (partial, reordered, duplicated) delivery
        let nops = src.list(24, 11, 12, |s| (s.below(8), s.idx(nrep), s.idx(nkeys), s.below(4), s.below(3)));
        for (op, r, k, a, b) in nops {
            uniq += 1;
            let key = keys[k].to_string();
            let d = match op {
                0 | 1 => Some(reps[r].record_write(key, SDS::from_str(&format!("v{}", uniq)), match a { 0 => None, 1 => Some(1000 + uniq), 2 => Some(50), _ => None })),
                2 => reps[r].record_delete(key),
                3 | 4 => {
                    let fields: Vec<(String, SDS)> = (0..=b).map(|i| (format!("f{}", (a + i) % 3), SDS::from_str(&format!("h{}-{}", uniq, i)))).collect();
                    Some(reps[r].record_hash_write(key, fields))
                }
                5 => reps[r].record_hash_delete(key, vec![format!("f{}", a % 3)]),
                _ => {
                    // deliver one known delta (possibly a duplicate, possibly old) to replica r
                    if !deltas.is_empty() { let i = (a as usize * 7 + b as usize * 3 + uniq as usize) % deltas.len(); let dd = deltas[i].clone(); reps[r].apply_remote_delta(dd); }
                    None
                }
            };
            if let Some(d) = d { rep.log(ctx.trace, || format!("r{} emits {} {} @({},{})", r + 1, d.key, kind(&d.value), d.value.timestamp.time, d.value.timestamp.replica_id.0)); deltas.push(d); }
        }
        // ---- harvested values, grouped by key: production only ever merges values of one key, and two
        // different values of one key never share a stamp (stamps are unique per replica), whereas
        // values of different keys legitimately can (a no-op HDEL re-emits the clock's current stamp)
        let mut groups: Vec<Vec<ReplicatedValue>> = Vec::new();
        for k in &keys[..nkeys] {
            let mut g: Vec<ReplicatedValue> = deltas.iter().filter(|d| d.key == *k).map(|d| d.value.clone()).collect();
            for r in &reps { if let Some(v) = r.get_replicated(k) { g.push(v.clone()); } }
            if g.len() >= 2 { groups.push(g); }
        }
        let mut vals: Vec<ReplicatedValue> = Vec::new();
        // counters / sets built by their public mutators, stamps unique per replica
        let nextra = src.list(6, 3, 4, |s| (s.below(5), s.below(3), s.below(4), s.below(4)));
        let mut tcount = 100u64;
        for (ty, r, x, y) in nextra {
            tcount += 1 + x;
            let rid = ReplicaId::new(r + 1);
            let crdt = match ty {
                0 => { let mut g = GCounter::new(); g.increment_by(rid, 1 + x); g.increment_by(ReplicaId::new((r + 1) % 3 + 1), y); CrdtValue::GCounter(g) }
                1 => { let mut p = PNCounter::new(); p.increment_by(rid, 1 + x); p.decrement_by(ReplicaId::new((r + y) % 3 + 1), 1 + y); CrdtValue::PNCounter(p) }
                2 => { let mut g = GSet::new(); g.add(format!("e{}", x)); g.add(format!("e{}", y)); CrdtValue::GSet(g) }
                3 => { let mut o = ORSet::new(); o.add(format!("e{}", x), rid); o.add(format!("e{}", y), ReplicaId::new((r + 1) % 3 + 1)); if y == 0 { o.remove(&format!("e{}", x)); } CrdtValue::ORSet(o) }
                _ => { let mut o = ORSet::new(); o.add(format!("e{}", y), rid); CrdtValue::ORSet(o) }
            };
            let mut v = ReplicatedValue::with_crdt(crdt, rid);
            v.timestamp = LamportClock { time: tcount, replica_id: rid };
            if x == 3 { let mut vc = VectorClock::new(); vc.increment(rid); v.vector_clock = Some(vc); }
            if y == 3 { v.expiry_ms = Some(7000 + tcount); }
            vals.push(v);
        }
        if vals.len() >= 2 { groups.push(vals.clone()); }
        // ---- replicated counters/sets with real histories: each replica mutates its own copy with its own
        // id and now and then merges a peer's current state; every intermediate state is harvested
        {
            let kind = src.below(4);
            let nr = 2 + src.below(2) as usize;
            let mut states: Vec<CrdtValue> = (0..nr).map(|_| match kind { 0 => CrdtValue::ORSet(ORSet::new()), 1 => CrdtValue::GCounter(GCounter::new()), 2 => CrdtValue::PNCounter(PNCounter::new()), _ => CrdtValue::GSet(GSet::new()) }).collect();
            let mut harvested: Vec<ReplicatedValue> = Vec::new();
            let mut t = 500u64;
            let ops = src.list(16, 11, 12, |s| (s.idx(nr), s.below(6), s.below(3), s.idx(nr)));
            for (r, op, e, peer) in ops {
                let rid = ReplicaId::new(r as u64 + 1);
                let elem = format!("e{}", e);
                if op >= 4 && peer != r {
                    let other = states[peer].clone();
                    if let Ok(m) = states[r].try_merge(&other) { states[r] = m; }
                } else {
                    // a remove is also shipped as an operation: the peer drops exactly the tags the remover had observed
                    let mut shipped: Option<std::collections::HashSet<redis_sim::replication::lattice::UniqueTag>> = None;
                    match &mut states[r] {
                        CrdtValue::ORSet(o) => { if op == 3 { let tags = o.remove(&elem); if peer != r && !tags.is_empty() { shipped = Some(tags); } } else { o.add(elem.clone(), rid); } }
                        CrdtValue::GCounter(g) => if op == 0 { g.increment(rid) } else { g.increment_by(rid, 1 + op) },
                        CrdtValue::PNCounter(p) => { if op == 0 { p.increment(rid) } else if op == 1 { p.decrement(rid) } else if op % 2 == 0 { p.increment_by(rid, 1 + op) } else { p.decrement_by(rid, 1 + op) } }
                        CrdtValue::GSet(g) => { g.add(elem.clone()); }
                        _ => {}
                    }
                    if let (Some(tags), CrdtValue::ORSet(po)) = (shipped, &mut states[peer]) { po.apply_remove(&elem, &tags); rep.probe("orset_remove_shipped_as_operation"); }
                }
                t += 1;
                let mut v = ReplicatedValue::with_crdt(states[r].clone(), rid);
                v.timestamp = LamportClock { time: t, replica_id: rid };
                harvested.push(v);
            }
            if harvested.len() >= 2 { rep.probe("crdt_history_group"); groups.push(harvested); }
        }
        // ---- now and then a wide hash (300 fields on one replica) meets a write and a later delete of a field
        // it has never held, issued on two other replicas: size thresholds inside the hash merge
        if src.chance(1, 40) {
            rep.probe("wide_hash_group");
            let mut w3 = ShardReplicaState::new(ReplicaId::new(3), ConsistencyLevel::Eventual);
            let mut w1 = ShardReplicaState::new(ReplicaId::new(1), ConsistencyLevel::Eventual);
            let mut w2 = ShardReplicaState::new(ReplicaId::new(2), ConsistencyLevel::Eventual);
            let wide = w3.record_hash_write("wide".to_string(), (0..300).map(|i| (format!("w{:03}", i), SDS::from_str("v"))).collect());
            let old = w1.record_hash_write("wide".to_string(), vec![("x".to_string(), SDS::from_str("old"))]);
            w2.apply_remote_delta(old.clone());
            let tomb = w2.record_hash_delete("wide".to_string(), vec!["x".to_string()]);
            let mut g = vec![wide.value.clone(), old.value.clone()];
            if let Some(t) = tomb { g.push(t.value.clone()); }
            groups.push(g);
        }
        for g in &groups { vals.extend(g.iter().cloned()); }
        if groups.is_empty() { rep.evals = 1; return rep; }
        // ---- phase 2: twin replicas, same multiset, different order (+ duplicates)
        if !deltas.is_empty() {
            let mut a = ShardReplicaState::new(ReplicaId::new(8), level);
            let mut b = ShardReplicaState::new(ReplicaId::new(9), level);
            let mut order_b: Vec<usize> = (0..deltas.len()).collect();
            for i in (1..order_b.len()).rev() { let j = src.idx(i + 1); order_b.swap(i, j); }
            for d in &deltas { a.apply_remote_delta(d.clone()); }
            for i in &order_b { b.apply_remote_delta(deltas[*i].clone()); if src.chance(1, 6) { b.apply_remote_delta(deltas[*i].clone()); } }
            rep.probe("twin_order_compared");
            rep.evals += 1;
            for k in &keys[..nkeys] {
                let (pa, pb) = (a.get_replicated(k).map(proj_s), b.get_replicated(k).map(proj_s));
                if pa != pb {
                    let kinds: Vec<&str> = deltas.iter().filter(|d| d.key == *k).map(|d| kind(&d.value)).collect();
                    let mixed = kinds.iter().any(|x| *x != kinds[0]);
                    let key = if mixed { "C07/order-dependence/type-mismatch" } else { "C07/order-dependence/same-type" };
                    rep.violate(key, format!("key {}: same {} deltas, order 0..n vs {:?}: {} != {}", k, deltas.len(), order_b, pa.unwrap_or_default(), pb.unwrap_or_default()));
                    break;
                }
            }
        }
        // ---- phase 2b: the same, with state transfer in the mix: besides the writers' deltas the twins are handed the
        // merged states the phase-1 replicas hold (what an anti-entropy exchange or a compacted segment carries); a merged
        // state shares its outer stamp with the newest of its constituents, so "equal stamp = same write" is false here
        if !deltas.is_empty() {
            let mut all: Vec<ReplicationDelta> = deltas.clone();
            for (ri, r) in reps.iter().enumerate() { for k in &keys[..nkeys] { if let Some(v) = r.get_replicated(k) { all.push(ReplicationDelta::new(k.to_string(), v.clone(), ReplicaId::new(ri as u64 + 1))); } } }
            // the twins miss some of it (the same part): a replica that never saw a constituent delta depends on the
            // merged state that carries it
            if src.chance(2, 3) { let keep: Vec<bool> = (0..all.len()).map(|_| src.chance(1, 2)).collect(); let mut it = keep.iter(); all.retain(|_| *it.next().unwrap()); }
            let mut a = ShardReplicaState::new(ReplicaId::new(8), level);
            let mut b = ShardReplicaState::new(ReplicaId::new(9), level);
            let mut order_b: Vec<usize> = (0..all.len()).collect();
            for i in (1..order_b.len()).rev() { let j = src.idx(i + 1); order_b.swap(i, j); }
            let mut order_a: Vec<usize> = (0..all.len()).collect();
            if src.chance(1, 2) { order_a.reverse(); }
            for i in &order_a { a.apply_remote_delta(all[*i].clone()); }
            for i in &order_b { b.apply_remote_delta(all[*i].clone()); }
            rep.probe("twin_order_compared_with_state_transfer");
            rep.evals += 1;
            for k in &keys[..nkeys] {
                let (pa, pb) = (a.get_replicated(k).map(proj_s), b.get_replicated(k).map(proj_s));
                if pa != pb && rep.violations.is_empty() {
                    let kinds: Vec<&str> = all.iter().filter(|d| d.key == *k).map(|d| kind(&d.value)).collect();
                    let mixed = kinds.iter().any(|x| *x != kinds[0]);
                    let key = if mixed { "C07/order-dependence/type-mismatch" } else { "C07/order-dependence/same-type/with-state-transfer" };
                    rep.violate(key, format!("key {}: the same {} deltas and merged states, order {:?} vs {:?}: {} != {}", k, all.len(), order_a, order_b, pa.unwrap_or_default(), pb.unwrap_or_default()));
                    break;
                }
            }
        }
        // ---- phase 3: laws on tape-chosen pairs/triples (same-key values are what production merges,
        // but merge is a total function, so cross-key operands are legitimate inputs too)
        let ninst = src.list(40, 15, 16, |s| { let g = s.idx(groups.len()); let n = groups[g].len(); (g, s.idx(n), s.idx(n), s.idx(n), s.below(3)) });
        for (g, i, j, k, pre) in ninst {
            let vals = &groups[g];
            // optionally use merges of harvested values as operands (state transfer)
            let a = if pre == 1 { vals[i].merge(&vals[k]) } else { vals[i].clone() };
            let b = vals[j].clone();
            let c = if pre == 2 { vals[k].merge(&vals[i]) } else { vals[k].clone() };
            rep.evals += 3;
            let stamps: std::collections::BTreeSet<(u64, u64)> = [&a, &b, &c].iter().map(|v| (v.timestamp.time, v.timestamp.replica_id.0)).collect();
            if std::env::var("VERIF_C07_DEBUG").is_ok() && ctx.index == 1 { eprintln!("A {}\nB {}\nC {}\nFP {}", proj_s(&a), proj_s(&b), proj_s(&c), fnv(fnv(fnv(0, proj_s(&a).as_bytes()), proj_s(&b).as_bytes()), proj_s(&c).as_bytes())); }
            if stamps.len() >= 2 { rep.sub_fps.push(fnv(fnv(fnv(0, proj_s(&a).as_bytes()), proj_s(&b).as_bytes()), proj_s(&c).as_bytes())); }
            if kind(&a) != kind(&b) || kind(&b) != kind(&c) { rep.probe("law_instance_mixed_types"); }
            if a.timestamp.time == b.timestamp.time && a.timestamp.replica_id != b.timestamp.replica_id { rep.probe("law_instance_equal_time_different_replica"); }
            let ab = a.merge(&b); let ba = b.merge(&a);
            if proj_s(&ab) != proj_s(&ba) {
                rep.violate(law_key("commutativity", &[&a, &b]), format!("a={} b={} a⊔b={} b⊔a={}", proj_s(&a), proj_s(&b), proj_s(&ab), proj_s(&ba)));
            }
            let l = a.merge(&b.merge(&c)); let r = ab.merge(&c);
            if proj_s(&l) != proj_s(&r) {
                rep.violate(law_key("associativity", &[&a, &b, &c]), format!("a={} b={} c={} a⊔(b⊔c)={} (a⊔b)⊔c={}", proj_s(&a), proj_s(&b), proj_s(&c), proj_s(&l), proj_s(&r)));
            }
            let aa = a.merge(&a);
            if proj_s(&aa) != proj_s(&a) {
                rep.violate(law_key("idempotence", &[&a]), format!("a={} a⊔a={}", proj_s(&a), proj_s(&aa)));
            }
            if rep.violations.iter().any(|v| !ctx.known(&v.key)) { break; }
        }
        rep.evals = rep.evals.max(1);
        rep.nontrivial = !rep.sub_fps.is_empty();
        let mut kinds: BTreeMap<&str, u64> = BTreeMap::new();
        for v in &vals { *kinds.entry(kind(v)).or_insert(0) += 1; }
        rep.sample = Some(json!({"replicas": nrep, "causal": causal, "deltas": deltas.len(), "harvested_values_by_type": kinds,
            "first_values": vals.iter().take(2).map(|v| crate::model::crdt::proj(v)).collect::<Vec<_>>() }));
        rep
    }
}
