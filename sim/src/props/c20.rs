//! C20 — the in-repo simulators are reproducible: same seed, same trace, same verdict.
//!
//! The "system under simulation" here is the repo's own simulators and DST harnesses. One run
//! picks (from the tape) a harness, one of its presets, a harness seed and a workload size, executes
//! that case several times in this process (with different hasher states, allocator state and a
//! skewed `ProductionTimeSource` clock) and, for a tape-chosen subset, in two fresh processes
//! (`current_exe()` with `VERIF_C20_DUMP=<harness>:<preset>:<seed>:<size>`; fresh `ahash` /
//! `RandomState` keys, fresh allocator, real wall clock). Every execution yields a *canonical
//! dump* in five sections — trace, state, result, violation-text, buggify-stats — in which only
//! containers whose order the harness does not expose are sorted; all dumps must be equal.

use crate::model::crdt::proj_s;
use crate::simkit::rt;
use crate::simkit::runner::{Property, RunCtx, RunReport, Tier};
use crate::simkit::tape::{fnv, mix, Src};
use redis_sim::buggify::{self, FaultConfig};
use redis_sim::production::verif_hooks::clock as verif_clock;
use redis_sim::redis::{
    Command, ExecutorDSTConfig, ExecutorDSTHarness, HashDSTConfig, HashDSTHarness, ListDSTConfig, ListDSTHarness, SetDSTConfig,
    SetDSTHarness, SortedSetDSTConfig, SortedSetDSTHarness, TransactionDSTConfig, TransactionDSTHarness, Value, SDS,
};
use redis_sim::replication::crdt_dst::{CRDTDSTConfig, CRDTDSTResult, GCounterDSTHarness, ORSetDSTHarness, PNCounterDSTHarness, VectorClockDSTHarness};
use redis_sim::simulator::dst_integration::RedisDSTSimulation;
use redis_sim::simulator::{
    check_single_key_linearizability, run_partition_test, run_partition_test_batch, DSTConfig, DSTSimulation, Duration as SimDuration, EventType,
    HostId, MultiNodeSimulation, PartitionConfig, PipelineSimulator, ScenarioBuilder, SimulatedConnection, Simulation, SimulationConfig,
    SimulationResult, VirtualTime,
};
use redis_sim::streaming::{
    CompactionDSTConfig, CompactionDSTHarness, SimulatedWalStoreConfig, StreamingDSTConfig, StreamingDSTHarness, WalDSTConfig, WalDSTHarness,
};
use serde_json::json;
use std::collections::BTreeMap;
use std::panic::{catch_unwind, AssertUnwindSafe};

pub struct C20;

// ------------------------------------------------------------------------------------------------
// canonical dump

/// Sections in causal order: a difference in an earlier section explains differences in later ones,
/// so only the first differing section is reported (and names the violation key).
pub const SECTIONS: [&str; 5] = ["trace", "state", "result", "violation-text", "buggify-stats"];
const TRACE: usize = 0;
const STATE: usize = 1;
const RESULT: usize = 2;
const VIOL: usize = 3;
const STATS: usize = 4;
/// Violation-key class of a section. Trace, state and result are causally linked and which of them
/// shows a given nondeterminism first varies from execution to execution, so they share one class.
fn class(section: usize) -> &'static str { match section { TRACE | STATE | RESULT => "outcome", VIOL => "violation-text", _ => "buggify-stats" } }

#[derive(Default, Clone, PartialEq, Eq, Debug)]
pub struct Dump {
    sec: [Vec<String>; 5],
}

impl Dump {
    fn put(&mut self, s: usize, line: String) { self.sec[s].push(line.replace('\\', "\\\\").replace('\n', "\\n").replace('\r', "\\r")); }
    fn trace(&mut self, l: String) { self.put(TRACE, l) }
    fn state(&mut self, l: String) { self.put(STATE, l) }
    fn result(&mut self, l: String) { self.put(RESULT, l) }
    fn viol(&mut self, l: String) { self.put(VIOL, l) }
    fn lines(&self) -> usize { self.sec.iter().map(|s| s.len()).sum() }

    pub fn render(&self) -> String {
        let mut out = String::new();
        for (i, s) in self.sec.iter().enumerate() {
            out.push_str("## "); out.push_str(SECTIONS[i]); out.push('\n');
            for l in s { out.push_str("  "); out.push_str(l); out.push('\n'); }
        }
        out
    }
    pub fn parse(text: &str) -> Option<Dump> {
        let mut d = Dump::default();
        let mut cur: Option<usize> = None;
        for l in text.lines() {
            if let Some(name) = l.strip_prefix("## ") { cur = Some(SECTIONS.iter().position(|s| *s == name)?); }
            else if let Some(body) = l.strip_prefix("  ") { d.sec[cur?].push(body.to_string()); }
            else if l.is_empty() { continue; }
            else { return None; }
        }
        Some(d)
    }
    /// First difference in causal section order among sections `< limit`: (section, line index, a, b).
    fn first_diff(&self, other: &Dump, limit: usize) -> Option<(usize, usize, String, String)> {
        for s in 0..limit.min(5) {
            let (a, b) = (&self.sec[s], &other.sec[s]);
            if a == b { continue; }
            let n = a.len().max(b.len());
            for i in 0..n {
                let (x, y) = (a.get(i), b.get(i));
                if x != y { return Some((s, i, x.cloned().unwrap_or_else(|| "<absent>".into()), y.cloned().unwrap_or_else(|| "<absent>".into()))); }
            }
        }
        None
    }
}

fn cut(s: &str, n: usize) -> String {
    if s.len() <= n { return s.to_string(); }
    let mut e = n; while !s.is_char_boundary(e) { e -= 1; }
    format!("{}…", &s[..e])
}

/// Shows where two long lines part: common-prefix length and the text around it.
fn around(a: &str, b: &str) -> String {
    let p = a.bytes().zip(b.bytes()).take_while(|(x, y)| x == y).count();
    if a.len().max(b.len()) <= 160 { return format!("first difference at byte {}", p); }
    let mut s = p.saturating_sub(60); while !a.is_char_boundary(s) { s -= 1; }
    let tail = |x: &str| { let mut e = (p + 100).min(x.len()); while !x.is_char_boundary(e) { e -= 1; } let mut st = s.min(x.len()); while !x.is_char_boundary(st) { st -= 1; } x[st..e].to_string() };
    format!("lines agree for {} bytes, then run1 has «{}» but run2 has «{}»", p, tail(a), tail(b))
}

fn sds(s: &SDS) -> String { String::from_utf8_lossy(s.as_bytes()).into_owned() }

fn value(v: &Value) -> String {
    match v {
        Value::String(s) => format!("string {:?}", sds(s)),
        Value::List(l) => format!("list {:?}", l.range(0, -1).iter().map(sds).collect::<Vec<_>>()),
        Value::Set(s) => { let mut m: Vec<String> = s.members().iter().map(sds).collect(); m.sort(); format!("set {:?}", m) }
        Value::Hash(h) => { let mut m: Vec<(String, String)> = h.get_all().iter().map(|(f, x)| (sds(f), sds(x))).collect(); m.sort(); format!("hash {:?}", m) }
        Value::SortedSet(z) => format!("zset {:?}", z.range(0, -1).iter().map(|(m, s)| (sds(m), *s)).collect::<Vec<_>>()),
        Value::Null => "null".to_string(),
    }
}

fn keyspace(d: &mut Dump, tag: &str, ex: &redis_sim::redis::CommandExecutor) {
    let mut ks: Vec<(&String, &Value)> = ex.get_data().iter().collect();
    ks.sort_by(|a, b| a.0.cmp(b.0));
    for (k, v) in ks { d.state(format!("{}{:?} = {}", tag, k, value(v))); }
}

fn sorted_map<K: Ord + std::fmt::Debug, V: std::fmt::Debug>(m: impl IntoIterator<Item = (K, V)>) -> String {
    let b: BTreeMap<K, V> = m.into_iter().collect();
    format!("{:?}", b)
}

// ------------------------------------------------------------------------------------------------
// harness drivers: fn(preset, harness seed, size) -> Dump

/// The six per-type harnesses record only `last_op`; stepping them one operation at a time turns
/// that into a full operation trace. All executions of a case step the same way.
macro_rules! stepwise {
    ($d:ident, $h:ident, $n:expr) => {{
        for i in 0..$n {
            $h.run(1);
            $d.trace(format!("{} {:?}", i, $h.result().last_op));
            if !$h.result().invariant_violations.is_empty() { break; }
        }
        let mut r = $h.result().clone();
        let v = std::mem::take(&mut r.invariant_violations);
        $d.result(format!("{:?}", r));
        $d.result(format!("violations={} success={}", v.len(), v.is_empty()));
        for x in v { $d.viol(x); }
    }};
}

fn h_list(p: usize, seed: u64, n: u64) -> Dump {
    let mut d = Dump::default();
    let cfg = match p { 0 => ListDSTConfig::new(seed), 1 => ListDSTConfig::high_churn(seed), _ => ListDSTConfig::modify_heavy(seed) };
    let mut h = ListDSTHarness::new(cfg);
    stepwise!(d, h, n);
    d.state(format!("{:?}", h.list().range(0, -1).iter().map(sds).collect::<Vec<_>>()));
    d
}

fn h_set(p: usize, seed: u64, n: u64) -> Dump {
    let mut d = Dump::default();
    let cfg = match p { 0 => SetDSTConfig::new(seed), 1 => SetDSTConfig::small_members(seed), 2 => SetDSTConfig::high_churn(seed), _ => SetDSTConfig::large_members(seed) };
    let mut h = SetDSTHarness::new(cfg);
    stepwise!(d, h, n);
    let mut m: Vec<String> = h.set().members().iter().map(sds).collect();
    m.sort();
    d.state(format!("{:?}", m));
    d
}

fn h_hash(p: usize, seed: u64, n: u64) -> Dump {
    let mut d = Dump::default();
    let cfg = match p { 0 => HashDSTConfig::new(seed), 1 => HashDSTConfig::small_fields(seed), _ => HashDSTConfig::high_churn(seed) };
    let mut h = HashDSTHarness::new(cfg);
    stepwise!(d, h, n);
    let mut m: Vec<(String, String)> = h.hash().get_all().iter().map(|(f, x)| (sds(f), sds(x))).collect();
    m.sort();
    d.state(format!("{:?}", m));
    d
}

fn h_zset(p: usize, seed: u64, n: u64) -> Dump {
    let mut d = Dump::default();
    let cfg = match p { 0 => SortedSetDSTConfig::new(seed), 1 => SortedSetDSTConfig::small_keyspace(seed), _ => SortedSetDSTConfig::large_keyspace(seed) };
    let mut h = SortedSetDSTHarness::new(cfg);
    stepwise!(d, h, n);
    // a sorted set exposes its order (rank): compared in order
    d.state(format!("{:?}", h.sorted_set().range(0, -1).iter().map(|(m, s)| (sds(m), *s)).collect::<Vec<_>>()));
    d
}

fn h_tx(p: usize, seed: u64, n: u64) -> Dump {
    let mut d = Dump::default();
    let cfg = match p { 0 => TransactionDSTConfig::new(seed), 1 => TransactionDSTConfig::high_conflict(seed), _ => TransactionDSTConfig::error_heavy(seed) };
    let mut h = TransactionDSTHarness::new(cfg);
    stepwise!(d, h, n);
    d
}

fn h_executor(p: usize, seed: u64, n: u64) -> Dump {
    let mut d = Dump::default();
    let cfg = match p { 0 => ExecutorDSTConfig::new(seed), 1 => ExecutorDSTConfig::calm(seed), 2 => ExecutorDSTConfig::chaos(seed), _ => ExecutorDSTConfig::string_heavy(seed) };
    let mut h = ExecutorDSTHarness::new(cfg);
    stepwise!(d, h, n);
    keyspace(&mut d, "", h.executor());
    d
}

fn crdt_cfg(p: usize, seed: u64) -> CRDTDSTConfig {
    match p { 0 => CRDTDSTConfig::calm(seed), 1 => CRDTDSTConfig::moderate(seed), 2 => CRDTDSTConfig::chaos(seed), _ => CRDTDSTConfig::new(seed, 2 + (seed % 7) as usize) }
}
fn crdt_dump(r: CRDTDSTResult) -> Dump {
    let mut d = Dump::default();
    d.result(format!("seed={} total_operations={} ops_per_replica={} syncs_performed={} messages_dropped={} converged={} violations={}",
        r.seed, r.total_operations, sorted_map(r.ops_per_replica.iter().map(|(k, v)| (*k, *v))), r.syncs_performed, r.messages_dropped, r.converged, r.invariant_violations.len()));
    for v in r.invariant_violations { d.viol(v); }
    d
}
macro_rules! crdt_harness {
    ($name:ident, $ty:ident) => {
        fn $name(p: usize, seed: u64, n: u64) -> Dump {
            // the protocol of the repo's own run_*_batch functions
            let mut h = $ty::new(crdt_cfg(p, seed));
            h.run(n as usize);
            h.sync_all();
            h.check_convergence();
            crdt_dump(h.into_result())
        }
    };
}
crdt_harness!(h_gcounter, GCounterDSTHarness);
crdt_harness!(h_pncounter, PNCounterDSTHarness);
crdt_harness!(h_orset, ORSetDSTHarness);
crdt_harness!(h_vclock, VectorClockDSTHarness);

/// Driver decisions for the library-style simulators (which have no built-in workload) come from a
/// SplitMix stream over the harness seed; commands are limited to those whose replies are
/// order-free (SET/GET/DEL/INCR/EXPIRE/TTL/PING), as the repo's own tests of these simulators use.
struct Drv(u64);
impl Drv {
    fn next(&mut self) -> u64 { self.0 = mix(self.0, 0xC20); self.0 }
    fn below(&mut self, n: u64) -> u64 { (self.next() >> 11) % n.max(1) }
}

fn h_multi(p: usize, seed: u64, n: u64) -> Dump {
    let mut d = Dump::default();
    let mut g = Drv(seed ^ 0x6d75_6c74_69);
    let nodes = 3 + g.below(3) as usize;
    let mut sim = match p {
        0 => MultiNodeSimulation::new(nodes, seed),
        1 => MultiNodeSimulation::new_without_anti_entropy(nodes, seed),
        2 => MultiNodeSimulation::new_partitioned(nodes, 2, seed),
        4 => MultiNodeSimulation::new_without_anti_entropy(nodes, seed),
        _ => MultiNodeSimulation::new(nodes, seed).with_packet_loss(0.2).with_message_delay(1, 50),
    };
    let keys = ["k0", "k1", "k2", "k3", "k4", "k5"];
    // preset 4: write bursts over 200 distinct keys with gossip rounds far apart, so that a node's outbox
    // (bounded at 100 deltas) overflows between two rounds
    let burst = p == 4;
    for i in 0..n {
        let node = g.below(nodes as u64) as usize;
        let node = if burst && g.below(4) > 0 { 0 } else { node };
        let client = g.below(4) as usize;
        let key = if burst { format!("b{}", g.below(200)) } else { keys[g.below(keys.len() as u64) as usize].to_string() };
        match if burst { g.below(7) } else { g.below(16) } {
            0..=5 => { sim.execute(client, node, Command::set(key, SDS::from_str(&format!("v{}", i)))); }
            6..=8 => { sim.execute(client, node, Command::Get(key)); }
            9 => { sim.execute(client, node, Command::del(key)); }
            10 => { let b = (node + 1 + g.below(nodes as u64 - 1) as usize) % nodes; sim.partition(node, b); }
            11 => { let b = (node + 1 + g.below(nodes as u64 - 1) as usize) % nodes; sim.heal_partition(node, b); }
            12 => sim.run_full_anti_entropy(),
            _ => {}
        }
        sim.advance_time_ms(1 + g.below(20));
        if g.below(if burst { 160 } else { 2 }) == 0 { sim.gossip_round(); }
        // the in-flight queue is ordered and public: its order is part of the trace
        d.trace(format!("step {} t={} ops={} in_flight={:?} clocks={:?} syncs={}", i, sim.current_time.0, sim.history.len(),
            sim.message_queue.iter().map(|m| (m.from, m.to, m.delivery_time.0, m.deltas.len())).collect::<Vec<_>>(),
            sim.nodes.iter().map(|x| x.replica_state.lamport_clock.time).collect::<Vec<_>>(), sim.anti_entropy_syncs));
    }
    for a in 0..nodes { for b in (a + 1)..nodes { sim.heal_partition(a, b); } }
    sim.converge(30);
    for op in &sim.history { d.trace(format!("{:?}", op)); }
    for node in &sim.nodes {
        let mut ks: Vec<(&String, _)> = node.replica_state.replicated_keys.iter().collect();
        ks.sort_by(|a, b| a.0.cmp(b.0));
        for (k, v) in ks { d.state(format!("node{} replica {:?} = {}", node.node_id, k, proj_s(v))); }
        keyspace(&mut d, &format!("node{} executor ", node.node_id), &node.executor);
        d.state(format!("node{} lamport={:?} pending_deltas={}", node.node_id, node.replica_state.lamport_clock, node.replica_state.pending_deltas.len()));
    }
    d.state(format!("time={:?} in_flight={} partitions={}", sim.current_time, sim.message_queue.len(), sorted_map(sim.partitions.iter().map(|p| (*p, ())))));
    d.result(format!("anti_entropy_syncs={}", sim.anti_entropy_syncs));
    for k in keys {
        let lin = check_single_key_linearizability(&sim.history, k);
        d.result(format!("{} converged={} values={:?} linearizable={} lin_violations={}", k, sim.check_key_convergence(k), sim.get_all_values(k), lin.is_linearizable, lin.violations.len()));
        for v in lin.violations { d.viol(format!("{}: {}", k, v)); }
    }
    d
}

fn h_partition(p: usize, seed: u64, n: u64) -> Dump {
    let mut d = Dump::default();
    let mut g = Drv(seed ^ 0x70_6172_74);
    let nodes = 3 + g.below(3) as usize;
    if p == 4 {
        // the repo's batch entry point (its seeds are 0..n by construction)
        let f: fn(usize) -> PartitionConfig = match seed % 3 { 0 => PartitionConfig::ring, 1 => |t| PartitionConfig::isolate_node(0, t), _ => |t| PartitionConfig::split_brain(vec![0], (1..t).collect()) };
        let r = run_partition_test_batch("batch", nodes, f, n.min(12) as usize);
        d.result(format!("{:?}", r));
        d.result(r.summary());
        return d;
    }
    let cfg = match p {
        0 => { let a = g.below(nodes as u64) as usize; PartitionConfig::asymmetric(a, (a + 1) % nodes) }
        1 => PartitionConfig::isolate_node(g.below(nodes as u64) as usize, nodes),
        2 => { let cutp = 1 + g.below(nodes as u64 - 1) as usize; PartitionConfig::split_brain((0..cutp).collect(), (cutp..nodes).collect()) }
        _ => PartitionConfig::ring(nodes),
    };
    let mk = |g: &mut Drv, k: u64| -> Vec<(usize, String, String)> {
        (0..k).map(|i| (g.below(nodes as u64) as usize, format!("key{}", 1 + g.below(2)), format!("val{}_{}", i, g.below(100)))).collect()
    };
    let during = mk(&mut g, 1 + n.min(40) / 2);
    let after = mk(&mut g, 1 + n.min(40) / 4);
    let r = run_partition_test(
        "c20", nodes, seed, cfg,
        during.iter().map(|(a, k, v)| (*a, k.as_str(), v.as_str())).collect(),
        after.iter().map(|(a, k, v)| (*a, k.as_str(), v.as_str())).collect(),
        30,
    );
    d.result(format!("{:?}", r));
    d
}

fn sim_result(d: &mut Dump, r: &SimulationResult) {
    for op in &r.operation_history { d.trace(format!("{:?}", op)); }
    d.result(format!("seed={} total_time_ms={} total_operations={} operations_by_type={} crashes={} recoveries={} linearizable={} converged={} errors={} success={}",
        r.seed, r.total_time_ms, r.total_operations, sorted_map(r.operations_by_type.iter().map(|(k, v)| (k.clone(), *v))), r.crashes, r.recoveries, r.linearizable, r.converged, r.errors.len(), r.is_success()));
    for e in &r.errors { d.viol(e.clone()); }
}

fn h_dst(p: usize, seed: u64, n: u64) -> Dump {
    let mut d = Dump::default();
    let nodes = 3 + (mix(seed, 0xd57) % 4) as usize;
    let cfg = match p { 0 => DSTConfig::new(seed), 1 => DSTConfig::calm(seed), 2 => DSTConfig::chaos(seed),
        _ => {
            // crash storm: a node crashes in one step out of five and is back within 10-60 ms, so that a run of a thousand
            // steps sees many hundreds of injected crash faults (whatever is counted or capped per fault gets exercised)
            let mut fc = FaultConfig::new();
            fc.set(redis_sim::buggify::faults::process::CRASH, 0.20);
            DSTConfig { seed, fault_config: fc, crash_config: redis_sim::simulator::CrashConfig { min_recovery_time_ms: 10, max_recovery_time_ms: 60, enable_buggify_crashes: true, ..Default::default() }, max_time_ms: u64::MAX / 4, ..Default::default() }
        }
    }.with_nodes(nodes);
    let max_time = cfg.max_time_ms;
    let mut sim = DSTSimulation::with_config(cfg);
    // run_operations(n), one step at a time so that node liveness after every step is on record
    for i in 0..n {
        sim.step();
        let st: Vec<String> = (0..nodes).map(|k| match sim.crash_simulator().get_state(HostId(k)) { Some(redis_sim::simulator::NodeState::Running) => "up".to_string(), other => format!("{:?}", other) }).collect();
        d.trace(format!("step {} t={} nodes=[{}]", i, sim.current_time().0, st.join(" | ")));
        if sim.current_time().0 >= max_time { break; }
    }
    let r = sim.finalize().clone();
    sim_result(&mut d, &r);
    let cs = sim.crash_simulator().stats();
    d.state(format!("crash_stats total_crashes={} total_recoveries={} by_reason={} state_loss={} avg_recovery_ms={}", cs.total_crashes, cs.total_recoveries, sorted_map(cs.crashes_by_reason.iter().map(|(k, v)| (k.clone(), *v))), cs.total_state_loss_events, cs.average_recovery_time_ms));
    for k in 0..nodes { d.state(format!("node{} {:?}", k, sim.crash_simulator().get_state(HostId(k)))); }
    d
}

fn h_redis_dst(p: usize, seed: u64, n: u64) -> Dump {
    let mut d = Dump::default();
    let nodes = 2 + (mix(seed, 0x4ed) % 4) as usize;
    let mut sim = match p {
        0 => RedisDSTSimulation::new(seed, nodes),
        1 => RedisDSTSimulation::new_uniform(seed, nodes, 20),
        2 => RedisDSTSimulation::new(seed, nodes).with_faults(FaultConfig::calm()),
        4 => RedisDSTSimulation::with_key_distribution(seed, nodes, redis_sim::simulator::dst_integration::KeyDistribution::Zipfian { num_keys: 1000, skew: 1.5 }),
        _ => RedisDSTSimulation::new(seed, nodes).with_faults(FaultConfig::chaos()),
    };
    let r = sim.run(n as usize).clone();
    sim_result(&mut d, &r);
    d.state(format!("{:?} convergence={}", sim.stats(), sim.check_convergence()));
    d
}

fn h_streaming(p: usize, seed: u64, n: u64) -> Dump {
    let mut d = Dump::default();
    let cfg = match p { 0 => StreamingDSTConfig::new(seed), 1 => StreamingDSTConfig::calm(seed), 2 => StreamingDSTConfig::moderate(seed), _ => StreamingDSTConfig::chaos(seed) };
    // the protocol of run_dst_batch
    let mut r = rt::block_on(seed, async move {
        let mut h = StreamingDSTHarness::new(cfg).await;
        h.run(n as usize).await;
        h.check_invariants().await;
        h.into_result()
    });
    for op in &r.history { d.trace(format!("{:?}", op)); }
    let v = std::mem::take(&mut r.invariant_violations);
    d.result(format!("seed={} total={} ok={} failed={} flushes={} crashes={} store_stats={:?} violations={}", r.seed, r.total_operations, r.successful_operations, r.failed_operations, r.flushes, r.crashes, r.store_stats, v.len()));
    for x in v { d.viol(x); }
    d
}

fn h_compaction(p: usize, seed: u64, n: u64) -> Dump {
    let mut d = Dump::default();
    let cfg = match p { 0 => CompactionDSTConfig::new(seed), 1 => CompactionDSTConfig::calm(seed), 2 => CompactionDSTConfig::aggressive(seed), _ => CompactionDSTConfig::chaos(seed) };
    let mut r = rt::block_on(seed, async move {
        let mut h = CompactionDSTHarness::new(cfg).await;
        h.run(n as usize).await;
        h.check_invariants().await;
        h.into_result()
    });
    for op in &r.history { d.trace(format!("{:?}", op)); }
    let v = std::mem::take(&mut r.invariant_violations);
    d.result(format!("seed={} total={} writes={} flushes={} compactions={} failed={} skipped={} store_stats={:?} violations={}", r.seed, r.total_operations, r.successful_writes, r.successful_flushes, r.successful_compactions, r.failed_operations, r.skipped_operations, r.store_stats, v.len()));
    for x in v { d.viol(x); }
    d
}

fn h_wal(p: usize, seed: u64, n: u64) -> Dump {
    let mut d = Dump::default();
    let mut cfg = match p {
        0 => WalDSTConfig::default(),
        1 => WalDSTConfig::baseline(),
        2 => WalDSTConfig::crash_only(),
        3 => WalDSTConfig::chaos(),
        _ => WalDSTConfig { fsync_after_write: false, store_config: SimulatedWalStoreConfig::default(), ..Default::default() },
    };
    cfg.num_writes = n as usize;
    let mut r = WalDSTHarness::new(seed, cfg).run();
    let msg = r.error_message.take();
    d.result(format!("{:?}", r));
    if let Some(m) = msg { d.viol(m); }
    d
}

fn h_connection(p: usize, seed: u64, n: u64) -> Dump {
    let mut d = Dump::default();
    let mut g = Drv(seed ^ 0x636f_6e6e);
    let mut conn = match p {
        0 => SimulatedConnection::new(seed),
        1 => SimulatedConnection::new(seed).with_partial_reads(0.5),
        2 => SimulatedConnection::new(seed).with_unbatched_flush(),
        _ => SimulatedConnection::new(seed).with_partial_reads(0.9),
    };
    let mut sent = 0u64;
    let mut round = 0u64;
    while sent < n {
        let k = 1 + g.below(24).min(n - sent - 1);
        let cmds: Vec<Command> = (0..k).map(|i| {
            let key = format!("key{}", g.below(8));
            match g.below(6) {
                0 | 1 => Command::set(key, SDS::from_str(&format!("value{}_{}", round, i))),
                2 | 3 => Command::Get(key),
                4 => Command::Incr(format!("ctr{}", g.below(3))),
                _ => Command::Ping(None),
            }
        }).collect();
        sent += k;
        if g.below(4) == 0 { for c in cmds { conn.send_command(c); } } else { conn.send_pipeline(cmds); }
        let resp = if p == 3 { conn.process_with_partial_arrivals(1 + g.below(4) as usize) } else { conn.process() };
        d.trace(format!("round {} sent {} responses {:?}", round, k, resp));
        round += 1;
    }
    for h in conn.history() { d.trace(format!("{:?}", h)); }
    d.result(format!("commands_executed={} flush_count={} bytes_per_flush={:?} avg={}", conn.commands_executed(), conn.flush_count(), conn.bytes_per_flush(), conn.avg_bytes_per_flush()));
    d
}

fn h_pipeline(p: usize, seed: u64, n: u64) -> Dump {
    let mut d = Dump::default();
    let mut sim = match p {
        0 => PipelineSimulator::new(seed),
        _ => { let mut g = Drv(seed ^ 0x70_6970_65); PipelineSimulator::new(seed).with_sizes((0..1 + n.min(12)).map(|_| 1 + g.below(100) as usize).collect()) }
    };
    sim.run();
    for r in &sim.results { d.trace(format!("{:?}", r)); }
    d.result(sim.summary());
    d
}

fn h_event_sim(p: usize, seed: u64, n: u64) -> Dump {
    let mut d = Dump::default();
    let mut sim = Simulation::new(SimulationConfig { seed, max_time: VirtualTime::from_millis(60_000), simulation_start_epoch: 0 });
    let hosts = 2 + (mix(seed, 0xe7) % 4) as usize;
    let ids: Vec<HostId> = (0..hosts).map(|i| sim.add_host(format!("host{}", i))).collect();
    if p == 1 { sim.set_network_drop_rate(0.3); }
    if p == 2 { sim.partition_hosts(ids[0], ids[1]); }
    let mut log: Vec<String> = Vec::new();
    let mut budget = n;
    sim.run(|s, ev| {
        log.push(format!("t={} {:?}", s.current_time().0, ev));
        if budget == 0 { return; }
        budget -= 1;
        match &ev.event_type {
            EventType::HostStart => { let dl = s.rng().gen_range(1, 50); s.schedule_timer(ev.host_id, SimDuration::from_millis(dl)); }
            EventType::Timer(_) => {
                let to = ids[s.rng().gen_range(0, hosts as u64) as usize];
                if to != ev.host_id { let b = s.rng().gen_range(0, 256) as u8; s.send_message(ev.host_id, to, vec![b, ev.host_id.0 as u8]); }
                let dl = s.rng().gen_range(1, 200);
                s.schedule_timer(ev.host_id, SimDuration::from_millis(dl));
                if p == 2 && s.rng().gen_bool(0.05) { s.heal_partition(ids[0], ids[1]); }
            }
            EventType::NetworkMessage(m) => { if s.rng().gen_bool(0.5) { s.send_message(m.to, m.from, vec![m.payload[0].wrapping_add(1)]); } }
        }
    });
    for l in log { d.trace(l); }
    d.result(format!("final_time={} next_u64={}", sim.current_time().0, sim.rng().next_u64()));
    d
}

fn h_scenario(p: usize, seed: u64, n: u64) -> Dump {
    let mut d = Dump::default();
    let mut g = Drv(seed ^ 0x73_6365_6e);
    let mut b = ScenarioBuilder::new(seed);
    if p == 1 || p == 3 { b = b.with_buggify(0.3); }
    let mut t = 0u64;
    for i in 0..n {
        t += g.below(40);
        let key = format!("k{}", g.below(6));
        let cmd = match g.below(8) {
            0 | 1 => Command::set(key, SDS::from_str(&format!("v{}", i))),
            2 => Command::setex(key, 1 + g.below(3) as i64, SDS::from_str(&format!("e{}", i))),
            3 => Command::Get(key),
            4 => Command::Incr(format!("ctr{}", g.below(2))),
            5 => Command::expire(key, 1 + g.below(2) as i64),
            6 => Command::Ttl(key),
            _ => Command::del(key),
        };
        b = b.at_time(t).client(g.below(4) as usize, cmd);
    }
    let h = if p >= 2 { b.run_with_eviction(50) } else { b.run() };
    for op in h.history() { d.trace(format!("{:?}", op)); }
    d.result(format!("final_time={} history={}", h.current_time().0, h.history().len()));
    d
}

pub struct HarnessDef {
    pub name: &'static str,
    pub probe: &'static str,
    pub ambient_probe: &'static str,
    pub presets: &'static [&'static str],
    pub sizes: [u64; 3],
    /// presets select different code paths (not just probabilities): the preset is part of the violation key
    pub key_by_preset: bool,
    run: fn(usize, u64, u64) -> Dump,
}

/// Index 0 is the simplest harness (tape value 0).
pub const HARNESSES: &[HarnessDef] = &[
    HarnessDef { name: "list", probe: "harness/list", ambient_probe: "ambient_buggify_dependent/list", presets: &["new", "high_churn", "modify_heavy"], sizes: [30, 200, 1000], key_by_preset: false, run: h_list },
    HarnessDef { name: "set", probe: "harness/set", ambient_probe: "ambient_buggify_dependent/set", presets: &["new", "small_members", "high_churn", "large_members"], sizes: [30, 200, 1000], key_by_preset: false, run: h_set },
    HarnessDef { name: "hash", probe: "harness/hash", ambient_probe: "ambient_buggify_dependent/hash", presets: &["new", "small_fields", "high_churn"], sizes: [30, 200, 1000], key_by_preset: false, run: h_hash },
    HarnessDef { name: "sorted-set", probe: "harness/sorted-set", ambient_probe: "ambient_buggify_dependent/sorted-set", presets: &["new", "small_keyspace", "large_keyspace"], sizes: [30, 200, 1000], key_by_preset: false, run: h_zset },
    HarnessDef { name: "transaction", probe: "harness/transaction", ambient_probe: "ambient_buggify_dependent/transaction", presets: &["new", "high_conflict", "error_heavy"], sizes: [20, 100, 400], key_by_preset: false, run: h_tx },
    HarnessDef { name: "executor", probe: "harness/executor", ambient_probe: "ambient_buggify_dependent/executor", presets: &["new", "calm", "chaos", "string_heavy"], sizes: [50, 300, 1500], key_by_preset: false, run: h_executor },
    HarnessDef { name: "crdt-gcounter", probe: "harness/crdt-gcounter", ambient_probe: "ambient_buggify_dependent/crdt-gcounter", presets: &["calm", "moderate", "chaos", "new"], sizes: [20, 100, 500], key_by_preset: false, run: h_gcounter },
    HarnessDef { name: "crdt-pncounter", probe: "harness/crdt-pncounter", ambient_probe: "ambient_buggify_dependent/crdt-pncounter", presets: &["calm", "moderate", "chaos", "new"], sizes: [20, 100, 500], key_by_preset: false, run: h_pncounter },
    HarnessDef { name: "crdt-orset", probe: "harness/crdt-orset", ambient_probe: "ambient_buggify_dependent/crdt-orset", presets: &["calm", "moderate", "chaos", "new"], sizes: [20, 100, 500], key_by_preset: false, run: h_orset },
    HarnessDef { name: "crdt-vectorclock", probe: "harness/crdt-vectorclock", ambient_probe: "ambient_buggify_dependent/crdt-vectorclock", presets: &["calm", "moderate", "chaos", "new"], sizes: [20, 100, 500], key_by_preset: false, run: h_vclock },
    HarnessDef { name: "multi-node", probe: "harness/multi-node", ambient_probe: "ambient_buggify_dependent/multi-node", presets: &["broadcast", "no-anti-entropy", "partitioned-rf2", "lossy", "no-anti-entropy-write-bursts"], sizes: [20, 80, 300], key_by_preset: true, run: h_multi },
    HarnessDef { name: "partition", probe: "harness/partition", ambient_probe: "ambient_buggify_dependent/partition", presets: &["asymmetric", "isolate-node", "split-brain", "ring", "batch"], sizes: [4, 12, 40], key_by_preset: true, run: h_partition },
    HarnessDef { name: "dst", probe: "harness/dst", ambient_probe: "ambient_buggify_dependent/dst", presets: &["new", "calm", "chaos", "crash-storm"], sizes: [50, 300, 1500], key_by_preset: false, run: h_dst },
    HarnessDef { name: "redis-dst", probe: "harness/redis-dst", ambient_probe: "ambient_buggify_dependent/redis-dst", presets: &["zipfian", "uniform", "faults-calm", "faults-chaos", "zipfian-skew-1.5"], sizes: [20, 100, 500], key_by_preset: false, run: h_redis_dst },
    HarnessDef { name: "streaming", probe: "harness/streaming", ambient_probe: "ambient_buggify_dependent/streaming", presets: &["new", "calm", "moderate", "chaos"], sizes: [30, 150, 600], key_by_preset: false, run: h_streaming },
    HarnessDef { name: "compaction", probe: "harness/compaction", ambient_probe: "ambient_buggify_dependent/compaction", presets: &["new", "calm", "aggressive", "chaos"], sizes: [30, 150, 600], key_by_preset: false, run: h_compaction },
    HarnessDef { name: "wal", probe: "harness/wal", ambient_probe: "ambient_buggify_dependent/wal", presets: &["default", "baseline", "crash_only", "chaos", "no-fsync"], sizes: [10, 100, 400], key_by_preset: false, run: h_wal },
    HarnessDef { name: "connection", probe: "harness/connection", ambient_probe: "ambient_buggify_dependent/connection", presets: &["plain", "partial-reads", "unbatched-flush", "partial-arrivals"], sizes: [10, 60, 300], key_by_preset: true, run: h_connection },
    HarnessDef { name: "pipeline", probe: "harness/pipeline", ambient_probe: "ambient_buggify_dependent/pipeline", presets: &["default-sizes", "random-sizes"], sizes: [2, 6, 12], key_by_preset: false, run: h_pipeline },
    HarnessDef { name: "event-sim", probe: "harness/event-sim", ambient_probe: "ambient_buggify_dependent/event-sim", presets: &["plain", "lossy", "partitioned"], sizes: [20, 100, 500], key_by_preset: false, run: h_event_sim },
    HarnessDef { name: "scenario", probe: "harness/scenario", ambient_probe: "ambient_buggify_dependent/scenario", presets: &["run", "run-buggify", "eviction", "eviction-buggify"], sizes: [10, 60, 300], key_by_preset: true, run: h_scenario },
];

// ------------------------------------------------------------------------------------------------
// executing one case

#[derive(Clone, Copy, Debug, PartialEq, Eq)]
pub struct Case { pub h: usize, pub preset: usize, pub seed: u64, pub size: u64 }

impl Case {
    pub fn spec(&self) -> String { format!("{}:{}:{}:{}", HARNESSES[self.h].name, HARNESSES[self.h].presets[self.preset], self.seed, self.size) }
    pub fn parse(s: &str) -> Option<Case> {
        let parts: Vec<&str> = s.split(':').collect();
        if parts.len() < 3 || parts.len() > 4 { return None; }
        let h = HARNESSES.iter().position(|d| d.name == parts[0])?;
        let preset = HARNESSES[h].presets.iter().position(|p| *p == parts[1])?;
        let seed = parts[2].parse().ok()?;
        let size = match parts.get(3) { Some(x) => x.parse().ok()?, None => HARNESSES[h].sizes[0] };
        Some(Case { h, preset, seed, size })
    }
}

/// Fixed fake "now" for `ProductionTimeSource` (hook H2) during in-process executions.
const T0_MS: u64 = 1_790_000_000_000;

/// One execution with the ambient per-thread state a fresh thread of a fresh process would have
/// (default BUGGIFY config, zeroed BUGGIFY statistics). `ambient_off` instead leaves a *disabled*
/// BUGGIFY config behind, as a previous harness on the same thread might.
fn execute(c: &Case, clock_ms: Option<u64>, ambient_off: bool) -> Dump { execute_with(c, clock_ms, ambient_off, true) }

/// `clean` = false: the thread's BUGGIFY context is taken as the previous execution left it and is left behind
/// as this execution leaves it (what happens when two harnesses run one after the other on one thread).
fn execute_with(c: &Case, clock_ms: Option<u64>, ambient_off: bool, clean: bool) -> Dump {
    if clean { buggify::set_config(if ambient_off { FaultConfig::disabled() } else { FaultConfig::default() }); }
    buggify::reset_stats();
    match clock_ms { Some(ms) => { verif_clock::set(ms); verif_clock::set_elapsed_skew(ms.saturating_sub(T0_MS).min(60_000)); } None => { verif_clock::clear(); verif_clock::set_elapsed_skew(0); } }
    let f = HARNESSES[c.h].run;
    let r = catch_unwind(AssertUnwindSafe(|| f(c.preset, c.seed, c.size)));
    verif_clock::clear();
    verif_clock::set_elapsed_skew(0);
    let mut d = match r {
        Ok(d) => d,
        Err(p) => {
            // a panicking harness is an outcome like any other: it must be the same panic every time
            let msg = if let Some(s) = p.downcast_ref::<&str>() { s.to_string() } else if let Some(s) = p.downcast_ref::<String>() { s.clone() } else { "<non-string panic>".into() };
            let mut d = Dump::default();
            d.result(format!("PANIC {}", msg));
            d
        }
    };
    let st = buggify::get_stats();
    let keys: std::collections::BTreeSet<&String> = st.checks.keys().chain(st.triggers.keys()).collect();
    for k in keys { d.put(STATS, format!("{} checks={} triggers={}", k, st.checks.get(k).copied().unwrap_or(0), st.triggers.get(k).copied().unwrap_or(0))); }
    if clean { buggify::set_config(FaultConfig::default()); }
    buggify::reset_stats();
    d
}

/// Moves the per-process hasher seed counters (`ahash`, `std::collections::hash_map::RandomState`)
/// and the allocator's free lists, so that a repeated in-process execution does not see the same
/// map iteration orders and addresses as the first one.
fn shift_ambient_state(k: u64) -> usize {
    let mut keep: Vec<Vec<u8>> = Vec::new();
    let mut n = 0usize;
    for i in 0..(3 + k % 5) {
        let mut a: ahash::AHashMap<u64, u64> = ahash::AHashMap::new();
        let mut b: std::collections::HashMap<u64, u64> = std::collections::HashMap::new();
        for j in 0..8 { a.insert(j, i); b.insert(j, i); }
        n += a.len() + b.len();
        keep.push(vec![0u8; 24 + (i as usize) * 40]);
    }
    keep.truncate(keep.len() / 2);
    n + keep.len()
}

/// Called first thing in `main()`: if `VERIF_C20_DUMP=<harness>:<preset>:<seed>[:<size>]` is set,
/// print the canonical dump of that case and exit 0 (2 on a malformed spec).
pub fn maybe_dump_and_exit() {
    let Ok(spec) = std::env::var("VERIF_C20_DUMP") else { return };
    let Some(case) = Case::parse(&spec) else {
        eprintln!("VERIF_C20_DUMP: cannot parse {:?}; expected <harness>:<preset>:<seed>[:<size>] with harness one of {:?}", spec, HARNESSES.iter().map(|h| h.name).collect::<Vec<_>>());
        std::process::exit(2);
    };
    std::panic::set_hook(Box::new(|_| {}));
    let d = execute(&case, None, false);
    use std::io::Write;
    let text = format!("C20DUMP v1 {}\n{}C20END\n", case.spec(), d.render());
    let out = std::io::stdout();
    let mut lock = out.lock();
    let _ = lock.write_all(text.as_bytes());
    let _ = lock.flush();
    std::process::exit(0);
}

/// Runs the case in a fresh process and returns its dump. Any failure to do so is a harness error
/// (panic outside /repo => exit 2), never a violation.
fn fresh_process_dump(c: &Case) -> Dump {
    if std::env::var_os("VERIF_C20_DUMP").is_some() {
        panic!("C20 harness: this process was started with VERIF_C20_DUMP set but main() did not call props::c20::maybe_dump_and_exit()");
    }
    let exe = std::env::current_exe().expect("C20 harness: current_exe");
    let out = std::process::Command::new(&exe)
        .args(["C20", "--runs", "0", "--threads", "1"])
        .env("VERIF_C20_DUMP", c.spec())
        .stdin(std::process::Stdio::null())
        .stderr(std::process::Stdio::null())
        .output()
        .unwrap_or_else(|e| panic!("C20 harness: cannot spawn {:?}: {}", exe, e));
    let text = String::from_utf8_lossy(&out.stdout);
    let head = format!("C20DUMP v1 {}\n", c.spec());
    let body = text.strip_prefix(head.as_str()).and_then(|t| t.strip_suffix("C20END\n"));
    match (out.status.success(), body.and_then(Dump::parse)) {
        (true, Some(d)) => d,
        _ => panic!("C20 harness: child process for {} did not produce a dump (status {:?}, stdout starts {:?}); main() must call props::c20::maybe_dump_and_exit() before anything else", c.spec(), out.status, cut(&text, 120)),
    }
}

impl Property for C20 {
    fn id(&self) -> &'static str { "C20" }
    fn level(&self) -> &'static str { "other" }
    fn rule(&self) -> &'static str {
        "one case = (harness, preset, harness seed, workload size) drawn from the tape over 21 harness drivers (list, set, hash, sorted-set, transaction, executor DST; GCounter/PNCounter/ORSet/VectorClock DST; MultiNodeSimulation; partition tests; DSTSimulation; RedisDSTSimulation; streaming, compaction, WAL DST; SimulatedConnection; PipelineSimulator; simulator::Simulation event queue; ScenarioBuilder/SimulationHarness) and all their preset constructors; seeds 0..1023 or any u64; three workload sizes per harness. The case is executed 1 + 4 (quick) / 1 + 6 (thorough) times in this process (three times as many repeats in traced runs and replays), each repeat after shifting the ahash/RandomState seed counters and allocator state and with ProductionTimeSource skewed by 0 ms / 1 ms / 1 s / 1 day per repeat, and for about 1 case in 3 also in two fresh processes; canonical dumps (operation trace, final state, result/verdict, violation text, BUGGIFY statistics; only containers whose order the harness does not expose are sorted) must be equal. evaluations = dump comparisons. Non-trivial = the harness ran its workload to a result (did not panic); distinct = fingerprint of (harness, preset, seed, size)"
    }
    fn components_real(&self) -> Vec<&'static str> {
        vec![
            "redis::{list,set,hash,sorted_set,transaction,executor}_dst harnesses with every preset config",
            "replication::crdt_dst::{GCounter,PNCounter,ORSet,VectorClock}DSTHarness (run, sync_all, check_convergence)",
            "simulator::{MultiNodeSimulation, run_partition_test, run_partition_test_batch, DSTSimulation, RedisDSTSimulation, SimulatedConnection, PipelineSimulator, Simulation, ScenarioBuilder/SimulationHarness}",
            "streaming::{StreamingDSTHarness, CompactionDSTHarness, WalDSTHarness} on the repo's SimulatedObjectStore / SimulatedWalStore",
            "buggify thread-local context, io::simulation::SimulatedRng, simulator::DeterministicRng, VirtualTime",
        ]
    }
    fn components_stubbed(&self) -> Vec<&'static str> {
        vec![
            "workload of the library-style simulators (MultiNodeSimulation, SimulatedConnection, Simulation, ScenarioBuilder, partition tests): a SplitMix stream over the harness seed chooses SET/GET/DEL/INCR/EXPIRE/TTL/PING, partitions, heals, time steps",
            "ProductionTimeSource wall clock during in-process executions: hook H2 pins it to a fixed instant plus a tape-chosen skew (fresh processes read the real clock)", "wall-clock reads outside TimeSource (streaming ProductionClock, WriteBuffer flush timer): hook H4 adds the same tape-chosen skew to their elapsed time",
            "tokio: async harnesses run on a current-thread runtime with paused clock",
            "security::acl_dst: not compiled (cargo feature `acl` is off); code under cfg(feature = \"simulation\") is off as well",
        ]
    }
    fn assumptions(&self) -> Vec<&'static str> {
        vec![
            "before every execution the thread's BUGGIFY context is put into the state a fresh thread has (FaultConfig::default(), zero statistics), as the repo's own batch runners do with reset_stats(); that a harness's outcome depends on BUGGIFY state left behind by an earlier harness on the same thread is counted as an informational probe (ambient_buggify_dependent/<harness>), not raised as a violation",
            "the six per-type harnesses are stepped with run(1) so that last_op yields a trace; all executions of a case step identically",
            "a harness that panics must panic with the same message in every execution; the panic itself is not a C20 violation",
            "violation keys are C20/<harness>[:<preset> where presets select different code paths]/<outcome|violation-text|buggify-stats> (whether the difference showed within one process or only against a fresh process is in the message, not in the key, because a hash-order dependence shows in either); trace, state and result share the class 'outcome' because which of them shows a given nondeterminism first varies between executions. Only the causally earliest differing section is reported, and sections at or after it are not compared again for that case, so a second root cause in the same harness and class can hide behind a known one",
            "a nondeterminism that shows only in some executions (hash order) is found, minimised and replayed with a probability < 1 per attempt; repeats make a miss unlikely, not impossible",
            "dependence on std::time::{SystemTime,Instant} read directly (not through ProductionTimeSource) is visible only at the granularity at which the executions of one check run differ in real time (micro- to milliseconds); a harness seeded from, say, the current day would pass",
        ]
    }
    fn required_probes(&self) -> Vec<&'static str> { vec!["same_process_compared", "fresh_process_compared"] }
    fn runs(&self, tier: Tier) -> u64 { match tier { Tier::Quick => 8000, Tier::Thorough => 120_000 } }

    fn run(&self, src: &mut Src, ctx: &RunCtx) -> RunReport {
        let mut rep = RunReport::default();
        // ---- the case
        let h = src.idx(HARNESSES.len());
        let def = &HARNESSES[h];
        let preset = src.idx(def.presets.len());
        let (sk, small, big) = (src.below(4), src.below(1024), src.u64_any());
        let seed = if sk == 3 { big } else { small };
        let size = def.sizes[src.idx(3)];
        let skew = [0u64, 1, 1000, 86_400_000][src.idx(4)];
        let fresh = src.chance(1, 3);
        let ambient = src.chance(1, 8);
        let series = src.chance(1, 3);
        let case = Case { h, preset, seed, size };
        let spec = case.spec();
        let who = if def.key_by_preset { format!("{}:{}", def.name, def.presets[preset]) } else { def.name.to_string() };
        rep.probe(def.probe);
        rep.log(ctx.trace, || format!("case {} (reproduce one execution: VERIF_C20_DUMP={} check C20)", spec, spec));

        // ---- same process
        let a = execute(&case, Some(T0_MS), false);
        rep.evals = 0;
        rep.log(ctx.trace, || format!("execution 1: {} lines; trace head {:?}; result {:?}", a.lines(), a.sec[TRACE].iter().take(3).collect::<Vec<_>>(), a.sec[RESULT].iter().map(|l| cut(l, 200)).collect::<Vec<_>>()));
        if a.sec[RESULT].first().map(|l| l.starts_with("PANIC ")).unwrap_or(false) { rep.probe("harness_panicked_consistently_checked"); }
        if !a.sec[VIOL].is_empty() { rep.probe("harness_reported_own_violation"); }
        if !a.sec[STATS].is_empty() { rep.probe("buggify_consulted"); }
        // a traced run (the first runs of a batch, the final run of a minimisation, every replay) looks three
        // times as hard, so that a replay of a finding that shows only in some executions rarely misses it
        let repeats = match ctx.tier { Tier::Quick => 4, Tier::Thorough => 6 } * if ctx.trace { 3 } else { 1 };
        // Every planned execution is performed whatever the earlier ones showed, so that the amount of
        // work (and the evidence counters) is a function of the tape; of all differences seen, the one
        // in the causally earliest section is reported.
        let mut limit = 5usize; // sections >= limit are explained by a difference already found
        let mut found: Option<(usize, String)> = None;
        for k in 0..repeats {
            // every other repeat is preceded by a different configuration of the same harness on this thread
            // (what an earlier run left behind - memo tables, thread-locals - must not leak into this one)
            if k % 2 == 1 && def.presets.len() > 1 {
                let other = Case { h, preset: (preset + 1 + (k as usize / 2) % (def.presets.len() - 1)) % def.presets.len(), seed: seed ^ 0x5a5a, size: def.sizes[0] };
                let _ = execute(&other, Some(T0_MS), false);
                rep.fault("other_configuration_ran_first_on_this_thread");
            }
            shift_ambient_state(seed.wrapping_add(k));
            rep.fault("hasher_and_allocator_state_shifted");
            if skew > 0 { rep.fault("production_clock_skewed"); }
            let b = execute(&case, Some(T0_MS + skew * (k + 1)), false);
            rep.evals += 1;
            rep.probe("same_process_compared");
            if let Some((s, i, x, y)) = a.first_diff(&b, limit) {
                let msg = format!("{} executed twice in one process (execution {} after shifting hasher/allocator state, ProductionTimeSource +{} ms): section '{}' line {} differs: run1 «{}» vs run{} «{}» ({}). Reproduce: run `VERIF_C20_DUMP={} check C20` repeatedly and diff the outputs",
                    spec, k + 2, skew * (k + 1), SECTIONS[s], i, cut(&x, 300), k + 2, cut(&y, 300), around(&x, &y), spec);
                found = Some((s, msg));
                limit = s;
            }
        }
        let mut found_any: Option<()> = None;
        if let Some((s, msg)) = found {
            rep.log(ctx.trace, || msg.clone());
            rep.violate(format!("C20/{}/{}", who, class(s)), msg);
            found_any = Some(());
        }

        // ---- a different harness ran, and was dropped, first on this thread; whatever it left in the thread's BUGGIFY
        // context stays (a fresh thread starts from FaultConfig::default(), and every harness of this tree leaves fault
        // injection enabled, so on this tree the predecessor makes no difference)
        {
            let h2 = (h + 1 + (seed as usize % (HARNESSES.len() - 1))) % HARNESSES.len();
            let other = Case { h: h2, preset: (seed as usize >> 8) % HARNESSES[h2].presets.len(), seed: seed ^ 0xa5a5, size: HARNESSES[h2].sizes[0] };
            buggify::set_config(FaultConfig::default());
            let _ = execute_with(&other, Some(T0_MS), false, false);
            let b = execute_with(&case, Some(T0_MS), false, false);
            buggify::set_config(FaultConfig::default());
            rep.fault("another_harness_ran_first_on_this_thread");
            rep.evals += 1;
            if let Some((s, i, x, y)) = a.first_diff(&b, limit) {
                let msg = format!("{} executed on a thread on which harness '{}' had just run (and been dropped) differs from its execution on a fresh thread: section '{}' line {}: fresh «{}» vs after «{}» ({}) - something the earlier harness left behind on the thread (BUGGIFY configuration or statistics, a thread-local) decides the outcome", spec, HARNESSES[h2].name, SECTIONS[s], i, cut(&x, 300), cut(&y, 300), around(&x, &y));
                rep.log(ctx.trace, || msg.clone());
                if found_any.is_none() { found_any = Some(()); rep.violate(format!("C20/{}/depends-on-predecessor-on-thread", who), msg); }
            }
        }

        // ---- the same case several times in a row on this thread with nothing in between but reset_stats() (what the
        // repository's own batch runners and seed loops do): whatever one execution leaves behind on the thread - counters,
        // budgets, memo tables - accumulates, and execution n must still be execution 1
        if series {
            buggify::set_config(FaultConfig::default());
            let k = 3 + (seed % 6) as usize;
            let mut first_bad: Option<String> = None;
            for j in 0..k {
                let b = execute_with(&case, Some(T0_MS), false, false);
                rep.evals += 1;
                rep.probe("same_case_repeated_back_to_back_on_one_thread");
                if first_bad.is_none() {
                    if let Some((s, i, x, y)) = a.first_diff(&b, limit) {
                        first_bad = Some(format!("{} executed {} times in a row on one thread (only reset_stats() in between): execution {} differs from the first in section '{}' line {}: first «{}» vs «{}» ({}) - something accumulates on the thread from one execution to the next", spec, k, j + 1, SECTIONS[s], i, cut(&x, 300), cut(&y, 300), around(&x, &y)));
                    }
                }
            }
            buggify::set_config(FaultConfig::default());
            rep.fault("same_case_repeated_back_to_back");
            if let Some(msg) = first_bad {
                rep.log(ctx.trace, || msg.clone());
                if found_any.is_none() { found_any = Some(()); rep.violate(format!("C20/{}/depends-on-predecessor-on-thread", who), msg); }
            }
        }

        // ---- ambient BUGGIFY state left by an earlier harness (informational, never a violation)
        if ambient {
            let c = execute(&case, Some(T0_MS), true);
            rep.fault("ambient_buggify_config_disabled");
            if limit == 5 && a.first_diff(&c, STATS).is_some() { rep.probe("outcome_depends_on_ambient_buggify_config"); rep.probe(def.ambient_probe); }
        }

        // ---- fresh processes (sections that already differ in-process are not compared again)
        if fresh {
            let mut found: Option<(usize, String)> = None;
            for child in 1..=2 {
                let c = fresh_process_dump(&case);
                rep.fault("fresh_process");
                rep.evals += 1;
                rep.probe("fresh_process_compared");
                if let Some((s, i, x, y)) = a.first_diff(&c, limit) {
                    let msg = format!("{} gives the same '{}' section when repeated in one process, but fresh process #{} (new hash seeds, allocator state, real clock) differs at line {}: in-process «{}» vs fresh «{}» ({}). Reproduce: run `VERIF_C20_DUMP={} check C20` in several processes and diff the outputs",
                        spec, SECTIONS[s], child, i, cut(&x, 300), cut(&y, 300), around(&x, &y), spec);
                    found = Some((s, msg));
                    limit = s;
                }
            }
            if let Some((s, msg)) = found {
                rep.log(ctx.trace, || msg.clone());
                rep.violate(format!("C20/{}/{}", who, class(s)), msg);
            }
        }

        rep.evals = rep.evals.max(1);
        rep.nontrivial = a.lines() >= 1 && !a.sec[RESULT].first().map(|l| l.starts_with("PANIC ")).unwrap_or(true);
        rep.fingerprint = fnv(fnv(0, spec.as_bytes()), &[1]);
        rep.steps = a.sec[TRACE].len() as u64;
        rep.sample = Some(json!({
            "case": spec, "clock_skew_ms": skew, "fresh_processes": fresh, "dump_lines": a.lines(),
            "trace_head": a.sec[TRACE].iter().take(2).map(|l| cut(l, 160)).collect::<Vec<_>>(),
            "result": a.sec[RESULT].iter().take(2).map(|l| cut(l, 240)).collect::<Vec<_>>(),
        }));
        rep
    }
}
