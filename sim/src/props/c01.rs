//! C01 — commands behave as Redis: every reply and the visible keyspace match the Redis model.
//!
//! System under test: (T1) a bare `CommandExecutor` fed through the production parser
//! (`Command::from_resp_zero_copy`) under three clock regimes — (a) `set_time` before every command
//! (what ShardActor does for generic commands: eager eviction), (b) `update_time_readonly` before
//! every command plus `evict_expired_direct` ticks at tape-chosen instants (the only regime in which
//! an expired-but-present entry exists, so the only one that exercises the lazy checks), (c) no time
//! told to commands, clock moved only by evict ticks (the model then follows the node's clock);
//! (T2, thorough) one-shard `ShardedActorState<SimClock>` with generic/fast/pooled/batch entry paths
//! and `evict_expired_all_shards` ticks.
//!
//! Oracle: `model::refredis::RefRedis`, compared after EVERY step: the reply, and the visible
//! keyspace (KEYS *, then TYPE / full value / PTTL of every key the model holds — keys the model
//! does not hold are never read individually, so the dump itself does not disturb stale entries).

//!
//! Violation keys are `C01/<COMMAND>/<aspect>`; a few root causes that show through many commands
//! get one key of their own (`C01/binary-member/utf8-lossy`, `C01/integer-argument/lenient-parse`,
//! `C01/integer-value/lenient-parse`, `C01/zset/infinite-score-…`, `C01/arity/…`,
//! `C01/error-text/non-redis-wording`, `C01/error-precedence/<reported>-before-<redis's>`); a mismatch
//! that is exactly what Redis would answer if an expired-but-unevicted entry were still alive is
//! named `…/expired-entry-treated-as-live`, keyspace differences on such a key carry `@stale`
//! (reach=api-only on today's tree: generic commands are always preceded by `set_time`).
//! A mismatch ends the run unless its key is an open known finding AND the keyspace comparison that
//! follows proves that model and implementation are still in the same state (for a known TTL
//! difference the model takes over the implementation's deadline); so one known finding neither
//! hides later behaviour of the same run nor lets a diverged pair go on producing noise.
//! Panics inside the code under test are reported by the runner as `C01/panic/<file:line>`.

use crate::model::cmdgen::{gen_cmd, Cmd, Fam, GenCfg, ALL_FAMS};
use crate::model::refredis::{Exp, RefRedis, Val};
use crate::model::wire::{cmd as mk, parse_cmd, show_cmd, R};
use crate::simkit::clock::SimClock;
use crate::simkit::rt;
use crate::simkit::runner::{Property, RunCtx, RunReport, Tier};
use crate::simkit::tape::{fnv, Src};
use bytes::Bytes;
use redis_sim::production::ShardedActorState;
use redis_sim::redis::{CommandExecutor, RespValue};
use redis_sim::simulator::VirtualTime;
use serde_json::json;
use std::collections::{BTreeMap, BTreeSet};
use std::panic::{catch_unwind, AssertUnwindSafe};

pub struct C01;

const BASE_EPOCH_MS: u64 = 1_700_000_000_000;

#[derive(Debug, Clone, Copy, PartialEq, Eq)]
enum Mode { SetTime, Readonly, NodeClock, Sharded, Replicated }
impl Mode { fn name(&self) -> &'static str { match self { Mode::SetTime => "T1a:set_time", Mode::Readonly => "T1b:update_time_readonly+ticks", Mode::NodeClock => "T1c:ticks-only", Mode::Sharded => "T2:sharded-1", Mode::Replicated => "T3:replicated-node" } } }

#[derive(Debug, Clone, Copy, PartialEq, Eq)]
enum Path { Generic, Fast, Pooled, Batch }
impl Path { fn name(&self) -> &'static str { match self { Path::Generic => "execute", Path::Fast => "fast", Path::Pooled => "pooled", Path::Batch => "batch" } } }

/// What the connection handler does with a parser error before writing it.
fn norm_parse_err(e: String) -> R {
    const P: [&str; 6] = ["ERR ", "WRONGTYPE ", "WRONGPASS ", "EXECABORT ", "NOAUTH ", "NOPERM "];
    if P.iter().any(|p| e.starts_with(p)) { R::Err(e) } else { R::Err(format!("ERR {}", e)) }
}

struct Sut {
    mode: Mode,
    epoch_ms: u64,
    /// client-side clock: ms since epoch_ms
    virt: u64,
    ex: Option<CommandExecutor>,
    sharded: Option<(tokio::runtime::Runtime, ShardedActorState<SimClock>, SimClock)>,
    /// T2, every other run: the server's own TtlManagerActor (spawned on the run's runtime) does the eviction ticks
    ttl_manager: Option<redis_sim::production::TtlManagerHandle>,
    /// T3: the node the persistent server runs (ReplicatedShardedState: 16 replicated shard actors, each with its own
    /// executor), one key in play so that every command stays on one shard
    replicated: Option<(tokio::runtime::Runtime, redis_sim::production::ReplicatedShardedState<SimClock>, SimClock)>,
}

impl Sut {
    fn new(mode: Mode, epoch_ms: u64, seed: u64) -> Sut {
        if mode == Mode::Replicated {
            let clock = SimClock::new(epoch_ms);
            let rt = rt::runtime(seed);
            let state = { let _g = rt.enter(); redis_sim::production::ReplicatedShardedState::with_time_source(crate::model::cluster::repl_config(1, redis_sim::replication::ConsistencyLevel::Eventual), clock.clone()) };
            Sut { mode, epoch_ms, virt: 0, ex: None, sharded: None, replicated: Some((rt, state, clock)), ttl_manager: None }
        } else if mode == Mode::Sharded {
            let clock = SimClock::new(epoch_ms);
            let rt = rt::runtime(seed);
            let state = { let _g = rt.enter(); crate::props::c03::shard_state(1, &clock) };
            let ttl_manager = if seed % 2 == 0 {
                let _g = rt.enter();
                let metrics = std::sync::Arc::new(redis_sim::observability::Metrics::new(&redis_sim::observability::DatadogConfig::from_env()));
                Some(redis_sim::production::TtlManagerActor::spawn_with_interval(state.clone(), 100, metrics))
            } else { None };
            Sut { mode, epoch_ms, virt: 0, ex: None, sharded: Some((rt, state, clock)), replicated: None, ttl_manager }
        } else {
            // exactly what ShardActor::new_with_shared_scripts does with the time source's start instant
            let mut ex = CommandExecutor::new();
            ex.set_simulation_start_epoch((epoch_ms / 1000) as i64);
            ex.set_simulation_start_epoch_ms(epoch_ms as i64);
            Sut { mode, epoch_ms, virt: 0, ex: Some(ex), sharded: None, replicated: None, ttl_manager: None }
        }
    }
    fn now_abs(&self) -> u64 { self.epoch_ms + self.virt }
    fn advance(&mut self, ms: u64) {
        self.virt += ms;
        if let Some((_, _, c)) = &self.sharded { c.set(self.epoch_ms + self.virt); }
        if let Some((_, _, c)) = &self.replicated { c.set(self.epoch_ms + self.virt); }
    }
    fn tick(&mut self) -> usize {
        let vt = VirtualTime::from_millis(self.virt);
        if let Some(ex) = &mut self.ex { return ex.evict_expired_direct(vt); }
        if let Some((rt, st, _)) = self.replicated.as_ref() { return rt.block_on(st.evict_expired_all_shards()); }
        let (rt, st, _) = self.sharded.as_ref().unwrap();
        if let Some(h) = &self.ttl_manager {
            // a manual tick through the manager's mailbox; then the manager and the shard get to run until the eviction is done
            h.tick();
            rt.block_on(async { for _ in 0..8 { tokio::task::yield_now().await; } });
            return 0;
        }
        rt.block_on(st.evict_expired_all_shards())
    }
    /// One command in, one reply out. A panic inside the code under test is returned as Err(()).
    fn send(&mut self, c: &Cmd, path: Path) -> Result<R, ()> {
        let vt = VirtualTime::from_millis(self.virt);
        let mode = self.mode;
        if let Some(ex) = &mut self.ex {
            return catch_unwind(AssertUnwindSafe(|| {
                match mode { Mode::SetTime => ex.set_time(vt), Mode::Readonly => ex.update_time_readonly(vt), _ => {} }
                match parse_cmd(c) { Ok(cmd) => R::from_resp(&ex.execute(&cmd)), Err(e) => norm_parse_err(e) }
            })).map_err(|_| ());
        }
        if let Some((rt, st, _)) = self.replicated.as_ref() {
            return catch_unwind(AssertUnwindSafe(|| rt.block_on(async {
                match parse_cmd(c) { Ok(cmd) => R::from_resp(&st.execute(cmd).await), Err(e) => norm_parse_err(e) }
            }))).map_err(|_| ());
        }
        let (rt, st, _) = self.sharded.as_ref().unwrap();
        let name = String::from_utf8_lossy(&c[0]).to_uppercase();
        catch_unwind(AssertUnwindSafe(|| rt.block_on(async {
            let first = |v: Vec<RespValue>| v.into_iter().next().unwrap_or(RespValue::err("ERR empty batch reply"));
            if path != Path::Generic && name == "GET" && c.len() == 2 {
                let k = Bytes::copy_from_slice(&c[1]);
                let r = match path { Path::Fast => st.fast_get(k).await, Path::Pooled => st.pooled_fast_get(k).await, _ => first(st.fast_batch_get_pipeline(vec![k]).await) };
                return R::from_resp(&r);
            }
            if path != Path::Generic && name == "SET" && c.len() == 3 {
                let (k, v) = (Bytes::copy_from_slice(&c[1]), Bytes::copy_from_slice(&c[2]));
                let r = match path { Path::Fast => st.fast_set(k, v).await, Path::Pooled => st.pooled_fast_set(k, v).await, _ => first(st.fast_batch_set_pipeline(vec![(k, v)]).await) };
                return R::from_resp(&r);
            }
            match parse_cmd(c) { Ok(cmd) => R::from_resp(&st.execute(&cmd).await), Err(e) => norm_parse_err(e) }
        }))).map_err(|_| ())
    }
}

fn b(s: &str) -> Vec<u8> { s.as_bytes().to_vec() }
fn cname(c: &Cmd) -> String { String::from_utf8_lossy(&c[0]).to_uppercase() }

/// Commands and argument shapes `cmdgen` does not produce (all exist in /repo's Command enum).
fn gen_extra(src: &mut Src, g: &mut GenCfg, m: &RefRedis) -> Cmd {
    let k = g.key(src);
    let ttl_near = |src: &mut Src, m: &RefRedis, k: &[u8]| -> i64 { let p = m.pttl(k); if p > 0 { p + src.irange(-1, 1) } else { [1500i64, 1, 0, -1, i64::MIN, i64::MIN / 1000][src.idx(6)] } };
    match src.below(24) {
        0 => {
            let mut v = vec![b("GETEX"), k];
            match src.below(8) { 0 => {} 1 => v.push(b("PERSIST")), 2 => { v.push(b("EX")); v.push(g.ttl_secs(src)); } 3 => { v.push(b("PX")); v.push(g.ttl_ms(src)); }
                4 => { v.push(b("EXAT")); v.push(b(&format!("{}", 1_700_000_000 + src.irange(-5, 100)))); } 5 => { v.push(b("PXAT")); v.push(b(&format!("{}", BASE_EPOCH_MS as i64 + src.irange(-5000, 100_000)))); }
                6 => { v.push(b("PERSIST")); v.push(b("EX")); v.push(b("10")); } _ => v.push(b(["NX", "KEEPTTL", "EX", "GET"][src.idx(4)])) }
            v
        }
        1 => vec![b(if src.chance(1, 2) { "EXPIRETIME" } else { "PEXPIRETIME" }), k],
        2 => vec![b("RANDOMKEY")],
        3 => vec![b("SETBIT"), k, b(["0", "7", "8", "15", "100", "-1", "abc", "4294967296"][src.idx(if g.edgy { 8 } else { 5 })]), b(["1", "0", "2", "x"][src.idx(if g.edgy { 4 } else { 2 })])],
        4 => vec![b("GETBIT"), k, b(["0", "7", "8", "15", "100", "-1", "abc"][src.idx(if g.edgy { 7 } else { 5 })])],
        5 => vec![b("SETRANGE"), k, b(["0", "1", "5", "-1", "abc", "+1"][src.idx(6)]), g.val(src)],
        6 => { let mut v = vec![b(if src.chance(1, 2) { "EXPIRE" } else { "PEXPIRE" }), k, g.ttl_ms(src)]; let f = [["XX", "GT"], ["XX", "LT"], ["NX", "XX"], ["GT", "LT"], ["NX", "GT"], ["gt", "xx"]][src.idx(6)]; v.push(b(f[0])); v.push(b(f[1])); v }
        7 => { let t = ttl_near(src, m, &k); let mut v = vec![b("PEXPIRE"), k, b(&t.to_string())]; if src.chance(3, 4) { v.push(b(["GT", "LT", "NX", "XX"][src.idx(4)])); } v }
        8 => { let p = m.pttl(&k); let t = if p > 0 { m.now as i64 + p + src.irange(-1, 1) } else { m.now as i64 + src.irange(-2, 2) }; vec![b("PEXPIREAT"), k, b(&t.to_string())] }
        9 => { let p = m.pttl(&k); let t = (m.now as i64 + if p > 0 { p } else { 0 }) / 1000 + src.irange(-1, 1); vec![b("EXPIREAT"), k, b(&t.to_string())] }
        10 => {
            // ZADD aimed at existing members: equal / lower / higher score under GT/LT/NX/XX/CH
            let mut v = vec![b("ZADD"), k.clone()];
            match src.below(6) { 0 => {} 1 => v.push(b("GT")), 2 => v.push(b("LT")), 3 => v.push(b("XX")), 4 => { v.push(b("XX")); v.push(b(if src.chance(1, 2) { "GT" } else { "LT" })); } _ => v.push(b("NX")) }
            if src.chance(1, 2) { v.push(b("CH")); }
            let existing: Vec<(Vec<u8>, f64)> = match m.db.get(&k) { Some(e) => match &e.val { Val::Zset(z) => z.iter().map(|(a, s)| (a.clone(), *s)).collect(), _ => vec![] }, None => vec![] };
            for _ in 0..=src.below(2) {
                if !existing.is_empty() && src.chance(2, 3) {
                    let (mem, s) = existing[src.idx(existing.len())].clone();
                    let ns = if s == 1.0 && src.chance(1, 3) { 1.0000000000000002 } else if s == 2.0 && src.chance(1, 3) { 2.0000000000000004 } else if s.is_finite() && s.abs() < 1e6 && s.fract() == 0.0 { s + [0.0, 1.0, -1.0, 0.5][src.idx(4)] } else { s };
                    v.push(String::from_utf8_lossy(&crate::model::refredis::score_text(ns)).into_owned().into_bytes()); v.push(mem);
                } else { v.push(g.score(src)); v.push(g.member(src)); }
            }
            v
        }
        11 => vec![b("LMOVE"), k, g.key(src), b(["LEFT", "left", "RIGHT", "UP", ""][src.idx(5)]), b(["RIGHT", "right", "LEFT", "x"][src.idx(4)])],
        12 => { let mut v = vec![b("SCAN"), b(["0", "0", "abc", "", "-1"][src.idx(if g.edgy { 5 } else { 2 })])]; match src.below(6) { 0 => v.push(b("MATCH")), 1 => v.push(b("COUNT")), 2 => { v.push(b("COUNT")); v.push(b(["0", "-1", "abc", "1", "2"][src.idx(5)])); } 3 => { v.push(b("MATCH")); v.push(b(["k[01]", "[^k]*", "?0", "k\\0", "*"][src.idx(5)])); v.push(b("COUNT")); v.push(b(["1", "2", "3"][src.idx(3)])); } 4 => v.push(b("NOPE")), _ => {} } v }
        13 => { let mut v = vec![b(if src.chance(1, 2) { "HSCAN" } else { "ZSCAN" }), k, b("0")]; match src.below(4) { 0 => { v.push(b("COUNT")); v.push(b(["1", "2", "0"][src.idx(3)])); } 1 => { v.push(b("MATCH")); v.push(b(["*", "a*", "[ab]", "?"][src.idx(4)])); } 2 => v.push(b("MATCH")), _ => {} } v }
        14 => vec![b("KEYS"), b(["k[01]", "[^k]*", "?0", "k\\0", "k[0-1]", "*:*", "K*", "k*0", "k0*0", "k1*k1", "k*k0", "*0*0"][src.idx(12)])],
        15 => {
            // arity / case mutations of an ordinary command
            let mut c = gen_cmd(src, g);
            match src.below(3) { 0 => { if c.len() > 1 { c.pop(); } } 1 => c.push(g.val(src)), _ => { c[0] = String::from_utf8_lossy(&c[0]).to_lowercase().into_bytes(); } }
            c
        }
        16 => vec![b("SUBSTR"), k, g.index(src), g.index(src)],
        17 => { let mut v = vec![b("HSET"), k]; for _ in 0..(1 + src.below(4)) { v.push(g.member(src)); } v }
        18 => vec![b("HINCRBY"), k, g.member(src), b(["1", "-1", "9223372036854775807", "-9223372036854775808", "+1", "01", "1.0", ""][src.idx(8)])],
        19 => vec![b("INCRBYFLOAT"), k, b(["1.5", "-0.5", "0.25", "abc", "", " 1", "1e2", "nan", "5."][src.idx(if g.edgy { 9 } else { 3 })])],
        20 => { let mut v = vec![b("SET"), k, g.val(src)]; let opts = [vec!["KEEPTTL", "EX", "10"], vec!["EX"], vec!["PX", "10", "EX", "10"], vec!["GET", "NX"], vec!["XX", "GET"], vec!["keepttl"], vec!["EX", "10", "KEEPTTL"], vec!["NX", "PX", "1"], vec!["XX", "KEEPTTL", "GET"], vec!["BOGUS"]]; for o in &opts[src.idx(opts.len())] { v.push(b(o)); } v }
        21 => vec![b("LSET"), k, g.index(src), g.member(src)],
        22 => { let mut v = vec![b("ZRANGEBYSCORE"), k, b(["-inf", "(0", "1", "abc", "(inf", "+inf", "-1.5"][src.idx(7)]), b(["+inf", "(1", "0", "inf", "(-inf", "2.5"][src.idx(6)])]; match src.below(5) { 0 => v.push(b("WITHSCORES")), 1 => { v.push(b("LIMIT")); v.push(b("0")); } 2 => { v.push(b("LIMIT")); v.push(b(["0", "1", "abc"][src.idx(3)])); v.push(b(["-1", "1", "x", "0"][src.idx(4)])); v.push(b("WITHSCORES")); } 3 => v.push(b("BOGUS")), _ => {} } v }
        _ => { let mut v = vec![b("ZCOUNT"), k, b(["-inf", "(0", "1", "abc", "(inf", "+inf", "-1.5", "(1"][src.idx(8)]), b(["+inf", "(1", "0", "inf", "(-inf", "2.5", "(2"][src.idx(7)])]; if g.edgy && src.chance(1, 8) { v.pop(); } v }
    }
}

// ------------------------------------------------------------------------------------------
// comparison
// ------------------------------------------------------------------------------------------

fn slug_err(t: &str) -> String {
    let t = t.trim_start_matches("ERR ").trim_start_matches("WRONGTYPE ");
    if t.starts_with("value is not an integer") { return "not-an-integer".into(); }
    if t.starts_with("value is not a valid float") { return "not-a-float".into(); }
    if t.starts_with("syntax error") { return "syntax-error".into(); }
    if t.starts_with("Operation against a key") { return "wrongtype".into(); }
    if t.starts_with("wrong number of arguments") { return "arity".into(); }
    if t.starts_with("invalid expire time") { return "invalid-expire-time".into(); }
    if t.starts_with("no such key") { return "no-such-key".into(); }
    if t.starts_with("index out of range") { return "index-out-of-range".into(); }
    if t.starts_with("increment or decrement would overflow") { return "overflow".into(); }
    if t.starts_with("unknown command") { return "unknown-command".into(); }
    t.split_whitespace().take(5).collect::<Vec<_>>().join("-").chars().map(|c| if c.is_ascii_alphanumeric() || c == '-' { c.to_ascii_lowercase() } else { '-' }).collect()
}

fn shape(r: &R) -> &'static str { match r { R::Simple(_) => "status", R::Err(_) => "error", R::Int(_) => "int", R::Bulk(None) => "nil", R::Bulk(Some(_)) => "bulk", R::Arr(None) => "nil-array", R::Arr(Some(_)) => "array" } }

fn exact_aspect(name: &str, want: &R, got: &R) -> String {
    match (want, got) {
        (R::Int(w), R::Int(g)) if name == "TTL" && *g == *w + 1 => "rounds-up".into(),
        (R::Int(_), R::Int(_)) => "reply-int".into(),
        (R::Bulk(Some(_)), R::Bulk(Some(_))) => "reply-bulk".into(),
        (R::Simple(_), R::Simple(_)) => "reply-status".into(),
        (R::Arr(Some(w)), R::Arr(Some(g))) => { if w.len() != g.len() { "reply-array-length".into() } else { let (mut a, mut c) = (w.clone(), g.clone()); a.sort(); c.sort(); if a == c { "reply-array-order".into() } else { "reply-array-elements".into() } } }
        (_, R::Err(e)) => format!("rejects-{}", slug_err(e)),
        (w, g) => format!("reply-{}-instead-of-{}", shape(g), shape(w)),
    }
}

/// Ok(()) or Err((aspect, expected-as-text)). Pop/AnyKey/Scan are handled by the caller.
fn check_reply(name: &str, exp: &Exp, got: &R) -> Result<(), (String, String)> {
    match exp {
        Exp::Exact(w) => if w == got { Ok(()) } else { Err((exact_aspect(name, w, got), w.show())) },
        Exp::Unordered(ws) => {
            let w = R::Arr(Some(ws.clone()));
            if w.eq_unordered(got) && matches!(got, R::Arr(Some(_))) { Ok(()) } else { Err((exact_aspect(name, &w, got), format!("{} in any order", w.show()))) }
        }
        Exp::UnorderedPairs(ps) => {
            let mut wp = ps.clone(); wp.sort();
            let flat = R::Arr(Some(wp.iter().flat_map(|(a, b)| [a.clone(), b.clone()]).collect()));
            if let R::Arr(Some(xs)) = got { if xs.len() % 2 == 0 { let mut gp: Vec<(R, R)> = xs.chunks(2).map(|c| (c[0].clone(), c[1].clone())).collect(); gp.sort(); if gp == wp { return Ok(()); } } }
            Err((exact_aspect(name, &flat, got), format!("{} as pairs in any order", flat.show())))
        }
        Exp::Err { code, text, judged } => match got {
            R::Err(g) => {
                let (gs, ws) = (slug_err(g), text.as_deref().map(slug_err).unwrap_or_else(|| code.to_lowercase()));
                let differs = got.err_code() != Some(*code) || (*judged && text.as_deref() != Some(g.as_str()));
                const VERBATIM: [&str; 9] = ["not-an-integer", "not-a-float", "syntax-error", "wrongtype", "no-such-key", "index-out-of-range", "invalid-expire-time", "overflow", "arity"];
                if differs && gs != ws && VERBATIM.contains(&gs.as_str()) { return Err((format!("!error-precedence/{}-before-{}", gs, ws), format!("-{}", text.clone().unwrap_or_else(|| format!("{} …", code))))); }
                if got.err_code() != Some(*code) { return Err((format!("error-code-{}-instead-of-{}", got.err_code().unwrap_or("none").to_lowercase(), code.to_lowercase()), format!("-{} …", code))); }
                // right code, an error on both sides, only the wording is not Redis's: one class
                if let (Some(t), true) = (text, *judged) { if t != g { return Err(("!error-text/non-redis-wording".to_string(), format!("-{}", t))); } }
                Ok(())
            }
            _ => Err((format!("accepts-{}", text.as_deref().map(slug_err).unwrap_or_else(|| "error".into())), format!("-{}", text.clone().unwrap_or_else(|| format!("{} …", code))))),
        },
        _ => Ok(()),
    }
}

/// The model's view of one key, in the shape the dump commands return it.
fn model_view(v: &Val) -> (&'static str, R) {
    match v {
        Val::Str(s) => ("string", R::bulk(s)),
        Val::List(l) => ("list", R::Arr(Some(l.iter().map(|x| R::bulk(x)).collect()))),
        Val::Set(s) => ("set", R::Arr(Some(s.iter().map(|x| R::bulk(x)).collect()))),
        Val::Hash(h) => ("hash", R::Arr(Some(h.iter().flat_map(|(f, x)| [R::bulk(f), R::bulk(x)]).collect()))),
        Val::Zset(z) => ("zset", R::Arr(Some(RefRedis::zsorted(z).iter().flat_map(|(m, s)| [R::bulk(m), R::bulk(&crate::model::refredis::score_text(*s))]).collect()))),
    }
}

fn sort_flat(r: R, pairs: bool) -> R {
    match r {
        R::Arr(Some(xs)) if pairs && xs.len() % 2 == 0 => { let mut p: Vec<(R, R)> = xs.chunks(2).map(|c| (c[0].clone(), c[1].clone())).collect(); p.sort(); R::Arr(Some(p.into_iter().flat_map(|(a, b)| [a, b]).collect())) }
        R::Arr(Some(mut xs)) if !pairs => { xs.sort(); R::Arr(Some(xs)) }
        o => o,
    }
}

struct Run<'a> {
    sut: Sut,
    model: RefRedis,
    rep: RunReport,
    trace: bool,
    ctx: &'a RunCtx<'a>,
    /// keys the model expired by the clock since the implementation last evicted (regime b / T2)
    stale: BTreeMap<Vec<u8>, crate::model::refredis::Entry>,
    created: BTreeSet<Vec<u8>>,
    touched_created: bool,
    crossed_deadline: bool,
    ended: bool,
    steps: u64,
    fp: u64,
    shown: Vec<String>,
    cur: Option<Cmd>,
    cur_strval: Option<Vec<u8>>,
    quiet: bool,
    cur_zinf: bool,
    /// T3: a command naming two different keys has run (RENAME, RPOPLPUSH, LMOVE, MSETNX, ...): on the replicated node it
    /// ran on its first key's shard alone, and everything after it may differ for that recorded reason
    two_key_seen: bool,
    after_known: bool,
}

impl<'a> Run<'a> {
    /// Report a disagreement. A key listed as an open known finding lets the run go on — but only if the
    /// keyspace comparison that follows shows that model and implementation are still in the same
    /// state (see `step`); anything else ends the run here.
    fn fail(&mut self, key: String, msg: String) {
        if self.quiet { self.rep.log(self.trace, || format!("  (state diverged after a known finding: {}; run ends)", msg)); self.ended = true; return; }
        // one root cause, many commands: set members / hash fields / zset members go through
        // String::from_utf8_lossy, so a non-UTF-8 name comes back as U+FFFD bytes
        let mut key = key;
        if self.sut.mode == Mode::Replicated && self.two_key_seen { key = "C01/replicated-node/two-key-command-runs-on-first-keys-shard".to_string(); }
        if let Some(c) = &self.cur {
            for a in c.iter().skip(1) {
                if std::str::from_utf8(a).is_err() {
                    let lossy = crate::model::wire::show_bytes(String::from_utf8_lossy(a).as_bytes());
                    if msg.contains(&lossy) { key = "C01/binary-member/utf8-lossy".to_string(); }
                }
            }
        }
        if let Some(c) = &self.cur {
            // parser-level leniency shared by every integer argument (str::parse accepts "+5", "007", "-0")
            if key.ends_with("/accepts-not-an-integer") && c.iter().skip(1).any(|a| crate::model::refredis::string2ll(a).is_none() && std::str::from_utf8(a).ok().and_then(|t| t.parse::<i64>().ok()).is_some()) {
                key = "C01/integer-argument/lenient-parse".to_string();
            }
            // same leniency on the stored value (INCR*/DECR*/HINCRBY read it with str::parse)
            else if (key.ends_with("/accepts-not-an-integer") || key.ends_with("/accepts-hash-value-is-not-an")) && self.cur_strval.as_ref().map(|v| crate::model::refredis::string2ll(v).is_none() && std::str::from_utf8(v).ok().and_then(|t| t.parse::<i64>().ok()).is_some()).unwrap_or(false) {
                key = "C01/integer-value/lenient-parse".to_string();
            }
            let zinf = c.len() > 1 && (c.iter().skip(2).any(|a| matches!(String::from_utf8_lossy(a).to_ascii_lowercase().as_str(), "inf" | "+inf" | "-inf")) || self.cur_zinf);
            if zinf && key.starts_with("C01/Z") && (key.contains("/value-differs-zset") || key.contains("/reply-")) { key = "C01/zset/infinite-score-member-not-found-by-skiplist".to_string(); }
            if key.ends_with("/accepts-arity") { key = "C01/arity/surplus-or-missing-arguments-accepted".to_string(); }
        }
        let known = self.ctx.known(&key);
        self.rep.log(self.trace, || format!("  => {} {}: {}", if known { "KNOWN" } else { "VIOLATION" }, key, msg));
        let hist = if self.shown.len() > 12 { format!("… {}", self.shown[self.shown.len() - 12..].join("; ")) } else { self.shown.join("; ") };
        self.rep.violate(key, format!("{} | mode {} | history: {}", msg, self.sut.mode.name(), hist));
        if known { self.after_known = true; self.rep.probe("continued_past_known_finding"); } else { self.ended = true; }
    }

    fn sees_stale(&self, c: &Cmd) -> bool {
        if self.stale.is_empty() { return false; }
        let name = cname(c);
        let wide = matches!(name.as_str(), "KEYS" | "DBSIZE" | "SCAN" | "RANDOMKEY" | "FLUSHDB" | "FLUSHALL");
        wide || c[1..].iter().any(|a| self.stale.contains_key(a))
    }

    /// send, with panic -> violation
    fn send(&mut self, c: &Cmd, path: Path) -> Option<R> {
        self.steps += 1;
        let r = self.sut.send(c, path);
        // a generic command on the sharded path starts with set_time, which evicts
        if (self.sut.mode == Mode::Sharded && path == Path::Generic) || self.sut.mode == Mode::Replicated { self.stale.clear(); }
        match r {
            Ok(r) => Some(r),
            Err(()) => {
                // the runner's panic hook recorded the site and reports it as C01/panic/<file:line>
                self.rep.log(self.trace, || format!("  => {} PANICKED inside the code under test", show_cmd(c)));
                self.shown.push(format!("{} -> panic", show_cmd(c)));
                self.ended = true;
                None
            }
        }
    }

    fn sync_model_clock(&mut self) {
        if self.sut.mode == Mode::NodeClock { return; }
        let dead = self.model.set_now(self.sut.now_abs());
        if !dead.is_empty() { self.crossed_deadline = true; }
        self.absorb_expired();
    }

    /// keys the model just expired become candidates for "the implementation still holds the entry"
    fn absorb_expired(&mut self) {
        let log = std::mem::take(&mut self.model.expired_log);
        if self.sut.mode != Mode::SetTime { for (k, e) in log { self.stale.insert(k, e); } }
    }

    fn tick(&mut self) {
        let n = self.sut.tick();
        self.rep.fault("evict_tick");
        if self.sut.ttl_manager.is_some() { self.rep.probe("evict_tick_through_the_ttl_manager_actor"); }
        if self.sut.mode == Mode::NodeClock { let dead = self.model.set_now(self.sut.now_abs()); if !dead.is_empty() { self.crossed_deadline = true; } }
        self.stale.clear();
        self.rep.log(self.trace, || format!("evict tick at +{} ms -> {} evicted", self.sut.virt, n));
    }

    /// One command against both sides, reply compared. `tag` is appended to the violation key.
    fn step(&mut self, c: &Cmd, path: Path, tag: &str) {
        if self.ended { return; }
        if self.sut.mode == Mode::Replicated {
            // the replicated node knows key commands and a handful of keyless ones; anything else keyless is not its
            // vocabulary (it answers 'unknown command') and is left out
            let keyless_ok = matches!(cname(c).as_str(), "KEYS" | "DBSIZE" | "FLUSHDB" | "FLUSHALL" | "MSET" | "MGET" | "EXISTS" | "PING");
            if parse_cmd(c).ok().map(|pc| pc.get_primary_key().is_some()) == Some(false) && !keyless_ok { return; }
            let n = cname(c);
            let two = match n.as_str() {
                "RENAME" | "RENAMENX" | "RPOPLPUSH" | "SMOVE" | "COPY" => c.len() >= 3 && c[1] != c[2],
                "LMOVE" | "BLMOVE" => c.len() >= 3 && c[1] != c[2],
                "MSETNX" => c.len() >= 5 && c.iter().skip(1).step_by(2).any(|k| *k != c[1]),
                "SORT" => c.iter().skip(2).any(|a| a.eq_ignore_ascii_case(b"STORE")),
                "EVAL" | "EVALSHA" => true,
                _ => false,
            };
            if two { self.two_key_seen = true; }
        }
        let name = cname(c);
        self.cur = Some(c.clone());
        self.sync_model_clock();
        if let Some(ex) = &self.sut.ex {
            // exact for T1: entries the executor still holds although Redis no longer has the key
            let data = ex.get_data();
            let m = &self.model.db;
            self.stale.retain(|k, _| !m.contains_key(k) && std::str::from_utf8(k).map(|t| data.contains_key(t)).unwrap_or(false));
        }
        let sees_stale = self.sees_stale(c);
        if sees_stale { self.rep.probe("command_saw_stale_entry"); if path != Path::Generic { self.rep.probe("fast_path_saw_stale_entry"); } }
        if path != Path::Generic && (name == "GET" && c.len() == 2 || name == "SET" && c.len() == 3) { self.rep.probe("fast_path_command"); }
        // what Redis would say if the expired entries were still alive: used only to NAME a mismatch
        let ghost_model = if sees_stale { let mut g = self.model.clone(); for (k, e) in &self.stale { if !g.db.contains_key(k) { g.db.insert(k.clone(), crate::model::refredis::Entry { val: e.val.clone(), exp: None }); } } Some(g) } else { None };
        let ghosts: BTreeSet<Vec<u8>> = self.stale.keys().cloned().collect();
        let _ = tag;
        let strval: Option<Vec<u8>> = if c.len() > 1 { match self.model.db.get(&c[1]).map(|e| &e.val) { Some(Val::Str(v)) => Some(v.clone()), Some(Val::Hash(h)) if c.len() > 2 => h.get(&c[2]).cloned(), _ => None } } else { None };
        self.cur_zinf = c.len() > 1 && matches!(self.model.db.get(&c[1]).map(|e| &e.val), Some(Val::Zset(z)) if z.values().any(|s| s.is_infinite()));
        let exp = self.model.exec(c);
        self.absorb_expired();
        self.cur_strval = strval;
        if let Exp::NoAuthority(_) = exp { return; }
        if self.model.emptied { self.rep.probe("collection_emptied"); }
        let Some(got) = self.send(c, path) else { return };
        self.rep.evals += 1;
        let line = format!("{}{} -> {}", show_cmd(c), if path != Path::Generic { format!(" [{}]", path.name()) } else { String::new() }, got.show());
        self.rep.log(self.trace, || format!("+{} ms  {}", self.sut.virt, line));
        self.shown.push(line);
        if matches!(&exp, Exp::Err { code: "WRONGTYPE", .. }) { self.rep.probe("wrongtype_expected"); }
        match &exp {
            Exp::Pop { key, n, array } => self.check_spop(c, key, *n, *array, &got, ""),
            Exp::AnyKey => {
                let okk = matches!(&got, R::Bulk(Some(k)) if self.model.db.contains_key(k));
                let ghost = matches!(&got, R::Bulk(Some(k)) if ghosts.contains(k));
                if !okk { self.fail(format!("C01/RANDOMKEY/{}", if ghost { "returns-expired-key" } else { "not-a-live-key" }), format!("RANDOMKEY replied {} but the live keys are {:?}", got.show(), self.model.db.keys().map(|k| String::from_utf8_lossy(k).into_owned()).collect::<Vec<_>>())); }
            }
            Exp::Scan { key, items } => self.check_scan(c, key.clone(), items, got, &ghosts),
            _ => if let Err((aspect, want)) = check_reply(&name, &exp, &got) {
                let stale_can_explain = !matches!(&got, R::Err(e) if !e.starts_with("WRONGTYPE"));
                let as_if_alive = stale_can_explain && ghost_model.map(|mut g| { let e2 = g.exec(c); !matches!(e2, Exp::Pop { .. } | Exp::AnyKey | Exp::Scan { .. } | Exp::NoAuthority(_)) && check_reply(&name, &e2, &got).is_ok() }).unwrap_or(false);
                let plain_key = if let Some(a) = aspect.strip_prefix('!') { format!("C01/{}", a) } else { format!("C01/{}/{}", name, aspect) };
                if as_if_alive && !self.ctx.known(&plain_key) { self.fail(format!("C01/{}/expired-entry-treated-as-live", name), format!("{} replied {} (what Redis replies while the expired key is still alive) but Redis replies {}", show_cmd(c), got.show(), want)); }
                else if let Some(a) = aspect.strip_prefix('!') { self.fail(format!("C01/{}", a), format!("{} replied {} but Redis replies {}{}", show_cmd(c), got.show(), want, if a.starts_with("error-precedence") { " (both errors apply to this input; Redis reports the other one)" } else { "" })); }
                else { self.fail(format!("C01/{}/{}", name, aspect), format!("{}{} replied {} but Redis replies {}", show_cmd(c), tag, got.show(), want)); }
            }
        }
        if self.ended { return; }
        // bookkeeping for the non-triviality rule
        for a in c.iter().skip(1) { if self.created.contains(a) { self.touched_created = true; } }
        for k in self.model.db.keys() { if !self.created.contains(k) { self.created.insert(k.clone()); } }
        self.quiet = self.after_known;
        self.after_known = false;
        self.dump_compare(c, &ghosts);
        self.quiet = false;
        self.after_known = false;
    }

    fn check_spop(&mut self, c: &Cmd, key: &[u8], n: usize, array: bool, got: &R, suffix: &str) {
        let members: BTreeSet<Vec<u8>> = match self.model.db.get(key) { Some(e) => match &e.val { Val::Set(s) => s.clone(), _ => BTreeSet::new() }, None => BTreeSet::new() };
        let popped: Option<Vec<Vec<u8>>> = match (array, got) {
            (false, R::Bulk(Some(m))) => Some(vec![m.clone()]),
            (true, R::Arr(Some(xs))) => xs.iter().map(|x| if let R::Bulk(Some(m)) = x { Some(m.clone()) } else { None }).collect(),
            _ => None,
        };
        let valid = popped.as_ref().map(|p| p.len() == n && p.iter().all(|m| members.contains(m)) && p.iter().collect::<BTreeSet<_>>().len() == p.len()).unwrap_or(false);
        if !valid {
            let aspect = match got { R::Err(e) => format!("rejects-{}", slug_err(e)), _ => "reply-not-distinct-members".to_string() };
            self.fail(format!("C01/SPOP/{}{}", aspect, suffix), format!("{} replied {} but Redis replies {} distinct member(s) of {:?}", show_cmd(c), got.show(), n, members.iter().map(|m| String::from_utf8_lossy(m).into_owned()).collect::<Vec<_>>()));
            return;
        }
        let popped = popped.unwrap();
        self.model.apply_spop(key, &popped);
        if self.model.emptied { self.rep.probe("collection_emptied"); }
        if n < members.len() {
            // The choice was free and depends on the process's hash seeds. Make the run a function of the
            // tape again: put the popped members back and remove the n smallest instead (both through
            // ordinary commands, both checked).
            self.rep.probe("spop_choice_canonicalised");
            let canon: Vec<Vec<u8>> = members.iter().take(n).cloned().collect();
            let mut add = vec![b("SADD"), key.to_vec()]; add.extend(popped.iter().cloned());
            let mut rem = vec![b("SREM"), key.to_vec()]; rem.extend(canon.iter().cloned());
            for cc in [add, rem] {
                let exp = self.model.exec(&cc);
                let Some(g) = self.send(&cc, Path::Generic) else { return };
                if let Err((aspect, want)) = check_reply(&cname(&cc), &exp, &g) { self.fail(format!("C01/{}/{}{}", cname(&cc), aspect, suffix), format!("{} (after SPOP) replied {} but Redis replies {}", show_cmd(&cc), g.show(), want)); return; }
            }
        }
    }

    fn check_scan(&mut self, c: &Cmd, key: Option<Vec<u8>>, items: &[(R, Option<R>)], first: R, ghosts: &BTreeSet<Vec<u8>>) {
        let suffix = "";
        let name = cname(c);
        let cur_idx = if key.is_some() { 2 } else { 1 };
        let pairs = key.is_some();
        let mut seen: BTreeSet<(R, Option<R>)> = BTreeSet::new();
        let mut reply = first;
        let mut pages = 0;
        let mut deleted: Option<Vec<u8>> = None;
        loop {
            pages += 1;
            let (cursor, page) = match &reply { R::Arr(Some(xs)) if xs.len() == 2 => match (&xs[0], &xs[1]) { (R::Bulk(Some(cu)), R::Arr(Some(p))) => (cu.clone(), p.clone()), _ => { let a = exact_aspect(&name, &R::Arr(Some(vec![])), &reply); self.fail(format!("C01/{}/{}{}", name, if reply.is_err() { a } else { "reply-shape".into() }, suffix), format!("{} replied {} which is not [cursor, [items…]]", show_cmd(c), reply.show())); return; } },
                other => { let a = if let R::Err(e) = other { format!("rejects-{}", slug_err(e)) } else { "reply-shape".to_string() }; self.fail(format!("C01/{}/{}{}", name, a, suffix), format!("{} replied {} which is not [cursor, [items…]]", show_cmd(c), other.show())); return; } };
            if pairs { if page.len() % 2 != 0 { self.fail(format!("C01/{}/reply-shape{}", name, suffix), format!("{}: odd number of elements in a page: {}", show_cmd(c), reply.show())); return; } for ch in page.chunks(2) { seen.insert((ch[0].clone(), Some(ch[1].clone()))); } }
            else {
                if let Some(d) = &deleted { if page.iter().any(|x| matches!(x, R::Bulk(Some(k)) if k == d)) { self.fail(format!("C01/{}/page-shows-key-deleted-before-the-page-was-asked-for{}", name, suffix), format!("{}: page {} (cursor {}) shows key {} although DEL removed it after page 1 and before this page was asked for; the page is {}", show_cmd(c), pages, String::from_utf8_lossy(&cursor), crate::model::wire::show_bytes(d), reply.show())); return; } }
                for x in page { seen.insert((x, None)); }
            }
            if cursor == b"0" { break; }
            // a page is computed from the keyspace as it is when the page is asked for: in every other multi-page iteration of the
            // keyspace one key that no page has shown yet is deleted after the first page, and no later page may show it
            if pages == 1 && key.is_none() && deleted.is_none() && (items.len() + seen.len()) % 2 == 0 {
                if let Some(R::Bulk(Some(k))) = items.iter().map(|(a, _)| a.clone()).find(|a| !seen.contains(&(a.clone(), None))) {
                    let del: Cmd = vec![b"DEL".to_vec(), k.clone()];
                    let _ = self.model.exec(&del);
                    let Some(r) = self.send(&del, Path::Generic) else { return };
                    self.rep.log(self.trace, || format!("        {} -> {}   (between two pages)", show_cmd(&del), r.show()));
                    self.rep.probe("scan_key_deleted_between_pages");
                    deleted = Some(k);
                }
            }
            if pages >= 300 { self.fail(format!("C01/{}/iteration-does-not-end{}", name, suffix), format!("{}: cursor still {} after {} pages over {} elements", show_cmd(c), String::from_utf8_lossy(&cursor), pages, items.len())); return; }
            let mut next = c.clone(); next[cur_idx] = cursor;
            let Some(r) = self.send(&next, Path::Generic) else { return };
            self.rep.log(self.trace, || format!("        {} -> {}", show_cmd(&next), r.show()));
            reply = r;
        }
        self.rep.probe("scan_full_iteration");
        if pages > 1 { self.rep.probe("scan_multi_page"); }
        let want: BTreeSet<(R, Option<R>)> = items.iter().filter(|(a, _)| !matches!((a, &deleted), (R::Bulk(Some(k)), Some(d)) if k == d)).cloned().collect();
        if seen != want {
            let missing: Vec<String> = want.difference(&seen).map(|(a, _)| a.show()).collect();
            let extra: Vec<String> = seen.difference(&want).map(|(a, v)| format!("{}{}", a.show(), v.as_ref().map(|x| format!("={}", x.show())).unwrap_or_default())).collect();
            let only_ghosts = missing.is_empty() && key.is_none() && seen.difference(&want).all(|(a, _)| matches!(a, R::Bulk(Some(k)) if ghosts.contains(k)));
            let aspect = if !missing.is_empty() { "iteration-misses-elements" } else if only_ghosts { "iteration-returns-expired-keys" } else { "iteration-returns-foreign-elements" };
            self.fail(format!("C01/{}/{}{}", name, aspect, suffix), format!("full iteration of {} ({} pages): missing {:?}, unexpected {:?}", show_cmd(c), pages, missing, extra));
        }
    }

    /// Visible keyspace through the implementation's own commands vs the model.
    fn dump_compare(&mut self, c: &Cmd, ghosts: &BTreeSet<Vec<u8>>) {
        let suffix = "";
        if self.ended { return; }
        let name = cname(c);
        let Some(keys) = self.send(&mk(&["KEYS", "*"]), Path::Generic) else { return };
        let R::Arr(Some(ks)) = &keys else { self.fail(format!("C01/KEYS/reply-shape{}", suffix), format!("KEYS * replied {}", keys.show())); self.ended = true; return };
        let got: BTreeSet<Vec<u8>> = ks.iter().filter_map(|k| if let R::Bulk(Some(x)) = k { Some(x.clone()) } else { None }).collect();
        let want: BTreeSet<Vec<u8>> = self.model.db.keys().cloned().collect();
        if got.len() != ks.len() { self.fail(format!("C01/{}/keys-lists-duplicates{}", name, suffix), format!("after {}: KEYS * = {}", show_cmd(c), keys.show())); self.ended = true; return; }
        if let Some(k) = got.difference(&want).next() {
            let ty = self.send(&vec![b("TYPE"), k.clone()], Path::Generic).map(|r| r.show()).unwrap_or_default();
            let was_stale = ghosts.contains(k);
            let aspect = if was_stale { "expired-key-visible" } else { "extra-key" };
            self.fail(format!("C01/{}/{}{}", name, aspect, suffix), format!("after {}: key {:?} (TYPE {}) is visible but does not exist in Redis{}", show_cmd(c), String::from_utf8_lossy(k), ty, if was_stale { " (its deadline has passed)" } else { "" }));
            self.ended = true;
            return;
        }
        if let Some(k) = want.difference(&got).next() {
            let suffix = if ghosts.contains(k) { "@stale" } else { "" };
            self.fail(format!("C01/{}/key-missing{}", name, suffix), format!("after {}: key {:?} exists in Redis ({}) but KEYS * does not list it", show_cmd(c), String::from_utf8_lossy(k), model_view(&self.model.db[k].val).1.show()));
            self.ended = true;
            return;
        }
        let entries: Vec<(Vec<u8>, &'static str, R, i64)> = self.model.db.iter().map(|(k, e)| { let (t, v) = model_view(&e.val); (k.clone(), t, v, self.model.pttl(k)) }).collect();
        for (k, wt, wv, wttl) in entries {
            let suffix = if ghosts.contains(&k) { "@stale" } else { "" };
            let Some(ty) = self.send(&vec![b("TYPE"), k.clone()], Path::Generic) else { return };
            if ty != R::Simple(wt.to_string()) { self.fail(format!("C01/{}/type-differs{}", name, suffix), format!("after {}: TYPE {:?} = {} but Redis says {}", show_cmd(c), String::from_utf8_lossy(&k), ty.show(), wt)); self.ended = true; return; }
            let read: Cmd = match wt { "string" => vec![b("GET"), k.clone()], "list" => vec![b("LRANGE"), k.clone(), b("0"), b("-1")], "set" => vec![b("SMEMBERS"), k.clone()], "hash" => vec![b("HGETALL"), k.clone()], _ => vec![b("ZRANGE"), k.clone(), b("0"), b("-1"), b("WITHSCORES")] };
            let Some(v) = self.send(&read, Path::Generic) else { return };
            let v = match wt { "set" => sort_flat(v, false), "hash" => sort_flat(v, true), _ => v };
            if v != wv { self.fail(format!("C01/{}/value-differs-{}{}", name, wt, suffix), format!("after {}: {} = {} but Redis holds {}", show_cmd(c), show_cmd(&read), v.show(), wv.show())); self.ended = true; return; }
            let Some(p) = self.send(&vec![b("PTTL"), k.clone()], Path::Generic) else { return };
            if p != R::Int(wttl) {
                let aspect = match (&p, wttl) { (R::Int(g), -1) if *g >= 0 => "ttl-not-cleared", (R::Int(-1), w) if w >= 0 => "ttl-lost", _ => "ttl-differs" };
                self.fail(format!("C01/{}/{}{}", name, aspect, suffix), format!("after {}: PTTL {:?} = {} but Redis says {}", show_cmd(c), String::from_utf8_lossy(&k), p.show(), wttl));
                if self.ended { return; }
                // known finding: take over the implementation's deadline so that the run can go on
                match p { R::Int(g) if g >= 0 => { if let Some(e) = self.model.db.get_mut(&k) { e.exp = Some(self.model.now + g as u64); } } R::Int(-1) => { if let Some(e) = self.model.db.get_mut(&k) { e.exp = None; } } _ => { self.ended = true; return; } }
                self.after_known = false;
            }
        }
        self.rep.evals += 1;
    }
}

// ------------------------------------------------------------------------------------------
// the property
// ------------------------------------------------------------------------------------------

fn battery(kind: &str, k: &[u8]) -> Vec<Cmd> {
    let k = || k.to_vec();
    let mut v: Vec<Cmd> = vec![vec![b("EXISTS"), k()], vec![b("TYPE"), k()], vec![b("TTL"), k()], vec![b("PTTL"), k()], mk(&["KEYS", "*"]), mk(&["DBSIZE"]), vec![b("MGET"), k()], vec![b("EXPIRETIME"), k()], mk(&["RANDOMKEY"]), mk(&["SCAN", "0"]), vec![b("EXISTS"), k(), k()]];
    match kind {
        "string" => v.extend([vec![b("GET"), k()], vec![b("STRLEN"), k()], vec![b("GETRANGE"), k(), b("0"), b("-1")], vec![b("GETBIT"), k(), b("0")], vec![b("GETEX"), k()]]),
        "list" => v.extend([vec![b("LLEN"), k()], vec![b("LRANGE"), k(), b("0"), b("-1")], vec![b("LINDEX"), k(), b("0")]]),
        "set" => v.extend([vec![b("SCARD"), k()], vec![b("SMEMBERS"), k()], vec![b("SISMEMBER"), k(), b("a")]]),
        "hash" => v.extend([vec![b("HLEN"), k()], vec![b("HGETALL"), k()], vec![b("HKEYS"), k()], vec![b("HVALS"), k()], vec![b("HGET"), k(), b("a")], vec![b("HEXISTS"), k(), b("a")], vec![b("HSCAN"), k(), b("0")]]),
        _ => v.extend([vec![b("ZCARD"), k()], vec![b("ZRANGE"), k(), b("0"), b("-1"), b("WITHSCORES")], vec![b("ZREVRANGE"), k(), b("0"), b("-1")], vec![b("ZSCORE"), k(), b("a")], vec![b("ZRANK"), k(), b("a")], vec![b("ZCOUNT"), k(), b("-inf"), b("+inf")], vec![b("ZRANGEBYSCORE"), k(), b("-inf"), b("+inf")], vec![b("ZSCAN"), k(), b("0")]]),
    }
    v
}

impl Property for C01 {
    fn id(&self) -> &'static str { "C01" }
    fn level(&self) -> &'static str { "exploration" }
    fn rule(&self) -> &'static str {
        "swarm-configured command sequences (<= 40 commands, 1-6 keys, boundary-heavy arguments; strings, counters, bitmaps, keys/expiry incl. NX/XX/GT/LT/KEEPTTL/GET/EXAT/PXAT/PERSIST/GETEX, lists, sets, hashes, sorted sets, SCAN family, multi-key and two-key commands, arity/case mutations) against a real CommandExecutor behind the production parser under clock regime (a) set_time, (b) update_time_readonly + evict ticks, (c) ticks only, and (thorough) a one-shard ShardedActorState with fast/pooled/batch paths; clock advances from {0, 1 ms, random, deadline-1, deadline, deadline+1 of a live key}; after EVERY command: reply vs RefRedis and visible keyspace (KEYS, TYPE, value, PTTL) vs RefRedis; at targeted deadlines a battery of every read command of the key's type. Non-trivial = some command touched a key created by an earlier command AND a clock advance reached a deadline; distinct = fingerprint of (regime, commands, advances, ticks)"
    }
    fn components_real(&self) -> Vec<&'static str> { vec!["redis::Command::from_resp_zero_copy (production parser)", "redis::CommandExecutor::{execute,set_time,update_time_readonly,evict_expired_direct,get_direct,set_direct} and every *_ops implementation", "redis::data::{SDS,RedisList,RedisSet,RedisHash,RedisSortedSet,SkipList}", "T2: production::ShardedActorState<SimClock>::{execute,fast_*,pooled_fast_*,fast_batch_*_pipeline,evict_expired_all_shards} with its ShardActor task"] }
    fn components_stubbed(&self) -> Vec<&'static str> { vec!["no TCP/RESP byte stream: argument vectors enter at Command::from_resp_zero_copy (C04/C15 cover the codec)", "TtlManagerActor -> explicit evict ticks", "TimeSource -> SimClock (T2) / VirtualTime handed to the executor (T1)"] }
    fn assumptions(&self) -> Vec<&'static str> { vec![
        "RefRedis models Redis 7.0/7.2 RESP2 behaviour; where the two differ or Redis is platform dependent the input is not generated: INCRBYFLOAT / scores outside multiples of 1/64 below 1e9 (long double / %.17g text), -0 scores, hex floats, strtod/strtoul leniencies (leading spaces, empty numerals) in score bounds and cursors, ZRANGEBYSCORE LIMIT with negative offset, SETBIT offsets above 2^20",
        "options the code under test does not have in its Command enum are not generated (LPOP/RPOP count, ZADD INCR, ZRANGE BYSCORE/BYLEX/REV/LIMIT, EXPIREAT flags, SCAN TYPE, SORT, OBJECT)",
        "error replies are compared by error code always, by text only for the messages listed in refredis.rs (arity, syntax error, not an integer, not a valid float, WRONGTYPE, no such key, index out of range, invalid expire time, overflow, hash value is not an integer, min or max is not a float, ZADD/EXPIRE option conflicts, offset/bit offset out of range, invalid cursor)",
        "SPOP: any n distinct members; afterwards the harness puts them back and removes the n smallest so the run stays a function of the tape; RANDOMKEY: any live key; SCAN/HSCAN/ZSCAN: full iteration from cursor 0 returns exactly the matching elements (duplicates allowed)",
        "keys and members are valid UTF-8 except one binary member (0xff 0xfe); non-UTF-8 key names are not generated",
        "a run goes on past a disagreement only when its key is listed as an open known finding and the following keyspace comparison shows equal states (known TTL differences are adopted into the model); every other disagreement ends the run",
        "regime (c): commands are not told the time, so the model follows the node's clock (last evict tick); client-visible staleness in that regime is not judged",
        "DBSIZE / KEYS / SCAN are expected not to show a key whose deadline has passed (the property's definition of visibility), although real Redis may count not-yet-collected keys in DBSIZE",
    ] }
    fn required_probes(&self) -> Vec<&'static str> { vec!["probe_at_deadline", "probe_at_deadline_minus_1", "collection_emptied", "command_saw_stale_entry", "scan_full_iteration", "wrongtype_expected"] }
    fn runs(&self, tier: Tier) -> u64 { match tier { Tier::Quick => 600_000, Tier::Thorough => 10_000_000 } }

    fn run(&self, src: &mut Src, ctx: &RunCtx) -> RunReport {
        let thorough = ctx.tier == Tier::Thorough;
        let mode = [Mode::SetTime, Mode::Readonly, Mode::NodeClock, Mode::Sharded, Mode::Replicated][src.weighted(&if thorough { [5, 6, 1, 2, 2] } else { [20, 24, 4, 1, 1] })];
        let epoch_ms = BASE_EPOCH_MS + [0u64, 1, 500, 999][src.idx(4)];
        let seed = src.u64_any();
        // (the replicated node has 16 shards; it splits MSET/MGET/DEL/EXISTS per key and routes every other command by its
        // first key, so a two-key command whose keys live on different shards is the recorded finding)
        let mut g = GenCfg::swarm(src, ALL_FAMS, if mode == Mode::Replicated { 3 } else { 6 });
        let fams = g.fams.clone();
        let mut run = Run { sut: Sut::new(mode, epoch_ms, seed), model: RefRedis::new(epoch_ms), rep: RunReport::default(), trace: ctx.trace, ctx, stale: BTreeMap::new(), created: BTreeSet::new(), touched_created: false, crossed_deadline: false, ended: false, steps: 0, fp: fnv(0, &[mode as u8, (epoch_ms % 1000 / 4) as u8]), shown: Vec::new(), cur: None, cur_strval: None, quiet: false, cur_zinf: false, two_key_seen: false, after_known: false };
        run.rep.log(ctx.trace, || format!("mode {}  epoch {} ms  families {:?}  keys {:?}", mode.name(), epoch_ms, fams, g.keys.iter().map(|k| String::from_utf8_lossy(k).into_owned()).collect::<Vec<_>>()));
        run.rep.probe(match mode { Mode::SetTime => "mode_set_time", Mode::Readonly => "mode_readonly_ticks", Mode::NodeClock => "mode_ticks_only", Mode::Sharded => "mode_sharded", Mode::Replicated => "mode_replicated_node" });
        let mut ncmd = 0;
        let mut sample_cmds: Vec<String> = Vec::new();
        // manual triage aid (never set by the check itself): VERIF_C01_SCRIPT="RPUSH k0 a|+1500|TICK|GET k0"
        if let Ok(script) = std::env::var("VERIF_C01_SCRIPT") {
            for part in script.split('|') {
                let part = part.trim();
                if let Some(ms) = part.strip_prefix('+') { run.sut.advance(ms.parse().unwrap_or(0)); continue; }
                if part == "TICK" { run.tick(); continue; }
                let c: Cmd = part.split(' ').map(|w| if w == "\"\"" { Vec::new() } else { w.as_bytes().to_vec() }).collect();
                let exp = run.model.clone().exec(&c);
                run.step(&c, Path::Generic, "");
                println!("{:>40} | redis: {:?}", run.shown.last().cloned().unwrap_or_default(), exp);
            }
            for v in &run.rep.violations { println!("  !! {} {}", v.key, v.msg); }
            run.ended = true;
        }
        while ncmd < 40 && !run.ended {
            src.begin();
            if !src.more(29, 30) { src.end(); break; }
            // ---- clock
            let adv_kind = src.weighted(&[8, 1, 2, 2, 2, 2, 2]);
            let with_dl: Vec<(Vec<u8>, u64, &'static str)> = run.model.db.iter().filter_map(|(k, e)| e.exp.map(|d| (k.clone(), d, e.val.type_name()))).collect();
            let mut target: Option<(Vec<u8>, &'static str, i64)> = None;
            let adv: u64 = match adv_kind {
                0 => 0, 1 => 1, 2 => 1 + src.below(2500), 3 => [999u64, 1000, 1500, 10_000, 100_000][src.idx(5)],
                k => {
                    let pick = src.below(8);
                    if with_dl.is_empty() { 0 } else {
                        let (key, d, ty) = with_dl[(pick as usize) % with_dl.len()].clone();
                        let off = k as i64 - 5; // -1, 0, +1
                        let t = d as i64 + off;
                        let now = if mode == Mode::NodeClock { run.sut.now_abs() as i64 } else { run.model.now as i64 };
                        if t >= now { target = Some((key, ty, off)); (t - now) as u64 } else { 0 }
                    }
                }
            };
            if adv > 0 { run.sut.advance(adv); run.rep.sim_ms += adv; run.fp = fnv(run.fp, &adv.to_le_bytes()); run.rep.log(ctx.trace, || format!("clock +{} ms (now +{} ms)", adv, run.sut.virt)); }
            let tick = mode != Mode::SetTime && (src.chance(1, 4) || (mode == Mode::NodeClock && target.is_some()));
            if tick { run.tick(); run.fp = fnv(run.fp, &[0xEE]); }
            // ---- deadline battery
            if let Some((key, ty, off)) = target.clone() {
                let do_battery = src.chance(1, 2);
                let rot = src.below(32) as usize;
                let fastp = [Path::Generic, Path::Fast, Path::Pooled, Path::Batch][src.idx(4)];
                if do_battery {
                    let tag = match off { -1 => "@deadline-1", 0 => "@deadline", _ => "@deadline+1" };
                    run.rep.probe(match off { -1 => "probe_at_deadline_minus_1", 0 => "probe_at_deadline", _ => "probe_at_deadline_plus_1" });
                    run.rep.log(ctx.trace, || format!("-- read battery on {:?} ({}) at deadline{:+}", String::from_utf8_lossy(&key), ty, off));
                    let bat = battery(ty, &key);
                    for i in 0..bat.len() {
                        let c = &bat[(i + rot) % bat.len()];
                        let path = if mode == Mode::Sharded && cname(c) == "GET" { fastp } else { Path::Generic };
                        run.step(c, path, tag);
                        if run.ended { break; }
                    }
                    run.crossed_deadline = true;
                    run.fp = fnv(run.fp, &[0xBA, (off + 1) as u8, rot as u8]);
                }
            }
            if run.ended { src.end(); break; }
            // ---- the command
            let mut c = if src.chance(1, 5) { gen_extra(src, &mut g, &run.model) } else { gen_cmd(src, &mut g) };
            let path = if mode == Mode::Sharded { [Path::Generic, Path::Fast, Path::Pooled, Path::Batch][src.idx(4)] } else { Path::Generic };
            src.end();
            if mode == Mode::Replicated {
                // the replicated node knows key commands and a handful of keyless ones; anything else keyless is not its
                // vocabulary (it answers 'unknown command'), so a read of the key stands in
                let keyless_ok = matches!(cname(&c).as_str(), "KEYS" | "DBSIZE" | "FLUSHDB" | "FLUSHALL" | "MSET" | "MGET" | "EXISTS" | "PING");
                let has_key = parse_cmd(&c).ok().map(|pc| pc.get_primary_key().is_some());
                if has_key == Some(false) && !keyless_ok { c = vec![b("GET"), g.keys[0].clone()]; }
            }
            // the model must be at the right instant before it is asked about authority
            run.sync_model_clock();
            if let Exp::NoAuthority(why) = run.model.clone_probe(&c) {
                run.rep.probe("no_authority_replaced");
                run.rep.log(ctx.trace, || format!("(not sent: {} — {})", show_cmd(&c), why));
                c = vec![b("TYPE"), if c.len() > 1 { c[1].clone() } else { b("k0") }];
            }
            for a in &c { run.fp = fnv(run.fp, a); run.fp = fnv(run.fp, &[0]); }
            run.fp = fnv(run.fp, &[path as u8]);
            if sample_cmds.len() < 12 { sample_cmds.push(format!("{}{}", if adv > 0 { format!("+{}ms ", adv) } else { String::new() }, show_cmd(&c))); }
            run.step(&c, path, "");
            ncmd += 1;
        }
        if ncmd >= 40 { run.rep.probe("run_reached_40_commands"); }
        if run.ended { run.rep.probe("run_ended_at_a_disagreement"); }
        run.rep.probe_n("commands_executed", ncmd as u64);
        let mut rep = std::mem::take(&mut run.rep);
        rep.steps = run.steps;
        rep.evals = rep.evals.max(1);
        rep.nontrivial = run.touched_created && run.crossed_deadline;
        rep.fingerprint = run.fp;
        rep.sample = Some(json!({"mode": mode.name(), "epoch_ms": epoch_ms, "families": fams.iter().map(|f| format!("{:?}", f)).collect::<Vec<_>>(), "commands": sample_cmds}));
        let _ = (Fam::Str, BTreeMap::<u8, u8>::new());
        drop(run);
        rep
    }
}
