//! C15 — RESP decoding is total, bounded, prefix-stable; replies re-decode to themselves.
//!
//! Real code: `RespCodec::parse` on a `BytesMut` that is filled piecewise exactly as the connection
//! handler fills it, `RespParser::parse`, the encoders `RespParser::encode` / `RespCodec::encode`,
//! and (through hook H1) the production connection handler with its private `encode_resp_into`
//! on an in-memory `SimStream`.
//!
//! Inputs. (gen) valid streams of 1-4 frames subjected to transport faults: EOF at every offset,
//! every fragmentation into <= 3 pieces (short streams) / every 2-piece split + tape-drawn multi-cuts,
//! every length field replaced by a list of hostile texts, byte substitutions from the grammar
//! alphabet and single-bit flips; (explicit) one byte string of <= 40 bytes given cell by cell on
//! the tape (random, grammar-biased alphabets; also the target of minimised replays); (sweep) every
//! string over `* $ + - : 0 1 9 CR LF a` up to length 6 (quick) / 7 (thorough) - plain input
//! enumeration, scheduled once per batch through `derive` and counted separately; (enc) value
//! trees and the replies a real `CommandExecutor` gives to generated commands, through both public
//! encoders; (handler) command streams, optionally with a malformed tail, through the real handler.
//!
//! Oracle = the reference RESP2 grammar `rparse` below. It classifies the front of an input as
//!   Frame{n, value, strict}  a frame occupies exactly the first n bytes. strict = canonical RESP2
//!                            (what an encoder emits); otherwise it is a frame only under the
//!                            lenient reading the repo's own decoders implement (numbers as
//!                            `str::parse::<i64>` reads them, line ends at the first CR LF pair,
//!                            bulk payload followed by any two bytes);
//!   Invalid                  a CR LF terminated header (or a type byte) that no reading accepts;
//!   Incomplete{must_wait}    undecided. must_wait = the bytes are a proper prefix of a strict frame
//!                            whose declared lengths are small (<= 64 KiB bulk, <= 1024 elements).
//! Claims, per decoder call / per feed:
//!   * never a panic, never consumed > available, never a zero-length frame, "need more" leaves the
//!     buffer untouched;
//!   * peak live heap during the call <= 64 x input_len + 4 KiB (only when `CountingAlloc` is the
//!     global allocator). A sound decoder needs up to 40 x: one 40-byte slot per input byte if it
//!     caps `with_capacity` by the bytes present, or 27 x from Vec doubling over 3-byte frames;
//!   * strict frames are returned exactly (value and byte count);
//!   * must_wait prefixes give "need more" (streaming codec) / an error (one-shot parser), never a value;
//!   * "need more" is never the answer when the grammar has decided the front of the buffer (Frame,
//!     strict or lenient, or Invalid): every byte a decision can depend on is already there, so
//!     the decoder would wait forever. On lenient frames and invalid input a value *or* an error
//!     is accepted - the property does not say which inputs must be rejected;
//!   * feeding a buffer in pieces yields the same frames, the same end state and the same residue
//!     as feeding it whole (self-consistency, independent of the grammar);
//!   * every emitted value decodes to itself under each encoder.

use crate::simkit::rt;
use crate::simkit::runner::{Property, RunCtx, RunReport, Tier};
use crate::simkit::tape::{fnv, mix, Src};
use bytes::{Bytes, BytesMut};
use redis_sim::production::{verif_hooks, ConnectionConfig, ShardedActorState};
use redis_sim::redis::{Command, CommandExecutor, RespCodec, RespParser, RespValue, RespValueZeroCopy};
use serde_json::json;
use std::alloc::{GlobalAlloc, Layout, System};
use std::borrow::Cow;
use std::cell::{Cell, RefCell};
use std::collections::{BTreeMap, BTreeSet, VecDeque};
use std::panic::{catch_unwind, AssertUnwindSafe};
use std::pin::Pin;
use std::rc::Rc;
use std::task::{Context, Poll};

pub struct C15;

// =====================================================================================
// Counting allocator (install with `#[global_allocator] static A: CountingAlloc = CountingAlloc;`)
// =====================================================================================

/// Delegates to `System`; while a scope is armed on the current thread it tracks live bytes
/// relative to the arming instant and records (never aborts) when they exceed the budget.
pub struct CountingAlloc;

struct AllocTl {
    armed: Cell<bool>,
    live: Cell<isize>,
    peak: Cell<isize>,
    gross: Cell<u64>,
    calls: Cell<u64>,
    largest: Cell<usize>,
    budget: Cell<isize>,
    over: Cell<bool>,
}
thread_local! {
    static ATL: AllocTl = const { AllocTl {
        armed: Cell::new(false), live: Cell::new(0), peak: Cell::new(0), gross: Cell::new(0), calls: Cell::new(0),
        largest: Cell::new(0), budget: Cell::new(isize::MAX), over: Cell::new(false),
    } };
}

#[inline]
fn note_alloc(sz: usize) {
    let _ = ATL.try_with(|a| {
        if !a.armed.get() { return; }
        a.calls.set(a.calls.get() + 1);
        a.gross.set(a.gross.get().saturating_add(sz as u64));
        if sz > a.largest.get() { a.largest.set(sz); }
        let l = a.live.get().saturating_add(sz as isize);
        a.live.set(l);
        if l > a.peak.get() { a.peak.set(l); }
        if l > a.budget.get() { a.over.set(true); }
    });
}
#[inline]
fn note_free(sz: usize) {
    let _ = ATL.try_with(|a| { if a.armed.get() { a.live.set(a.live.get().saturating_sub(sz as isize)); } });
}

unsafe impl GlobalAlloc for CountingAlloc {
    unsafe fn alloc(&self, l: Layout) -> *mut u8 { note_alloc(l.size()); System.alloc(l) }
    unsafe fn alloc_zeroed(&self, l: Layout) -> *mut u8 { note_alloc(l.size()); System.alloc_zeroed(l) }
    unsafe fn dealloc(&self, p: *mut u8, l: Layout) { note_free(l.size()); System.dealloc(p, l) }
    unsafe fn realloc(&self, p: *mut u8, l: Layout, new: usize) -> *mut u8 {
        if new >= l.size() { note_alloc(new - l.size()); } else { note_free(l.size() - new); }
        System.realloc(p, l, new)
    }
}

#[derive(Clone, Copy, Default, Debug)]
pub struct AllocStat { pub peak: usize, pub gross: u64, pub calls: u64, pub largest: usize, pub over: bool }

pub fn alloc_arm(budget: usize) {
    ATL.with(|a| {
        a.live.set(0); a.peak.set(0); a.gross.set(0); a.calls.set(0); a.largest.set(0); a.over.set(false);
        a.budget.set(budget.min(isize::MAX as usize) as isize);
        a.armed.set(true);
    });
}
pub fn alloc_disarm() -> AllocStat {
    ATL.with(|a| {
        a.armed.set(false);
        AllocStat { peak: a.peak.get().max(0) as usize, gross: a.gross.get(), calls: a.calls.get(), largest: a.largest.get(), over: a.over.get() }
    })
}
/// True iff `CountingAlloc` is this process's global allocator (probe allocation).
pub fn alloc_installed() -> bool {
    alloc_arm(usize::MAX);
    let v: Vec<u8> = Vec::with_capacity(4099);
    std::hint::black_box(&v);
    let st = alloc_disarm();
    drop(v);
    st.calls > 0 && st.gross >= 4099
}

/// Harness-side failure: must not be mistaken for a panic of the code under test (the runner keys
/// on the panic location, and this file's location looks like "src/..."), so no panic hook runs.
fn harness_fail(msg: String) -> ! {
    eprintln!("{}", msg);
    std::panic::resume_unwind(Box::new(msg))
}

/// Panic message with every run of digits replaced by N, as a key component.
fn slug_msg(m: &str) -> String {
    let mut o = String::new();
    let mut last_n = false;
    for c in m.chars().take(80) {
        if c.is_ascii_digit() { if !last_n { o.push('N'); last_n = true; } continue; }
        last_n = false;
        if c.is_ascii_alphanumeric() { o.push(c.to_ascii_lowercase()); } else if !o.ends_with('-') { o.push('-'); }
    }
    o.trim_matches('-').to_string()
}

fn budget_for(len: usize) -> usize { 64 * len + 4096 }

fn panic_msg(p: Box<dyn std::any::Any + Send>) -> String {
    if let Some(s) = p.downcast_ref::<&str>() { s.to_string() } else if let Some(s) = p.downcast_ref::<String>() { s.clone() } else { "panic".into() }
}

fn guarded<T>(enforced: bool, budget: usize, f: impl FnOnce() -> T) -> (Result<T, String>, AllocStat) {
    if enforced { alloc_arm(budget); }
    let r = catch_unwind(AssertUnwindSafe(f));
    let st = if enforced { alloc_disarm() } else { AllocStat::default() };
    (r.map_err(panic_msg), st)
}

// =====================================================================================
// Reference values, encoder, grammar
// =====================================================================================

#[derive(Clone, Debug, PartialEq, Eq)]
pub enum V { Simple(Vec<u8>), Error(Vec<u8>), Int(i64), Bulk(Option<Vec<u8>>), Array(Option<Vec<V>>) }

/// Canonical RESP2 encoding; `fields` receives (start, end, type byte) of every number text.
fn enc(v: &V, out: &mut Vec<u8>, fields: &mut Vec<(usize, usize, u8)>) {
    let mut num = |out: &mut Vec<u8>, t: u8, n: i64| { out.push(t); let s = out.len(); out.extend_from_slice(n.to_string().as_bytes()); fields.push((s, out.len(), t)); out.extend_from_slice(b"\r\n"); };
    match v {
        V::Simple(s) => { out.push(b'+'); out.extend_from_slice(s); out.extend_from_slice(b"\r\n"); }
        V::Error(s) => { out.push(b'-'); out.extend_from_slice(s); out.extend_from_slice(b"\r\n"); }
        V::Int(n) => num(out, b':', *n),
        V::Bulk(None) => num(out, b'$', -1),
        V::Bulk(Some(d)) => { num(out, b'$', d.len() as i64); out.extend_from_slice(d); out.extend_from_slice(b"\r\n"); }
        V::Array(None) => num(out, b'*', -1),
        V::Array(Some(xs)) => { num(out, b'*', xs.len() as i64); for x in xs { enc(x, out, fields); } }
    }
}

const BULK_MUST_ACCEPT: u64 = 64 * 1024;
const ARRAY_MUST_ACCEPT: u64 = 1024;
/// Nesting up to which a canonical frame must be accepted; deeper ones may also be refused with an error.
const MUST_ACCEPT_DEPTH: usize = 8;

enum R { Frame { n: usize, v: V, strict: bool }, Invalid, Incomplete { must_wait: bool } }

/// Everything non-canonical the grammar saw, in parse order: (what, absolute start and end of the
/// header line it was seen in). `depth` = deepest array nesting entered.
struct RefCx { notes: Vec<(&'static str, usize, usize)>, depth: usize }
impl RefCx { fn note(&mut self, a: &'static str, start: usize, end: usize) { if self.notes.len() < 8 { self.notes.push((a, start, end)); } } }

fn find_crlf(b: &[u8]) -> Option<usize> { (0..b.len().saturating_sub(1)).find(|&i| b[i] == b'\r' && b[i + 1] == b'\n') }

enum Num { Canon(i64), Lenient(i64), Bad }
/// Canon: exactly what `i64::to_string` prints. Lenient: anything else `str::parse::<i64>` reads
/// ("+5", "007", "-0": the number syntax of both decoders). Bad: the rest.
fn num(text: &[u8]) -> Num {
    match std::str::from_utf8(text).ok().and_then(|s| s.parse::<i64>().ok()) {
        None => Num::Bad,
        Some(n) => if n.to_string().as_bytes() == text { Num::Canon(n) } else { Num::Lenient(n) },
    }
}
/// Is `text` (an unterminated header line, possibly ending in the CR of its CR LF) a prefix of a canonical number?
fn num_prefix_ok(text: &[u8], is_len: bool) -> bool {
    let t = if text.last() == Some(&b'\r') { &text[..text.len() - 1] } else { text };
    if t.is_empty() { return text.is_empty(); } // a CR directly after the type byte completes nothing
    if t == b"-" { return text.len() == 1; }
    match num(t) { Num::Canon(n) => !is_len || n >= -1, _ => false }
}
fn line_prefix_ok(text: &[u8]) -> bool {
    let t = if text.last() == Some(&b'\r') { &text[..text.len() - 1] } else { text };
    !t.iter().any(|c| *c == b'\r' || *c == b'\n')
}

/// The reference grammar. Looks only at the first frame of `b`.
fn rparse(b: &[u8], cx: &mut RefCx, base: usize, depth: usize) -> R {
    if depth > cx.depth { cx.depth = depth; }
    if b.is_empty() { return R::Incomplete { must_wait: true }; }
    let t = b[0];
    if !matches!(t, b'+' | b'-' | b':' | b'$' | b'*') { cx.note("unknown-type-byte", base, base + 1); return R::Invalid; }
    let Some(p) = find_crlf(b) else {
        let text = &b[1..];
        let ok = match t { b'+' | b'-' => line_prefix_ok(text), b':' => num_prefix_ok(text, false), _ => num_prefix_ok(text, true) };
        if !ok { cx.note(if text.contains(&b'\r') && !line_prefix_ok(text) { "open-line-has-cr-without-lf" } else { "open-line-not-a-strict-prefix" }, base, base + b.len()); }
        return R::Incomplete { must_wait: ok };
    };
    let text = &b[1..p];
    // a CR that is not the start of the terminating CR LF: named first, whatever the type, because
    // it is what a decoder that inspects only the first CR trips over
    if text.contains(&b'\r') { cx.note("cr-inside-line", base, base + p + 2); }
    match t {
        b'+' | b'-' => {
            let strict = !text.iter().any(|c| *c == b'\r' || *c == b'\n');
            if !strict { cx.note("lf-inside-line", base, base + p + 2); }
            R::Frame { n: p + 2, v: if t == b'+' { V::Simple(text.to_vec()) } else { V::Error(text.to_vec()) }, strict }
        }
        b':' => match num(text) {
            Num::Canon(n) => R::Frame { n: p + 2, v: V::Int(n), strict: true },
            Num::Lenient(n) => { cx.note("integer-not-canonical", base, base + p + 2); R::Frame { n: p + 2, v: V::Int(n), strict: false } }
            Num::Bad => { cx.note("integer-unparsable", base, base + p + 2); R::Invalid }
        },
        b'$' => {
            let (len, mut strict) = match num(text) {
                Num::Canon(n) => (n, true),
                Num::Lenient(n) => (n, false),
                Num::Bad => { cx.note("bulk-len-unparsable", base, base + p + 2); return R::Invalid; }
            };
            if len < -1 { cx.note("bulk-len-below-minus-1", base, base + p + 2); return R::Invalid; }
            if !strict { cx.note("bulk-len-not-canonical", base, base + p + 2); }
            if len == -1 { return R::Frame { n: p + 2, v: V::Bulk(None), strict }; }
            let len = len as u64;
            let start = p + 2;
            let have = (b.len() - start) as u64;
            if have < len.saturating_add(2) {
                if len > BULK_MUST_ACCEPT { cx.note("bulk-len-beyond-must-accept", base, base + p + 2); }
                return R::Incomplete { must_wait: strict && len <= BULK_MUST_ACCEPT };
            }
            let end = start + len as usize;
            if &b[end..end + 2] != b"\r\n" { cx.note("bulk-not-terminated-by-crlf", base, base + p + 2); strict = false; }
            R::Frame { n: end + 2, v: V::Bulk(Some(b[start..end].to_vec())), strict }
        }
        _ => {
            let (len, mut strict) = match num(text) {
                Num::Canon(n) => (n, true),
                Num::Lenient(n) => (n, false),
                Num::Bad => { cx.note("array-len-unparsable", base, base + p + 2); return R::Invalid; }
            };
            if len < -1 { cx.note("array-len-negative", base, base + p + 2); return R::Invalid; }
            if !strict { cx.note("array-len-not-canonical", base, base + p + 2); }
            if len == -1 { return R::Frame { n: p + 2, v: V::Array(None), strict }; }
            let cnt = len as u64;
            let mut off = p + 2;
            // every element takes >= 3 bytes: a count above the bytes present cannot be met by this input
            if cnt > (b.len() - off) as u64 { cx.note("array-len-exceeds-input", base, base + p + 2); }
            let small = cnt <= ARRAY_MUST_ACCEPT;
            let mut items = Vec::new();
            let mut i = 0u64;
            while i < cnt {
                if off >= b.len() { return R::Incomplete { must_wait: strict && small }; }
                match rparse(&b[off..], cx, base + off, depth + 1) {
                    R::Frame { n, v, strict: s } => { items.push(v); off += n; strict &= s; }
                    R::Invalid => return R::Invalid,
                    R::Incomplete { must_wait } => return R::Incomplete { must_wait: must_wait && strict && small },
                }
                i += 1;
            }
            R::Frame { n: off, v: V::Array(Some(items)), strict }
        }
    }
}

/// How specific a note is as the cause of a decoder failure: hostile lengths and a CR inside a
/// header line first, unreadable headers next, merely non-canonical spellings last.
fn rank(a: &str) -> u8 {
    match a {
        "none" => 0,
        "bulk-len-below-minus-1" | "array-len-negative" | "array-len-exceeds-input" | "bulk-len-beyond-must-accept" | "cr-inside-line" => 3,
        "unknown-type-byte" | "integer-unparsable" | "bulk-len-unparsable" | "array-len-unparsable" => 2,
        _ => 1,
    }
}

#[derive(Debug, Clone, Copy, PartialEq, Eq)]
enum Tail { Clean, Incomplete { must_wait: bool }, Lenient, Invalid }
struct RefStream { frames: Vec<(V, usize)>, tail: Tail, anomaly: &'static str, notes: Vec<(&'static str, usize, usize)>, deep: bool }

/// Strict frames from the front of `b`, then what the grammar says about the rest.
fn ref_stream(b: &[u8]) -> RefStream {
    let mut cx = RefCx { notes: Vec::new(), depth: 0 };
    let mut frames = Vec::new();
    let mut off = 0;
    let mut deep = false;
    let tail = loop {
        if off == b.len() { break Tail::Clean; }
        cx.depth = 0;
        let r = rparse(&b[off..], &mut cx, off, 0);
        if cx.depth > MUST_ACCEPT_DEPTH { deep = true; }
        match r {
            R::Frame { n, v, strict: true } => { off += n; frames.push((v, off)); }
            R::Frame { strict: false, .. } => break Tail::Lenient,
            R::Invalid => break Tail::Invalid,
            R::Incomplete { must_wait } => break Tail::Incomplete { must_wait },
        }
    };
    // default label: the gravest note, the earliest among equals
    let mut anomaly = "none";
    for n in &cx.notes { if rank(n.0) > rank(anomaly) { anomaly = n.0; } }
    RefStream { frames, tail, anomaly, notes: cx.notes, deep }
}

/// Inputs the harness must not hand to the decoders at all, because the outcome could not be
/// observed in-process: (a) with an array count in (2^20, 2^62) a decoder that reserves
/// `Vec::with_capacity(count)` unchecked (this tree did until 0598191) asks the OS for 40 MB..184 EB, which either succeeds lazily or aborts the process; (b) unbounded
/// recursion on deep nesting overflows the stack (abort). Both are scanned for textually, at
/// every `*`, so the guard does not depend on how a decoder walks the input.
fn dangerous(b: &[u8]) -> Option<&'static str> {
    let mut stars = 0usize;
    for i in 0..b.len() {
        if b[i] != b'*' { continue; }
        stars += 1;
        let mut j = i + 1;
        if j < b.len() && (b[j] == b'+') { j += 1; }
        let mut n: u128 = 0;
        let mut digits = 0;
        while j < b.len() && b[j].is_ascii_digit() { n = n.saturating_mul(10).saturating_add((b[j] - b'0') as u128); j += 1; digits += 1; }
        if digits > 0 && n > (1u128 << 20) && n < (1u128 << 62) { return Some("array_len_2p20_to_2p62"); }
    }
    if stars > 256 { return Some("more_than_256_stars"); }
    None
}

fn vz_to_v(x: &RespValueZeroCopy) -> V {
    match x {
        RespValueZeroCopy::SimpleString(s) => V::Simple(s.to_vec()),
        RespValueZeroCopy::Error(s) => V::Error(s.to_vec()),
        RespValueZeroCopy::Integer(n) => V::Int(*n),
        RespValueZeroCopy::BulkString(d) => V::Bulk(d.as_ref().map(|d| d.to_vec())),
        RespValueZeroCopy::Array(a) => V::Array(a.as_ref().map(|xs| xs.iter().map(vz_to_v).collect())),
    }
}
fn rv_to_v(x: &RespValue) -> V {
    match x {
        RespValue::SimpleString(s) => V::Simple(s.as_bytes().to_vec()),
        RespValue::Error(s) => V::Error(s.as_bytes().to_vec()),
        RespValue::Integer(n) => V::Int(*n),
        RespValue::BulkString(d) => V::Bulk(d.clone()),
        RespValue::Array(a) => V::Array(a.as_ref().map(|xs| xs.iter().map(rv_to_v).collect())),
    }
}
fn v_to_vz(v: &V) -> RespValueZeroCopy {
    match v {
        V::Simple(s) => RespValueZeroCopy::SimpleString(Bytes::copy_from_slice(s)),
        V::Error(s) => RespValueZeroCopy::Error(Bytes::copy_from_slice(s)),
        V::Int(n) => RespValueZeroCopy::Integer(*n),
        V::Bulk(d) => RespValueZeroCopy::BulkString(d.as_ref().map(|d| Bytes::copy_from_slice(d))),
        V::Array(a) => RespValueZeroCopy::Array(a.as_ref().map(|xs| xs.iter().map(v_to_vz).collect())),
    }
}
/// `None` if a line value is not UTF-8 (RespValue holds text as `str`).
fn v_to_rv(v: &V) -> Option<RespValue> {
    Some(match v {
        V::Simple(s) => RespValue::SimpleString(Cow::Owned(String::from_utf8(s.clone()).ok()?)),
        V::Error(s) => RespValue::Error(Cow::Owned(String::from_utf8(s.clone()).ok()?)),
        V::Int(n) => RespValue::Integer(*n),
        V::Bulk(d) => RespValue::BulkString(d.clone()),
        V::Array(None) => RespValue::Array(None),
        V::Array(Some(xs)) => { let mut o = Vec::new(); for x in xs { o.push(v_to_rv(x)?); } RespValue::Array(Some(o)) }
    })
}
/// What a decoder that stores line text as `String` (lossy UTF-8) makes of `v`.
fn lossy(v: &V) -> V {
    match v {
        V::Simple(s) => V::Simple(String::from_utf8_lossy(s).into_owned().into_bytes()),
        V::Error(s) => V::Error(String::from_utf8_lossy(s).into_owned().into_bytes()),
        V::Array(Some(xs)) => V::Array(Some(xs.iter().map(lossy).collect())),
        o => o.clone(),
    }
}
fn same_modulo_line_breaks(a: &V, b: &V) -> bool {
    match (a, b) {
        (V::Simple(x), V::Simple(y)) | (V::Error(x), V::Error(y)) => x == y || line_text_sanitised(x, y),
        (V::Array(Some(xs)), V::Array(Some(ys))) => xs.len() == ys.len() && xs.iter().zip(ys).all(|(p, q)| same_modulo_line_breaks(p, q)),
        _ => a == b,
    }
}
/// `got` is `orig` with its CR/LF bytes removed, replaced or escaped (an encoder that sanitises).
fn line_text_sanitised(orig: &[u8], got: &[u8]) -> bool {
    let brk = |c: &u8| *c == b'\r' || *c == b'\n';
    if !orig.iter().any(brk) || got.iter().any(brk) || got.len() > 2 * orig.len() { return false; }
    let mut it = got.iter();
    orig.iter().filter(|c| !brk(c)).all(|c| it.any(|g| g == c))
}
/// First line value (simple string / error) that contains CR or LF, as ("simple"|"error").
fn line_break_in(v: &V) -> Option<&'static str> {
    match v {
        V::Simple(s) if s.iter().any(|c| *c == b'\r' || *c == b'\n') => Some("simple"),
        V::Error(s) if s.iter().any(|c| *c == b'\r' || *c == b'\n') => Some("error"),
        V::Array(Some(xs)) => xs.iter().find_map(line_break_in),
        _ => None,
    }
}

fn show(b: &[u8]) -> String {
    let mut s = String::new();
    for (i, c) in b.iter().enumerate() {
        if i >= 160 { s.push_str(&format!("…(+{} bytes)", b.len() - i)); break; }
        match *c { b'\r' => s.push_str("\\r"), b'\n' => s.push_str("\\n"), b'\\' => s.push_str("\\\\"), 0x20..=0x7e => s.push(*c as char), o => s.push_str(&format!("\\x{:02x}", o)) }
    }
    format!("\"{}\" ({} bytes)", s, b.len())
}
fn show_v(v: &V) -> String {
    match v {
        V::Simple(s) => format!("+{}", show(s)), V::Error(s) => format!("-{}", show(s)), V::Int(n) => format!(":{}", n),
        V::Bulk(None) => "$nil".into(), V::Bulk(Some(d)) => format!("${}", show(d)), V::Array(None) => "*nil".into(),
        V::Array(Some(xs)) => { let inner: Vec<String> = xs.iter().take(6).map(show_v).collect(); format!("*{}[{}{}]", xs.len(), inner.join(","), if xs.len() > 6 { ",…" } else { "" }) }
    }
}

// =====================================================================================
// Driving the real decoders
// =====================================================================================

#[derive(Debug, Clone, PartialEq)]
enum End { NeedMore { residual: usize }, Error(String), Panic(String), Bad(&'static str, String) }
impl End { fn kind(&self) -> &'static str { match self { End::NeedMore { .. } => "need-more", End::Error(_) => "error", End::Panic(_) => "panic", End::Bad(k, _) => k } } }
struct Drive { frames: Vec<(V, usize)>, end: End, alloc: AllocStat }

/// Feed `b` into one `BytesMut` in the pieces given by `cuts` (ascending offsets), draining complete
/// frames after every piece exactly as the connection handler's read loop does. Stops at the first error.
fn drive_codec(b: &[u8], cuts: &[usize], enforced: bool) -> Drive {
    let mut buf = BytesMut::with_capacity(b.len() + 8);
    let mut raw: Vec<(RespValueZeroCopy, usize)> = Vec::with_capacity(b.len() / 3 + 2);
    let (r, alloc) = guarded(enforced, budget_for(b.len()), || {
        let mut prev = 0usize;
        let mut consumed = 0usize;
        let mut k = 0usize;
        loop {
            let next = if k < cuts.len() { cuts[k].min(b.len()) } else { b.len() };
            buf.extend_from_slice(&b[prev..next]);
            prev = next;
            let mut guard = 0usize;
            loop {
                let before = buf.len();
                match RespCodec::parse(&mut buf) {
                    Ok(Some(v)) => {
                        let used = before - buf.len();
                        if used == 0 { return End::Bad("zero-length-frame", format!("a value was returned with 0 bytes consumed at offset {}", consumed)); }
                        consumed += used;
                        raw.push((v, consumed));
                        guard += 1;
                        if guard > b.len() + 2 { return End::Bad("zero-length-frame", "more frames than bytes".into()); }
                    }
                    Ok(None) => {
                        if buf.len() != before { return End::Bad("need-more-consumed-bytes", format!("need-more changed the buffer from {} to {} bytes", before, buf.len())); }
                        break;
                    }
                    Err(e) => return End::Error(e),
                }
            }
            if k >= cuts.len() { break; }
            k += 1;
        }
        End::NeedMore { residual: buf.len() }
    });
    let end = match r {
        Ok(e) => e,
        Err(m) => if m.contains("advance past") || m.contains("out of bounds") && m.contains("advance") { End::Bad("over-read", m) } else { End::Panic(m) },
    };
    Drive { frames: raw.iter().map(|(v, o)| (vz_to_v(v), *o)).collect(), end, alloc }
}

/// Repeated one-shot `RespParser::parse` over the remaining slice; stops at the first error.
fn drive_parser(b: &[u8], enforced: bool) -> Drive {
    let mut raw: Vec<(RespValue, usize)> = Vec::with_capacity(b.len() / 3 + 2);
    let (r, alloc) = guarded(enforced, budget_for(b.len()), || {
        let mut off = 0usize;
        while off < b.len() {
            match RespParser::parse(&b[off..]) {
                Ok((v, n)) => {
                    if n > b.len() - off { return End::Bad("over-read", format!("consumed {} of {} available bytes at offset {}", n, b.len() - off, off)); }
                    if n == 0 { return End::Bad("zero-length-frame", format!("a value was returned with 0 bytes consumed at offset {}", off)); }
                    off += n;
                    raw.push((v, off));
                }
                Err(e) => return End::Error(e),
            }
        }
        End::NeedMore { residual: 0 }
    });
    let end = match r { Ok(e) => e, Err(m) => End::Panic(m) };
    Drive { frames: raw.iter().map(|(v, o)| (rv_to_v(v), *o)).collect(), end, alloc }
}

// =====================================================================================
// Judging
// =====================================================================================

const EXPL_MAX: usize = 40;
const H_MODE: usize = 0;
const H_ALPHA: usize = 2;
const H_LEN: usize = 3;
const H_BYTES: usize = 4;
const SWEEP_BASE: u64 = 0xFFFF_0000;
const MODE_EXPLICIT: u64 = 36;
const ALPHABET: &[u8; 11] = b"*$+-:019\r\na";
const ALPHA2: &[u8] = b"*$+-:0123456789\r\na x\x00\xff";

#[derive(Clone, Copy, PartialEq, Eq)]
enum Fail { Panic, Alloc, Stuck }

struct Ev<'a, 'b> {
    rep: RunReport,
    ctx: &'a RunCtx<'b>,
    enforced: bool,
    seen: BTreeSet<String>,
    stop: bool,
    evals: u64,
    budgeted: u64,
    skipped: u64,
    faults: BTreeMap<&'static str, u64>,
    probes: BTreeMap<&'static str, u64>,
}

impl<'a, 'b> Ev<'a, 'b> {
    fn new(ctx: &'a RunCtx<'b>) -> Self {
        Ev { rep: RunReport::default(), ctx, enforced: alloc_installed(), seen: BTreeSet::new(), stop: false, evals: 0, budgeted: 0, skipped: 0, faults: BTreeMap::new(), probes: BTreeMap::new() }
    }
    fn fault(&mut self, k: &'static str) { *self.faults.entry(k).or_insert(0) += 1; }
    fn probe(&mut self, k: &'static str) { *self.probes.entry(k).or_insert(0) += 1; }

    /// Record a violation (once per key per run). An unknown key stops the run and, for short
    /// inputs, retargets the tape to the explicit single-input mode.
    fn flag(&mut self, key: String, msg: String, input: Option<&[u8]>) {
        let known = self.ctx.known(&key);
        if self.seen.insert(key.clone()) {
            self.rep.log(self.ctx.trace, || format!("{} {} :: {}", if known { "known" } else { "VIOLATION" }, key, msg));
            self.rep.violate(key, msg);
        }
        if !known && !self.stop {
            self.stop = true;
            if let Some(input) = input.filter(|i| i.len() <= EXPL_MAX) {
                let mut cells = vec![(H_MODE, MODE_EXPLICIT), (H_ALPHA, 0), (H_LEN, input.len() as u64)];
                for (i, c) in input.iter().enumerate() { cells.push((H_BYTES + i, *c as u64)); }
                self.rep.retarget = Some(cells);
            }
        }
    }

    /// Which of the noted anomalies is responsible for a failure of `kind`: the first one whose
    /// header line, handed to the decoder on its own, already shows the same failure.
    fn label(&self, who: &'static str, b: &[u8], rs: &RefStream, kind: Fail) -> &'static str {
        if rs.notes.len() <= 1 { return rs.anomaly; }
        let mut done: Vec<(usize, usize)> = Vec::new();
        for (_, start, end) in &rs.notes {
            if done.contains(&(*start, *end)) { continue; }
            done.push((*start, *end));
            let alone = &b[(*start).min(b.len())..(*end).min(b.len())];
            let enf = self.enforced && kind == Fail::Alloc;
            let d = if who == "parser" { drive_parser(alone, enf) } else { drive_codec(alone, &[], enf) };
            let same = match kind {
                Fail::Panic => matches!(d.end, End::Panic(_)),
                Fail::Alloc => d.alloc.over || d.alloc.peak > budget_for(alone.len()),
                Fail::Stuck => d.frames.is_empty() && matches!(d.end, End::NeedMore { .. }) && matches!(ref_stream(alone).tail, Tail::Lenient | Tail::Invalid),
            };
            if same {
                // gravest note on that header line
                let mut best = "none";
                for n in rs.notes.iter().filter(|n| n.1 == *start && n.2 == *end) { if rank(n.0) > rank(best) { best = n.0; } }
                return best;
            }
        }
        rs.anomaly
    }

    fn common(&mut self, who: &'static str, b: &[u8], rs: &RefStream, d: &Drive, how: &str) -> bool {
        let mut bad = false;
        match &d.end {
            End::Panic(m) => { bad = true; let l = self.label(who, b, rs, Fail::Panic); self.flag(format!("C15/panic/{}/{}", who, l), format!("{} panicked on {} ({}): {} [after {} frames; grammar: {:?}]", who, show(b), how, m, d.frames.len(), rs.tail), Some(b)); }
            End::Bad(k, m) => { bad = true; self.flag(format!("C15/{}/{}", k, who), format!("{} on {} ({}): {}", who, show(b), how, m), Some(b)); }
            _ => {}
        }
        // (after a panic the numbers include the panic machinery - hook, backtrace - and say nothing)
        if self.enforced && !bad {
            self.budgeted += 1;
            if d.alloc.over || d.alloc.peak > budget_for(b.len()) {
                bad = true;
                let l = self.label(who, b, rs, Fail::Alloc);
                self.flag(format!("C15/alloc/{}/{}", who, l), format!("{} on {} ({}): peak live heap {} bytes (largest single request {} bytes, {} allocations) against a budget of 64 x {} + 4096 = {} bytes", who, show(b), how, d.alloc.peak, d.alloc.largest, d.alloc.calls, b.len(), budget_for(b.len())), Some(b));
            }
        }
        bad
    }

    /// One feed of `b` judged against the grammar.
    fn judge(&mut self, who: &'static str, streaming: bool, b: &[u8], rs: &RefStream, d: &Drive, how: &str) {
        if self.common(who, b, rs, d, how) { return; }
        let nref = rs.frames.len();
        for i in 0..nref.min(d.frames.len()) {
            let want = if streaming { rs.frames[i].0.clone() } else { lossy(&rs.frames[i].0) };
            if d.frames[i].0 != want || d.frames[i].1 != rs.frames[i].1 {
                self.flag(format!("C15/frame-mismatch/{}", who), format!("{} on {} ({}): frame {} is {} ending at byte {}; the canonical frame there is {} ending at byte {}", who, show(b), how, i, show_v(&d.frames[i].0), d.frames[i].1, show_v(&want), rs.frames[i].1), Some(b));
                return;
            }
        }
        if d.frames.len() < nref {
            let (v, e) = &rs.frames[d.frames.len()];
            match &d.end {
                End::NeedMore { .. } => self.flag(format!("C15/need-more-on-complete-frame/{}", who), format!("{} on {} ({}): answers need-more although the complete canonical frame {} ends at byte {}", who, show(b), how, show_v(v), e), Some(b)),
                End::Error(_) if rs.deep => self.probe("deep_frame_refused_with_error"),
                End::Error(m) => self.flag(format!("C15/valid-frame-rejected/{}", who), format!("{} on {} ({}): error \"{}\" on the canonical frame {} ending at byte {}", who, show(b), how, m, show_v(v), e), Some(b)),
                _ => {}
            }
            return;
        }
        let extra = d.frames.len() - nref;
        let at = rs.frames.last().map(|f| f.1).unwrap_or(0);
        match rs.tail {
            Tail::Clean => {
                if let End::Error(m) = &d.end { self.flag(format!("C15/error-after-last-frame/{}", who), format!("{} on {} ({}): error \"{}\" with nothing left to decode", who, show(b), how, m), Some(b)); }
            }
            Tail::Incomplete { must_wait: true } => {
                if extra > 0 {
                    self.flag(format!("C15/value-from-incomplete-frame/{}", who), format!("{} on {} ({}): returned {} ending at byte {} although bytes {}.. are only a proper prefix of a frame", who, show(b), how, show_v(&d.frames[nref].0), d.frames[nref].1, at), Some(b));
                } else if streaming {
                    match &d.end {
                        End::Error(_) if rs.deep => self.probe("deep_frame_refused_with_error"),
                        End::Error(m) => self.flag(format!("C15/prefix-of-valid-frame-rejected/{}", who), format!("{} on {} ({}): error \"{}\" although bytes {}.. are a proper prefix of a canonical frame (feeding that frame in two pieces would fail, whole it would succeed)", who, show(b), how, m, at), Some(b)),
                        End::NeedMore { residual } if *residual != b.len() - at => self.flag(format!("C15/residue-mismatch/{}", who), format!("{} on {} ({}): {} bytes left in the buffer, expected {}", who, show(b), how, residual, b.len() - at), Some(b)),
                        _ => self.probe("need_more_on_viable_prefix"),
                    }
                }
            }
            Tail::Incomplete { must_wait: false } => {}
            Tail::Lenient | Tail::Invalid => {
                // bytes that are malformed under every reading denote no value: a decoder that returns one made it up
                // (a wrapped length accumulator, say, turns a length of 2^64+5 into 5)
                if rs.tail == Tail::Invalid && extra > 0 {
                    self.flag(format!("C15/value-from-malformed-frame/{}", who), format!("{} on {} ({}): returned {} ending at byte {} although bytes {}.. are malformed under every reading of the grammar ({})", who, show(b), how, show_v(&d.frames[nref].0), d.frames[nref].1, at, rs.anomaly), Some(b));
                    return;
                }
                if streaming && extra == 0 {
                    if let End::NeedMore { .. } = &d.end {
                        let l = self.label(who, b, rs, Fail::Stuck);
                        self.flag(format!("C15/need-more-forever/{}/{}", who, l), format!("{} on {} ({}): answers need-more at byte {} although the front of the buffer is already decided ({}: {}); no further byte can change that, the connection waits until the buffer limit", who, show(b), how, at, if rs.tail == Tail::Invalid { "malformed under every reading" } else { "a complete frame under the lenient reading, malformed under the strict one" }, rs.anomaly), Some(b));
                    }
                }
                self.probe("decided_nonstrict_input");
            }
        }
    }

    /// Pieces vs whole: same frames, same kind of end, same residue.
    fn judge_frag(&mut self, b: &[u8], rs: &RefStream, whole: &Drive, frag: &Drive, cuts: &[usize]) {
        let how = format!("fed in pieces cut at {:?}", cuts);
        if self.common("codec", b, rs, frag, &how) { return; }
        if matches!(whole.end, End::Panic(_) | End::Bad(..)) { return; }
        let same = whole.frames == frag.frames && whole.end.kind() == frag.end.kind() && match (&whole.end, &frag.end) { (End::NeedMore { residual: a }, End::NeedMore { residual: c }) => a == c, _ => true };
        if !same {
            self.flag("C15/fragmentation/codec".into(), format!("codec on {}: whole gives {} frames then {:?}; {} gives {} frames then {:?}", show(b), whole.frames.len(), whole.end, how, frag.frames.len(), frag.end), Some(b));
        }
    }

    /// Whole-buffer evaluation through both decoders. Returns the whole-feed codec drive.
    fn eval_whole(&mut self, b: &[u8]) -> Option<(RefStream, Drive)> {
        if let Some(why) = dangerous(b) { self.skipped += 1; self.probe(if why == "more_than_256_stars" { "skipped_deep_nesting" } else { "skipped_array_len_2p20_to_2p62" }); return None; }
        self.evals += 1;
        let rs = ref_stream(b);
        let dc = drive_codec(b, &[], self.enforced);
        self.judge("codec", true, b, &rs, &dc, "whole");
        let dp = drive_parser(b, self.enforced);
        self.judge("parser", false, b, &rs, &dp, "whole");
        Some((rs, dc))
    }
    fn eval_cuts(&mut self, b: &[u8], rs: &RefStream, whole: &Drive, cuts: &[usize]) {
        self.evals += 1;
        let d = drive_codec(b, cuts, self.enforced);
        self.judge_frag(b, rs, whole, &d, cuts);
    }
    /// Whole + every fragmentation into <= 3 pieces (len <= EXPL_MAX) or every 2-piece split.
    fn eval_full(&mut self, b: &[u8]) {
        let Some((rs, whole)) = self.eval_whole(b) else { return };
        let n = b.len();
        for i in 1..n {
            if self.stop { return; }
            self.eval_cuts(b, &rs, &whole, &[i]);
            if n <= EXPL_MAX { for j in i + 1..n { self.eval_cuts(b, &rs, &whole, &[i, j]); } }
        }
    }

    fn finish(mut self) -> RunReport {
        for (k, n) in std::mem::take(&mut self.faults) { *self.rep.faults.entry(k).or_insert(0) += n; }
        for (k, n) in std::mem::take(&mut self.probes) { *self.rep.probes.entry(k).or_insert(0) += n; }
        if self.enforced && self.budgeted > 0 { self.rep.probe_n("alloc_budget_enforced", self.budgeted); }
        self.rep.evals = self.evals.max(1);
        self.rep
    }
}

// =====================================================================================
// Generators
// =====================================================================================

fn gen_blob(src: &mut Src) -> Vec<u8> {
    match src.below(14) {
        0 => b"a".to_vec(), 1 => Vec::new(), 2 => b"OK".to_vec(), 3 => b"k1".to_vec(), 4 => b"-1".to_vec(), 5 => b"\r\n".to_vec(),
        6 => b"a\rb".to_vec(), 7 => b"$3\r\nabc\r\n".to_vec(), 8 => vec![0xff, 0x00, 0x80], 9 => b"123".to_vec(),
        10 => vec![b'x'; 60 + src.below(300) as usize], 11 => b"*2\r\n".to_vec(), 12 => b"+OK\r\n-ERR x".to_vec(),
        _ => { let n = src.below(6) as usize; (0..n).map(|_| ALPHA2[src.idx(ALPHA2.len())]).collect() }
    }
}
fn gen_line(src: &mut Src) -> Vec<u8> {
    match src.below(8) {
        0 => b"OK".to_vec(), 1 => Vec::new(), 2 => b"ERR unknown command 'x'".to_vec(), 3 => b"QUEUED".to_vec(), 4 => b"a b\tc".to_vec(),
        5 => b"WRONGTYPE Operation against a key holding the wrong kind of value".to_vec(), 6 => "é✓".as_bytes().to_vec(), _ => b"-+:$*".to_vec(),
    }
}
fn gen_value(src: &mut Src, depth: usize) -> V {
    let k = src.weighted(&[6, 2, 2, 1, 1, 1, if depth < 5 { 4 } else { 0 }]);
    match k {
        0 => V::Bulk(Some(gen_blob(src))),
        1 => V::Int(*src.pick(&[0i64, 1, -1, 42, 1_000_000, i64::MAX, i64::MIN])),
        2 => V::Simple(gen_line(src)),
        3 => V::Error(gen_line(src)),
        4 => V::Bulk(None),
        5 => V::Array(None),
        _ => V::Array(Some(src.list(6, 2, 3, |s| gen_value(s, depth + 1)))),
    }
}
const NAMES: &[&str] = &["PING", "ECHO", "SET", "GET", "APPEND", "STRLEN", "INCR", "LPUSH", "RPUSH", "LRANGE", "DEL", "EXISTS", "MGET", "TYPE", "HSET", "HGET", "NOSUCH", "get", "LLEN", "SADD", "SCARD",
    // commands whose argument parser quotes a bad option or subcommand back in its error text
    "EXPIRE", "SCAN", "SCRIPT", "ACL", "ZRANGEBYSCORE", "OBJECT", "CONFIG", "CLIENT", "ZADD", "LMOVE", "GETEX",
    // a script hands client bytes back as a status line, an error line or a bulk
    "EVAL"];
/// A command as an array of bulk strings: mostly well-formed, sometimes wrong arity, sometimes a
/// name or argument made of client-chosen bytes (CR, LF, quotes, non-UTF-8).
fn gen_command(src: &mut Src) -> Vec<Vec<u8>> {
    let hostile: &[&[u8]] = &[b"A\r\nB", b"x\r\n+OK", b"a'b", b"\xff\xfe", b"k\n", b"", b"NOSUCH\r\n:1\r\n"];
    let name_kind = src.below(10);
    let name: Vec<u8> = if name_kind == 9 { hostile[src.idx(hostile.len())].to_vec() } else { NAMES[src.idx(NAMES.len())].as_bytes().to_vec() };
    let upper = String::from_utf8_lossy(&name).to_uppercase();
    let key = |s: &mut Src| -> Vec<u8> { if s.below(12) == 11 { hostile[s.idx(hostile.len())].to_vec() } else { format!("k{}", s.below(3)).into_bytes() } };
    let val = |s: &mut Src| -> Vec<u8> { match s.below(6) { 0 => b"v".to_vec(), 1 => b"10".to_vec(), 2 => Vec::new(), 3 => b"a\r\nb".to_vec(), 4 => vec![0xff, 0x00], _ => b"hello world".to_vec() } };
    let mut args: Vec<Vec<u8>> = match upper.as_str() {
        "PING" => if src.below(3) == 0 { vec![val(src)] } else { vec![] },
        "ECHO" => vec![val(src)],
        "SET" | "APPEND" => vec![key(src), val(src)],
        "GET" | "STRLEN" | "INCR" | "DEL" | "EXISTS" | "TYPE" | "LLEN" | "SCARD" => vec![key(src)],
        "LPUSH" | "RPUSH" | "SADD" => { let mut a = vec![key(src), val(src)]; if src.below(2) == 1 { a.push(val(src)); } a }
        "LRANGE" => vec![key(src), b"0".to_vec(), b"-1".to_vec()],
        "MGET" => vec![key(src), key(src)],
        "HSET" => vec![key(src), b"f".to_vec(), val(src)],
        "HGET" => vec![key(src), b"f".to_vec()],
        // the option / subcommand position takes client-chosen bytes half of the time
        "EXPIRE" => vec![key(src), b"10".to_vec(), if src.below(2) == 0 { hostile[src.idx(hostile.len())].to_vec() } else { b"NX".to_vec() }],
        "SCAN" => vec![b"0".to_vec(), if src.below(2) == 0 { hostile[src.idx(hostile.len())].to_vec() } else { b"COUNT".to_vec() }, b"5".to_vec()],
        "SCRIPT" | "ACL" | "OBJECT" | "CONFIG" | "CLIENT" => vec![if src.below(2) == 0 { hostile[src.idx(hostile.len())].to_vec() } else { b"HELP".to_vec() }, key(src)],
        "ZRANGEBYSCORE" => vec![key(src), b"0".to_vec(), b"1".to_vec(), if src.below(2) == 0 { hostile[src.idx(hostile.len())].to_vec() } else { b"WITHSCORES".to_vec() }],
        "ZADD" => vec![key(src), if src.below(2) == 0 { hostile[src.idx(hostile.len())].to_vec() } else { b"NX".to_vec() }, b"1".to_vec(), b"m".to_vec()],
        "LMOVE" => vec![key(src), key(src), if src.below(2) == 0 { hostile[src.idx(hostile.len())].to_vec() } else { b"LEFT".to_vec() }, b"RIGHT".to_vec()],
        "EVAL" => { let script: &[u8] = [&b"return {ok=ARGV[1]}"[..], &b"return redis.status_reply(ARGV[1])"[..], &b"return {err=ARGV[1]}"[..], &b"return ARGV[1]"[..], &b"return {ARGV[1], {ok=ARGV[1]}}"[..]][src.idx(5)]; vec![script.to_vec(), b"0".to_vec(), if src.below(3) > 0 { hostile[src.idx(hostile.len())].to_vec() } else { val(src) }] }
        "GETEX" => vec![key(src), if src.below(2) == 0 { hostile[src.idx(hostile.len())].to_vec() } else { b"PERSIST".to_vec() }],
        _ => if src.below(2) == 1 { vec![val(src)] } else { vec![] },
    };
    match src.below(12) { 10 => { args.pop(); } 11 => args.push(val(src)), _ => {} }
    let mut out = vec![name];
    out.extend(args);
    out
}
fn command_value(parts: &[Vec<u8>]) -> V { V::Array(Some(parts.iter().map(|p| V::Bulk(Some(p.clone()))).collect())) }

const REPL: &[&[u8]] = &[b"-1", b"-2", b"0", b"1", b"2147483648", b"9223372036854775807", b"18446744073709551616", b"-9223372036854775808", b"4611686018427387904",
    b"1000000", b"65536", b"", b"x", b"1a", b"+1", b"01", b" 1", b"-0", b"1\r", b"-"];

// =====================================================================================
// SimStream for the handler sessions
// =====================================================================================

#[derive(Default)]
struct Pipe { inbound: VecDeque<Vec<u8>>, stall_before: BTreeSet<usize>, reads: usize, out: Vec<u8>, stalls_fired: u64 }
struct SimStream(Rc<RefCell<Pipe>>);
impl tokio::io::AsyncRead for SimStream {
    fn poll_read(self: Pin<&mut Self>, cx: &mut Context<'_>, buf: &mut tokio::io::ReadBuf<'_>) -> Poll<std::io::Result<()>> {
        let mut p = self.0.borrow_mut();
        let idx = p.reads;
        if p.stall_before.remove(&idx) { p.stalls_fired += 1; cx.waker().wake_by_ref(); return Poll::Pending; }
        p.reads += 1;
        match p.inbound.pop_front() {
            None => Poll::Ready(Ok(())), // EOF
            Some(mut chunk) => {
                let n = chunk.len().min(buf.remaining());
                buf.put_slice(&chunk[..n]);
                if n < chunk.len() { let rest = chunk.split_off(n); p.inbound.push_front(rest); }
                Poll::Ready(Ok(()))
            }
        }
    }
}
impl tokio::io::AsyncWrite for SimStream {
    fn poll_write(self: Pin<&mut Self>, _cx: &mut Context<'_>, data: &[u8]) -> Poll<std::io::Result<usize>> {
        let mut p = self.0.borrow_mut();
        p.out.extend_from_slice(data);
        Poll::Ready(Ok(data.len()))
    }
    fn poll_flush(self: Pin<&mut Self>, _cx: &mut Context<'_>) -> Poll<std::io::Result<()>> { Poll::Ready(Ok(())) }
    fn poll_shutdown(self: Pin<&mut Self>, _cx: &mut Context<'_>) -> Poll<std::io::Result<()>> { Poll::Ready(Ok(())) }
}

// =====================================================================================
// The property
// =====================================================================================

#[derive(Clone, Copy, PartialEq, Eq, Debug)]
enum Mode { Gen, Explicit, Enc, Handler, Sweep }
fn mode_of(c: u64, arg: u64) -> Mode {
    if arg >= SWEEP_BASE { return Mode::Sweep; } // never drawn in practice (2^-16); written by `derive`
    match c % 64 { 0..=35 => Mode::Gen, 36..=49 => Mode::Explicit, 50..=56 => Mode::Enc, _ => Mode::Handler }
}
fn sweep_len(t: Tier) -> usize { match t { Tier::Quick => 6, Tier::Thorough => 7 } }

impl C15 {
    fn run_explicit(&self, ev: &mut Ev, alpha: u64, len: usize, cells: &[u64]) {
        let b: Vec<u8> = cells[..len].iter().map(|c| match alpha {
            0 => *c as u8,
            1 => ALPHABET[(*c % 11) as usize],
            2 => ALPHA2[(*c as usize) % ALPHA2.len()],
            _ => if *c >= 96 { ALPHABET[(*c % 11) as usize] } else { *c as u8 },
        }).collect();
        ev.rep.log(ev.ctx.trace, || format!("explicit input {}", show(&b)));
        ev.eval_full(&b);
        let typed = b.first().map(|c| b"+-:$*".contains(c)).unwrap_or(false);
        ev.rep.nontrivial = typed && b.len() >= 2;
        ev.rep.fingerprint = fnv(fnv(0, b"explicit"), &b);
        if typed { ev.probe("random_input_with_type_byte"); }
        ev.rep.sample = Some(json!({"mode": "explicit", "input": show(&b)}));
    }

    fn run_sweep(&self, ev: &mut Ev, chunk: u64) {
        let l = sweep_len(ev.ctx.tier);
        let a = ALPHABET;
        let chunk = (chunk % 121) as usize;
        let mut n_inputs = 0u64;
        let mut one = |ev: &mut Ev, s: &[u8]| {
            n_inputs += 1;
            if let Some((rs, whole)) = ev.eval_whole(s) { for i in 1..s.len() { ev.eval_cuts(s, &rs, &whole, &[i]); } }
        };
        if chunk == 0 { one(ev, b""); for c in a { one(ev, &[*c]); } }
        let mut s = vec![a[chunk / 11], a[chunk % 11]];
        // every suffix of length 0..=l-2, counted in base 11
        for extra in 0..=(l - 2) {
            s.truncate(2);
            s.resize(2 + extra, a[0]);
            let total = 11u64.pow(extra as u32);
            for mut c in 0..total {
                for k in (0..extra).rev() { s[2 + k] = a[(c % 11) as usize]; c /= 11; }
                one(ev, &s);
                if ev.stop { break; }
            }
            if ev.stop { break; }
        }
        drop(one);
        *ev.probes.entry("sweep_inputs").or_insert(0) += n_inputs;
        ev.probe("sweep_chunks");
        ev.rep.log(ev.ctx.trace, || format!("sweep chunk {} (prefix {}): {} strings up to length {}", chunk, show(&[a[chunk / 11], a[chunk % 11]]), n_inputs, l));
        ev.rep.nontrivial = true;
        ev.rep.fingerprint = fnv(fnv(0, b"sweep"), &[chunk as u8, l as u8]);
    }

    /// One very long element (a status or error line, or a bulk, around and above 64 KiB), alone, inside an array or
    /// followed by a small frame: fed whole, as a few prefixes (EOF) and in a few fragmentations. Per-byte loops are
    /// not affordable at this size; the cut points are the ends of the stream, the 64 KiB mark and tape-drawn ones.
    fn run_long(&self, ev: &mut Ev, src: &mut Src) {
        let len = *src.pick(&[65_535usize, 65_536, 65_537, 70_000, 200_000, 66_000]);
        let body: Vec<u8> = (0..len).map(|i| b'a' + (i % 23) as u8).collect();
        let mut v = match src.below(3) { 0 => V::Simple(body), 1 => V::Error(body), _ => V::Bulk(Some(body)) };
        if src.chance(1, 3) { v = V::Array(Some(vec![V::Int(1), v])); }
        let mut s = Vec::new();
        enc(&v, &mut s, &mut Vec::new());
        if src.chance(1, 2) { enc(&V::Simple(b"OK".to_vec()), &mut s, &mut Vec::new()); }
        let n = s.len();
        ev.probe("long_element_over_64k");
        ev.rep.log(ev.ctx.trace, || format!("long element: {} bytes of stream", n));
        let Some((rs, whole)) = ev.eval_whole(&s) else { return };
        let mut marks: Vec<usize> = vec![1, 2, 8, 65_535, 65_536, 65_537, 65_540, 65_550, n / 2, n - 1, n - 2, n - 3, n - 6];
        for _ in 0..4 { marks.push(1 + src.idx(n - 1)); }
        marks.retain(|m| *m >= 1 && *m < n); marks.sort(); marks.dedup();
        for m in &marks { if ev.stop { return; } if ev.eval_whole(&s[..*m]).is_some() { ev.fault("eof_mid_frame"); } }
        for m in &marks { if ev.stop { return; } ev.eval_cuts(&s, &rs, &whole, &[*m]); ev.fault("split_in_2"); }
        for w in marks.windows(3).step_by(2) { if ev.stop { return; } ev.eval_cuts(&s, &rs, &whole, w); ev.fault("split_in_3plus"); ev.probe("fragmented_4plus"); }
        ev.rep.nontrivial = true;
        ev.rep.fingerprint = fnv(fnv(0, b"long"), &[(len % 251) as u8, (n % 251) as u8]);
        ev.rep.sub_fps.push(ev.rep.fingerprint);
        ev.rep.sample = Some(json!({"mode": "gen/long-element", "bytes": n, "cut_points": marks.len()}));
    }

    fn run_gen(&self, ev: &mut Ev, src: &mut Src) {
        if src.chance(1, 10) { return self.run_long(ev, src); }
        // ---- a valid stream
        let deep = if src.below(8) == 7 { 8 + src.below(57) as usize } else { 0 };
        let mut frames: Vec<V> = Vec::new();
        let nframes = 1 + src.below(4) as usize;
        for _ in 0..nframes {
            src.begin();
            let mut v = if src.below(2) == 0 { command_value(&gen_command(src)) } else { gen_value(src, 0) };
            src.end();
            for _ in 0..deep { v = V::Array(Some(vec![v])); }
            frames.push(v);
        }
        if deep > 0 { ev.probe("deep_nesting"); }
        let mut s = Vec::new();
        let mut fields = Vec::new();
        let mut bounds = Vec::new();
        for f in &frames { enc(f, &mut s, &mut fields); bounds.push(s.len()); }
        let n = s.len();
        let base_fp = fnv(fnv(0, b"gen"), &s);
        ev.rep.log(ev.ctx.trace, || format!("stream of {} frames, {} bytes: {}", frames.len(), n, show(&s)));
        // harness self-check: grammar and encoder agree on the undamaged stream
        let rs0 = ref_stream(&s);
        if rs0.tail != Tail::Clean || rs0.frames.len() != frames.len() || rs0.frames.iter().zip(&frames).any(|(a, b)| a.0 != *b) {
            harness_fail(format!("C15 harness: reference grammar does not accept its own encoding of {}", show(&s)));
        }
        let Some((rs, whole)) = ev.eval_whole(&s) else { return };
        ev.probe("gen_stream_checked");
        let mut h = mix(base_fp, 1);
        let mut fams: Vec<&'static str> = Vec::new();

        // ---- EOF at every offset
        let hot_near = |k: usize| bounds.iter().any(|e| k + 3 >= *e && k <= *e + 3) || fields.iter().any(|(a, e, _)| k + 2 >= *a && k <= *e + 3);
        for k in 0..n {
            if ev.stop { return; }
            if n > 400 && !hot_near(k) { h = mix(h, k as u64); if h % 8 != 0 { continue; } }
            if ev.eval_whole(&s[..k]).is_some() { if !bounds.contains(&k) && k > 0 { ev.fault("eof_mid_frame"); } else { ev.fault("eof_at_frame_boundary"); } }
        }
        fams.push("eof");

        // ---- fragmentation
        if n <= 24 {
            for i in 1..n { for j in i..n { if ev.stop { return; } if j == i { ev.eval_cuts(&s, &rs, &whole, &[i]); ev.fault("split_in_2"); } else { ev.eval_cuts(&s, &rs, &whole, &[i, j]); ev.fault("split_in_3"); } } }
        } else {
            for i in 1..n { if ev.stop { return; } if n > 400 && !hot_near(i) { h = mix(h, i as u64); if h % 8 != 0 { continue; } } ev.eval_cuts(&s, &rs, &whole, &[i]); ev.fault("split_in_2"); }
        }
        let multi = src.list(8, 7, 8, |s2| { let mut c: Vec<usize> = s2.list(12, 5, 6, |s3| 1 + s3.idx(n.max(2) - 1)); c.sort(); c.dedup(); c });
        for cuts in &multi {
            if ev.stop { return; }
            if cuts.is_empty() { continue; }
            ev.eval_cuts(&s, &rs, &whole, cuts);
            ev.fault(if cuts.len() >= 2 { "split_in_3plus" } else { "split_in_2" });
            if cuts.len() >= 3 { ev.probe("fragmented_4plus"); }
        }
        fams.push("frag");

        // ---- length fields replaced
        let nf = fields.len();
        for (fi, (a, e, t)) in fields.iter().enumerate() {
            if nf > 24 { h = mix(h, fi as u64); if h % (nf as u64 / 12).max(2) != 0 { continue; } }
            // besides the fixed hostile values: the field's own value shifted by 2^32, 2^63 and 2^64 (a hand-rolled
            // accumulator that wraps lands exactly on the original length and decodes the frame as if nothing were wrong),
            // with a plus sign, with a leading zero
            let own: Vec<Vec<u8>> = match std::str::from_utf8(&s[*a..*e]).ok().and_then(|x| x.parse::<u64>().ok()) {
                Some(n) => vec![format!("{}", (1u128 << 64) + n as u128).into_bytes(), format!("{}", (1u128 << 63) + n as u128).into_bytes(), format!("{}", (1u128 << 32) + n as u128).into_bytes(), format!("+{}", (1u128 << 64) + n as u128).into_bytes(), format!("+{}", n).into_bytes(), format!("0{}", n).into_bytes()],
                None => vec![],
            };
            if !own.is_empty() { ev.probe("length_field_shifted_by_a_power_of_two"); }
            for r in REPL.iter().map(|r| r.to_vec()).chain(own.into_iter()) {
                let r = &r[..];
                if ev.stop { return; }
                let mut m = s[..*a].to_vec(); m.extend_from_slice(r); m.extend_from_slice(&s[*e..]);
                if let Some((mrs, mwhole)) = ev.eval_whole(&m) {
                    ev.fault(match t { b'$' => "bulk_len_replaced", b'*' => "array_len_replaced", _ => "integer_replaced" });
                    // splits around the damaged field
                    let lo = a.saturating_sub(1).max(1);
                    let hi = (a + r.len() + 3).min(m.len().saturating_sub(1));
                    for c in lo..=hi { if c >= 1 && c < m.len() { ev.eval_cuts(&m, &mrs, &mwhole, &[c]); } }
                }
            }
        }
        fams.push("len-replaced");

        // ---- byte substitution and bit flips
        for p in 0..n {
            if ev.stop { return; }
            let hot = p == 0 || hot_near(p) || s[p] == b'\r' || s[p] == b'\n';
            if n > 48 && !hot { h = mix(h, p as u64); if h % 16 != 0 { continue; } }
            for c in ALPHABET.iter() {
                if *c == s[p] { continue; }
                let mut m = s.clone(); m[p] = *c;
                if let Some((mrs, mwhole)) = ev.eval_whole(&m) { ev.fault("byte_substituted"); if p + 1 < n { ev.eval_cuts(&m, &mrs, &mwhole, &[p + 1]); } }
                if ev.stop { return; }
            }
            for bit in 0..8u8 {
                let mut m = s.clone(); m[p] ^= 1 << bit;
                if ev.eval_whole(&m).is_some() { ev.fault("bit_flipped"); }
                if ev.stop { return; }
            }
        }
        fams.push("byte-damage");
        ev.rep.nontrivial = true;
        for f in fams { ev.rep.sub_fps.push(fnv(base_fp, f.as_bytes())); }
        ev.rep.sample = Some(json!({"mode": "gen", "frames": frames.iter().map(show_v).collect::<Vec<_>>(), "bytes": n, "wrapped_in_arrays": deep, "length_fields": nf, "multi_cut_fragmentations": multi.len()}));
    }

    /// Round trips: value trees through both public encoders; replies of a real executor likewise.
    fn run_enc(&self, ev: &mut Ev, src: &mut Src) {
        let mut vals: Vec<(V, String)> = Vec::new();
        // synthetic trees whose line values are UTF-8 without CR/LF (what an encoder can carry by construction)
        let trees = src.list(4, 3, 4, |s| gen_value(s, 0));
        for t in trees { vals.push((t, "synthetic".into())); }
        if src.below(3) == 2 { let d = 8 + src.below(57) as usize; let mut v = V::Int(7); for _ in 0..d { v = V::Array(Some(vec![v])); } vals.push((v, format!("synthetic nesting {}", d))); ev.probe("deep_nesting"); }
        // what the server itself emits: real parser -> real executor
        let cmds = src.list(10, 7, 8, gen_command);
        let mut ex = CommandExecutor::new();
        for parts in &cmds {
            let mut wire = Vec::new();
            enc(&command_value(parts), &mut wire, &mut Vec::new());
            let mut bm = BytesMut::from(&wire[..]);
            let parsed = catch_unwind(AssertUnwindSafe(|| RespCodec::parse(&mut bm)));
            let Ok(Ok(Some(vz))) = parsed else { continue };
            match catch_unwind(AssertUnwindSafe(|| Command::from_resp_zero_copy(&vz))) {
                Ok(Ok(cmd)) => {
                    match catch_unwind(AssertUnwindSafe(|| ex.execute(&cmd))) {
                        Ok(reply) => { vals.push((rv_to_v(&reply), format!("reply of the executor to {}", show_v(&command_value(parts))))); ev.probe("executor_reply_checked"); }
                        Err(_) => { ev.probe("executor_panicked_ignored"); ex = CommandExecutor::new(); }
                    }
                }
                Ok(Err(_)) => ev.probe("command_rejected_by_parser"),
                Err(_) => ev.probe("command_parser_panicked_ignored"),
            }
        }
        let mut fp = fnv(0, b"enc");
        for (v, origin) in &vals {
            if ev.stop { break; }
            ev.evals += 1;
            let mut canon = Vec::new();
            enc(v, &mut canon, &mut Vec::new());
            fp = fnv(fp, &canon);
            let what = match line_break_in(v) { Some("error") => "error-text-has-line-break", Some(_) => "simple-text-has-line-break", None => "other" };
            if what != "other" { ev.probe("emitted_line_value_with_line_break"); }
            ev.rep.log(ev.ctx.trace, || format!("value {} ({})", show_v(v), origin));
            // encoder 1: RespParser::encode
            if let Some(rv) = v_to_rv(v) {
                match catch_unwind(AssertUnwindSafe(|| RespParser::encode(&rv))) {
                    Err(p) => ev.flag("C15/panic/resp-parser-encode".into(), format!("RespParser::encode panicked on {}: {}", show_v(v), panic_msg(p)), None),
                    Ok(bytes) => self.redecode(ev, "resp-parser-encode", what, v, &bytes, origin),
                }
            }
            // encoder 3: the persistent server's own encode_resp_into (src/bin/server_persistent.rs)
            if crate::sp_bin::AVAILABLE {
                if let Some(rv) = v_to_rv(v) {
                    match catch_unwind(AssertUnwindSafe(|| crate::sp_bin::verif_encode_resp(&rv))) {
                        Err(p) => ev.flag("C15/panic/persistent-server-encode".into(), format!("server_persistent encode_resp_into panicked on {}: {}", show_v(v), panic_msg(p)), None),
                        Ok(bytes) => { ev.probe("persistent_server_encoder_checked"); self.redecode(ev, "persistent-server-encode", what, v, &bytes, origin) }
                    }
                }
            }
            // encoder 2: RespCodec::encode
            let vz = v_to_vz(v);
            match catch_unwind(AssertUnwindSafe(|| RespCodec::encode(&vz))) {
                Err(p) => ev.flag("C15/panic/resp-codec-encode".into(), format!("RespCodec::encode panicked on {}: {}", show_v(v), panic_msg(p)), None),
                Ok(bytes) => self.redecode(ev, "resp-codec-encode", what, v, &bytes, origin),
            }
        }
        ev.rep.nontrivial = !vals.is_empty();
        ev.rep.fingerprint = fp;
        ev.rep.sample = Some(json!({"mode": "enc", "values": vals.iter().take(3).map(|(v, o)| format!("{} <- {}", show_v(v), o)).collect::<Vec<_>>()}));
    }

    /// `bytes` = encoder(v): must be exactly one frame that every decoder (and the grammar) reads back as `v`.
    fn redecode(&self, ev: &mut Ev, encoder: &'static str, what: &'static str, v: &V, bytes: &[u8], origin: &str) {
        let key = format!("C15/redecode/{}/{}", what, encoder);
        let rs = ref_stream(bytes);
        // one canonical frame that is `v`, or `v` with the CR/LF bytes of its line values sanitised away
        let ok_ref = rs.tail == Tail::Clean && rs.frames.len() == 1 && same_modulo_line_breaks(v, &rs.frames[0].0);
        if !ok_ref {
            let got = if rs.frames.is_empty() { format!("no canonical frame ({:?}, {})", rs.tail, rs.anomaly) } else { format!("{} then {:?}", rs.frames.iter().map(|f| show_v(&f.0)).collect::<Vec<_>>().join(" | "), rs.tail) };
            ev.flag(key, format!("{} of {} [{}] wrote {}, which reads back as {} instead of the one value", encoder, show_v(v), origin, show(bytes), got), None);
            return;
        }
        if dangerous(bytes).is_some() { return; }
        let dc = drive_codec(bytes, &[], false);
        let v = &rs.frames[0].0;
        if !(dc.frames.len() == 1 && dc.frames[0].0 == *v && dc.end == (End::NeedMore { residual: 0 })) {
            ev.flag(format!("C15/redecode/{}/{}-via-codec", what, encoder), format!("{} of {} wrote {}; RespCodec::parse reads {} frames then {:?}", encoder, show_v(v), show(bytes), dc.frames.len(), dc.end), None);
        }
        let dp = drive_parser(bytes, false);
        if !(dp.frames.len() == 1 && dp.frames[0].0 == lossy(v) && dp.end == (End::NeedMore { residual: 0 })) {
            ev.flag(format!("C15/redecode/{}/{}-via-parser", what, encoder), format!("{} of {} wrote {}; RespParser::parse reads {} frames then {:?}", encoder, show_v(v), show(bytes), dp.frames.len(), dp.end), None);
        }
    }

    /// The production handler on a SimStream: its replies must be canonical frames, one per command.
    fn run_handler(&self, ev: &mut Ev, src: &mut Src) {
        let cmds = src.list(8, 7, 8, gen_command);
        let tail: Vec<u8> = match src.below(10) {
            0..=5 => Vec::new(),
            6 => { let r = REPL[src.idx(REPL.len())]; let mut t = b"$".to_vec(); t.extend_from_slice(r); t.extend_from_slice(b"\r\n"); t }
            7 => { let r = REPL[src.idx(REPL.len())]; let mut t = b"*".to_vec(); t.extend_from_slice(r); t.extend_from_slice(b"\r\n"); t }
            8 => b"+a\rb\r\n".to_vec(),
            _ => { let n = src.below(12) as usize; (0..n).map(|_| ALPHABET[src.idx(11)]).collect() }
        };
        let shards = 1 + src.below(3) as usize;
        let mut wire = Vec::new();
        for c in &cmds { enc(&command_value(c), &mut wire, &mut Vec::new()); }
        let good = wire.len();
        wire.extend_from_slice(&tail);
        if wire.is_empty() { ev.evals += 1; return; }
        if dangerous(&wire).is_some() { ev.skipped += 1; ev.probe("skipped_array_len_2p20_to_2p62"); return; }
        let mut cuts: Vec<usize> = src.list(24, 7, 8, |s| 1 + s.idx(wire.len().max(2) - 1));
        cuts.sort(); cuts.dedup(); cuts.retain(|c| *c < wire.len());
        let stalls: BTreeSet<usize> = src.list(4, 1, 2, |s| s.idx(12)).into_iter().collect();
        let read_buf = *src.pick(&[8192usize, 1, 7, 64]);
        // every third session goes through the persistent server's own connection loop and encoders
        // (src/bin/server_persistent.rs, included as a module by build.rs) in front of a replicated node
        let persistent = src.below(3) == 0;
        if persistent && !crate::sp_bin::AVAILABLE { harness_fail(format!("C15 harness: src/bin/server_persistent.rs could not be included ({})", crate::sp_bin::PROBLEMS)); }
        let who: &'static str = if persistent { "persistent-server-encoder" } else { "connection-encoder" };
        ev.rep.log(ev.ctx.trace, || format!("handler session ({}): {} commands ({} bytes) + tail {}, cuts {:?}, stalls before reads {:?}, read buffer {}, {} shards", if persistent { "persistent server" } else { "optimized server" }, cmds.len(), good, show(&tail), cuts, stalls, read_buf, shards));
        let pipe = Rc::new(RefCell::new(Pipe::default()));
        { let mut p = pipe.borrow_mut(); let mut prev = 0; for c in cuts.iter().chain(std::iter::once(&wire.len())) { p.inbound.push_back(wire[prev..*c].to_vec()); prev = *c; } p.stall_before = stalls.clone(); }
        let rs_in = ref_stream(&wire);
        ev.evals += 1;
        let p2 = pipe.clone();
        let res = catch_unwind(AssertUnwindSafe(move || {
            rt::block_on(0xC15, async move {
                verif_hooks::clock::set(1_700_000_000_000);
                if persistent {
                    let node = std::sync::Arc::new(redis_sim::production::ReplicatedShardedState::new(crate::model::cluster::repl_config(1, redis_sim::replication::ConsistencyLevel::Eventual)));
                    let fut = crate::sp_bin::verif_handle_connection(SimStream(p2), node);
                    return tokio::time::timeout(std::time::Duration::from_secs(3600), fut).await.is_ok();
                }
                let state = ShardedActorState::with_shards(shards);
                let cfg = ConnectionConfig { read_buffer_size: read_buf, ..ConnectionConfig::default() };
                let fut = verif_hooks::connection(SimStream(p2), state, cfg);
                tokio::time::timeout(std::time::Duration::from_secs(3600), fut).await.is_ok()
            })
        }));
        verif_hooks::clock::clear();
        let p = pipe.borrow();
        for _ in 0..p.stalls_fired { ev.fault("read_stall"); }
        if cuts.len() >= 1 { ev.fault("handler_input_fragmented"); }
        if !tail.is_empty() { ev.fault("malformed_tail"); }
        match res {
            Err(pm) => {
                // attribute: does the codec alone panic on these bytes (decode defect), or did the panic come after decoding?
                let m = panic_msg(pm);
                let alone = drive_codec(&wire, &[], false);
                let key = if let End::Panic(_) = alone.end { format!("C15/panic/codec/{}", ev.label("codec", &wire, &rs_in, Fail::Panic)) } else { format!("C15/panic/{}/after-decode/{}", if persistent { "persistent-handler" } else { "handler" }, slug_msg(&m)) };
                ev.flag(key, format!("the production connection handler panicked (the shipped profile aborts the server) on input {} delivered in pieces cut at {:?}: {} [RespCodec::parse alone on the same bytes: {} frames then {}]", show(&wire), cuts, m, alone.frames.len(), alone.end.kind()), None);
            }
            Ok(false) => harness_fail(format!("C15 harness: handler did not finish although EOF was queued (input {})", show(&wire))),
            Ok(true) => {
                ev.probe("handler_session");
                if persistent { ev.probe("persistent_server_session"); }
                let out = &p.out;
                let rs = ref_stream(out);
                let clean = rs.tail == Tail::Clean;
                let replies = rs.frames.len();
                let hostile = cmds.iter().any(|c| c.iter().any(|a| a.iter().any(|x| *x == b'\r' || *x == b'\n')));
                if hostile { ev.probe("handler_command_with_line_break_bytes"); }
                let cmds_s = cmds.iter().map(|c| show_v(&command_value(c))).collect::<Vec<_>>().join(" ");
                if (!clean || (tail.is_empty() && replies != cmds.len())) && hostile {
                    ev.flag(format!("C15/redecode/line-break-bytes-echoed/{}", who), format!("handler given {} commands {} (one carries CR/LF bytes; tail {}) wrote {}: that reads back as {} canonical frames then {:?} - a reply with client bytes in a line value does not decode to itself", cmds.len(), cmds_s, show(&tail), show(out), replies, rs.tail), None);
                } else if !clean {
                    ev.flag(format!("C15/redecode/reply-stream-not-canonical/{}", who), format!("handler given commands {} (+ tail {}) wrote {}: after {} canonical frames the rest is {:?} ({}) - some reply does not decode to itself", cmds_s, show(&tail), show(out), replies, rs.tail, rs.anomaly), None);
                } else if tail.is_empty() && replies != cmds.len() {
                    ev.flag(format!("C15/redecode/reply-count/{}", who), format!("handler given {} commands {} wrote {} canonical frames {}: a reply decodes into a different number of values than were emitted", cmds.len(), cmds_s, replies, show(out)), None);
                } else if replies < cmds.len() {
                    ev.probe("handler_fewer_replies_than_commands_with_malformed_tail");
                }
            }
        }
        ev.rep.nontrivial = !cmds.is_empty();
        ev.rep.fingerprint = fnv(fnv(fnv(0, b"handler"), &wire), format!("{:?}{:?}{}{}", cuts, stalls, read_buf, persistent).as_bytes());
        ev.rep.sample = Some(json!({"mode": "handler", "commands": cmds.iter().take(4).map(|c| show_v(&command_value(c))).collect::<Vec<_>>(), "tail": show(&tail), "pieces": cuts.len() + 1, "reply_bytes": p.out.len()}));
    }
}

impl Property for C15 {
    fn id(&self) -> &'static str { "C15" }
    fn level(&self) -> &'static str { "fault_enumeration" }
    fn rule(&self) -> &'static str {
        "gen runs: a valid stream of 1-4 frames (commands as bulk arrays, value trees, nesting to 64) is damaged in transit: EOF at every offset, every split into <= 3 pieces (<= 24 bytes) or every 2-piece split plus tape-drawn multi-cuts, every length/integer field x 20 hostile replacements (-1,-2,0,2^31,2^62,2^63-1,2^64,i64::MIN,10^6,non-numeric...), every position x 11 grammar bytes and x 8 bit flips (sampled away from structure beyond 48 bytes); each damaged buffer goes through RespCodec::parse on a piecewise-filled BytesMut and RespParser::parse under catch_unwind and the allocation budget and is judged by the reference grammar. explicit runs: one <= 40-byte string from tape cells with all <= 3-piece fragmentations. enc runs: value trees and real executor replies through RespParser::encode / RespCodec::encode and back. handler runs: command streams (+ malformed tail) through the production handler on a SimStream. sweep (derived once per batch, probe sweep_inputs): all strings over 11 grammar bytes up to length 6 (quick) / 7 (thorough) with all 2-piece splits. evaluations = decoder feeds judged. Non-trivial = a run that damaged or fragmented a stream, a typed explicit input, a round-tripped value set or a handler session; distinct = fingerprint of (base stream, fault family) / explicit bytes / value set / session"
    }
    fn components_real(&self) -> Vec<&'static str> {
        vec!["redis::resp_optimized::RespCodec::{parse,try_parse,parse_*,find_crlf,encode}", "redis::resp::RespParser::{parse,encode}", "redis::commands::Command::from_resp_zero_copy + CommandExecutor::execute (source of emitted values)", "production::connection_optimized::OptimizedConnectionHandler::run incl. encode_resp_into / encode_error_into (via verif_hooks::connection) on ShardedActorState"]
    }
    fn components_stubbed(&self) -> Vec<&'static str> {
        vec!["TCP stream -> SimStream (in-memory, tape-chosen piece sizes and stalls, EOF)", "for the pure decoder feeds the handler's read loop is replaced by the same extend_from_slice + parse-until-None loop", "allocator -> CountingAlloc over System (only when installed by the binary)"]
    }
    fn assumptions(&self) -> Vec<&'static str> {
        vec![
            "reference grammar: RESP2 as written in this file; where the repo's decoders are more lenient than canonical RESP2 (non-canonical numbers, CR or LF inside a line, bulk payload not followed by CR LF) or the input is malformed, both a value and an error are accepted - only panics, over-reads, over-budget allocation, need-more on a decided buffer and piecewise/whole disagreement are claimed",
            "a prefix of a canonical frame must yield need-more only when its declared lengths are <= 64 KiB (bulk) / <= 1024 (array); above that an error is accepted too, so a decoder with sane limits does not alarm",
            "inputs with an array count in (2^20, 2^62) or more than 256 '*' bytes are not handed to the decoders (a decoder that reserves by the announced count, as this tree did before 0598191, would request up to exabytes from the OS, and unbounded recursion overflows the stack; either aborts the checking process instead of being observable); counts <= 2^20 and >= 2^62 and negative counts are exercised",
            "allocation bound = peak live heap per feed <= 64 x input bytes + 4 KiB (design said 16x; a sound decoder needs up to 40x: a 40-byte slot per input byte when with_capacity is capped by the bytes present, 27x from Vec doubling over 3-byte frames), checked only when CountingAlloc is the global allocator",
            "the handler's encoder is only observable through the reply bytes: they must form canonical frames, one per command, for a vocabulary of one-reply commands",
        ]
    }
    fn required_probes(&self) -> Vec<&'static str> {
        vec!["gen_stream_checked", "need_more_on_viable_prefix", "decided_nonstrict_input", "deep_nesting", "fragmented_4plus", "executor_reply_checked", "handler_session", "persistent_server_session", "persistent_server_encoder_checked", "sweep_inputs", "random_input_with_type_byte"]
    }
    fn runs(&self, tier: Tier) -> u64 { match tier { Tier::Quick => 3000, Tier::Thorough => 60_000 } }

    fn derive(&self, _tape: &[u64], rep: &RunReport, _tier: Tier) -> Vec<Vec<u64>> {
        if rep.probes.get("sweep_scheduled").copied().unwrap_or(0) == 0 { return vec![]; }
        (0..121u64).map(|c| vec![0, SWEEP_BASE + c]).collect()
    }

    fn run(&self, src: &mut Src, ctx: &RunCtx) -> RunReport {
        let mut ev = Ev::new(ctx);
        // header: always the same cells, so that a failing sub-case can be written into them
        let mode_cell = src.below(64);
        let arg = src.below(1 << 32);
        let mode = mode_of(mode_cell, arg);
        let alpha = src.below(4);
        let elen = src.below(EXPL_MAX as u64 + 1) as usize;
        let cells: Vec<u64> = (0..EXPL_MAX).map(|_| src.below(256)).collect();
        match mode {
            Mode::Explicit => self.run_explicit(&mut ev, alpha, elen, &cells),
            Mode::Sweep => self.run_sweep(&mut ev, arg - SWEEP_BASE),
            Mode::Gen => self.run_gen(&mut ev, src),
            Mode::Enc => self.run_enc(&mut ev, src),
            Mode::Handler => self.run_handler(&mut ev, src),
        }
        if ctx.index == 0 && mode != Mode::Sweep { ev.rep.probe("sweep_scheduled"); }
        ev.finish()
    }
}
