//! C11 — recovery returns exactly the merge of everything persisted, idempotently.
//!
//! Real code: StreamingPersistence::flush (segments), CheckpointManager::create_checkpoint +
//! Manifest::compact_segments (checkpoint installation), WalRotator (WAL), RecoveryManager::
//! {recover, recover_with_wal}, the `main`-style "recover + replay all WAL", and
//! ReplicatedShardedState::apply_recovered_state into a real node. A realistic update stream is
//! partitioned by tape into checkpoint / segments / WAL; metamorphic variants of the durable image
//! (permuted manifest.segments, a duplicated segment, repeated recovery) must recover the same.

use crate::model::crdt::{fold_impl, proj_s};
use crate::model::stream::{gen_stream, StreamCfg};
use crate::simkit::clock::SimClock;
use crate::simkit::disk::{Seq, SimWalStore};
use crate::simkit::rt;
use crate::simkit::runner::{Property, RunCtx, RunReport, Tier};
use crate::simkit::store::SimStore;
use crate::simkit::tape::{fnv, Src};
use redis_sim::production::ReplicatedShardedState;
use redis_sim::replication::state::{ReplicatedValue, ReplicationDelta};
use redis_sim::replication::{ConsistencyLevel, ReplicationConfig};
use redis_sim::streaming::{StreamingConfig, StreamingIntegration, CheckpointConfig, CheckpointInfo, CheckpointManager, ManifestManager, ObjectStore, RecoveryManager, StreamingPersistence, WalEntry, WalRotator, WriteBufferConfig};
use serde_json::json;
use std::collections::{BTreeMap, HashMap};
use std::sync::Arc;
use std::time::Duration;

pub struct C11;
const PREFIX: &str = "data";

fn diff(exp: &BTreeMap<String, ReplicatedValue>, got: &BTreeMap<String, ReplicatedValue>) -> Option<(String, String, String)> {
    let keys: std::collections::BTreeSet<&String> = exp.keys().chain(got.keys()).collect();
    for k in keys {
        let (e, g) = (exp.get(k).map(proj_s), got.get(k).map(proj_s));
        if e != g { return Some((k.clone(), e.unwrap_or_else(|| "<absent>".into()), g.unwrap_or_else(|| "<absent>".into()))); }
    }
    None
}

/// Projection for values too large to go through serde_json: stamps, expiry, tombstones, and every payload as (length, hash).
fn proj_big(v: &ReplicatedValue) -> String {
    let reg = |l: &redis_sim::replication::lattice::LwwRegister<redis_sim::redis::SDS>| format!("{:?}@({},{}){}", l.value.as_ref().map(|s| (s.as_bytes().len(), fnv(7, s.as_bytes()))), l.timestamp.time, l.timestamp.replica_id.0, if l.tombstone { "T" } else { "" });
    let body = if let Some(l) = v.lww() { reg(l) } else if let Some(h) = v.get_hash() { let m: BTreeMap<&String, String> = h.iter().map(|(f, l)| (f, reg(l))).collect(); format!("{:?}", m) } else { proj_s(v) };
    format!("{} {} outer@({},{}) exp={:?}", v.crdt_type(), body, v.timestamp.time, v.timestamp.replica_id.0, v.expiry_ms)
}
fn diff_big(exp: &BTreeMap<String, ReplicatedValue>, got: &BTreeMap<String, ReplicatedValue>) -> Option<(String, String, String)> {
    let keys: std::collections::BTreeSet<&String> = exp.keys().chain(got.keys()).collect();
    for k in keys {
        let (e, g) = (exp.get(k).map(proj_big), got.get(k).map(proj_big));
        if e != g { return Some((k.clone(), e.unwrap_or_else(|| "<absent>".into()), g.unwrap_or_else(|| "<absent>".into()))); }
    }
    None
}

pub fn repl_config(replica: u64) -> ReplicationConfig {
    ReplicationConfig { enabled: true, replica_id: replica, consistency_level: ConsistencyLevel::Eventual, gossip_interval_ms: 100, peers: vec![], replication_factor: 3, partitioned_mode: false, selective_gossip: false, virtual_nodes_per_physical: 50 }
}

impl C11 {
    /// One hot key with more than ten thousand successive values in a dozen segments (no compaction yet): the
    /// store recovers them all, and so must a node that is started on it - whatever queue lies in between.
    fn run_long_history(&self, src: &mut Src) -> RunReport {
        use redis_sim::redis::SDS;
        use redis_sim::replication::lattice::ReplicaId;
        use redis_sim::replication::state::ShardReplicaState;
        let mut rep = RunReport::default();
        rep.probe("long_history_over_10000_updates_of_one_key");
        let n = 10_200 + src.below(2_500) as usize;
        let per_seg = 700 + src.below(600) as usize;
        let seed = src.u64_any();
        let viol: Option<(String, String)> = rt::block_on(seed, async move {
            let mut w = ShardReplicaState::new(ReplicaId::new(1), ConsistencyLevel::Eventual);
            let store = SimStore::new(); store.set_record(false);
            let clock = SimClock::new(1_700_000_000_000);
            let wcfg = WriteBufferConfig { flush_interval: Duration::from_millis(50), max_size_bytes: 1 << 24, max_deltas: 100_000, backpressure_threshold_bytes: 1 << 26, compression_enabled: false };
            let mut p = match StreamingPersistence::with_clock(Arc::new(store.clone()), PREFIX.to_string(), 1, wcfg, clock.clone()).await { Ok(p) => p, Err(e) => return Some(("C11/setup".to_string(), e.to_string())) };
            let mut last = None;
            for i in 0..n {
                let d = w.record_write("hits".to_string(), SDS::from_str(&format!("{}", i + 1)), None);
                last = Some(d.value.clone());
                if let Err(e) = p.push(d) { return Some(("C11/setup-push".to_string(), e.to_string())); }
                if (i + 1) % per_seg == 0 || i + 1 == n { if let Err(e) = p.flush().await { return Some(("C11/setup-flush".to_string(), e.to_string())); } }
            }
            let want = proj_s(last.as_ref().expect("n > 0"));
            let rm = RecoveryManager::new(store.clone(), PREFIX, 1);
            match rm.recover().await {
                Ok(r) => { let got = fold_impl(r.checkpoint_state.as_ref(), r.deltas.iter()); if got.get("hits").map(proj_s) != Some(want.clone()) { return Some(("C11/recover/state-differs".to_string(), format!("{} updates of one key in {} segments: recover() folds to {:?}, expected {}", n, n.div_ceil(per_seg), got.get("hits").map(proj_s), want))); } }
                Err(e) => return Some(("C11/recover/error".to_string(), e.to_string())),
            }
            clock.publish();
            let node = ReplicatedShardedState::new(repl_config(1));
            let integ = StreamingIntegration::with_store(Arc::new(store.clone()), StreamingConfig { prefix: PREFIX.to_string(), ..StreamingConfig::default() }, 1);
            let mut res = None;
            for round in 0..2 {
                if let Err(e) = integ.recover(&node).await { res = Some(("C11/integration-recover/error".to_string(), e.to_string())); break; }
                let snap: BTreeMap<String, ReplicatedValue> = node.snapshot_state().await.into_iter().collect();
                if snap.get("hits").map(proj_s) != Some(want.clone()) {
                    res = Some(("C11/node/state-differs".to_string(), format!("{} updates of one key in {} segments: the node started on the store (round {}) holds {:?} for it, expected {}", n, n.div_ceil(per_seg), round + 1, snap.get("hits").map(proj_s), want)));
                    break;
                }
            }
            redis_sim::production::verif_hooks::clock::clear();
            res
        });
        if let Some((k, m)) = viol { rep.violate(k, m); }
        rep.evals = 3;
        rep.nontrivial = true;
        rep.fingerprint = fnv(0x11, &[(n % 251) as u8, (per_seg % 251) as u8]);
        rep.sample = Some(json!({"mode": "long history", "updates_of_one_key": n, "updates_per_segment": per_seg}));
        rep
    }

    /// One very large value (a string may be up to 512 MB) among small ones: in a segment, in a checkpoint and in the
    /// WAL with small entries behind it in the same file. Whatever was persisted must come back - a reader-side "sanity
    /// bound" on a length field that the writer does not share silently ends recovery at the large record.
    fn run_large_value(&self, src: &mut Src, tier: Tier) -> RunReport {
        use redis_sim::redis::SDS;
        use redis_sim::replication::lattice::ReplicaId;
        use redis_sim::replication::state::ShardReplicaState;
        let mut rep = RunReport::default();
        rep.probe("large_value_persisted");
        let sizes: &[usize] = match tier { Tier::Quick => &[1_200_000, 17_000_000, 34_000_000], Tier::Thorough => &[1_200_000, 17_000_000, 34_000_000, 70_000_000, 135_000_000] };
        let size = *src.pick(sizes) + src.below(1000) as usize;
        if size > 16_000_000 { rep.probe("large_value_over_16mib"); }
        let as_hash = src.chance(1, 4);
        let with_cp = src.chance(1, 2);
        let seed = src.u64_any();
        let viol: Option<(String, String)> = rt::block_on(seed, async move {
            let mut w = ShardReplicaState::new(ReplicaId::new(1), ConsistencyLevel::Eventual);
            let big = SDS::new(vec![b'v'; size]);
            let mut deltas: Vec<ReplicationDelta> = Vec::new();
            deltas.push(w.record_write("a".to_string(), SDS::from_str("1"), None));
            if as_hash { deltas.push(w.record_hash_write("big".to_string(), vec![("f".to_string(), big), ("g".to_string(), SDS::from_str("small"))])); } else { deltas.push(w.record_write("big".to_string(), big, None)); }
            deltas.push(w.record_write("b".to_string(), SDS::from_str("2"), None));
            deltas.push(w.record_write("a".to_string(), SDS::from_str("3"), None));
            let expected = fold_impl(None, deltas.iter());
            // object store: everything flushed in one segment (and, half of the time, a checkpoint over it)
            let store = SimStore::new(); store.set_record(false);
            let clock = SimClock::new(1_700_000_000_000);
            let wcfg = WriteBufferConfig { flush_interval: Duration::from_millis(50), max_size_bytes: 1 << 30, max_deltas: 100_000, backpressure_threshold_bytes: 1 << 31, compression_enabled: false };
            let mut p = match StreamingPersistence::with_clock(Arc::new(store.clone()), PREFIX.to_string(), 1, wcfg, clock.clone()).await { Ok(p) => p, Err(e) => return Some(("C11/setup".to_string(), e.to_string())) };
            for d in &deltas { if let Err(e) = p.push(d.clone()) { return Some(("C11/large-value/push-refused".to_string(), format!("a {}-byte value was refused by the write buffer: {}", size, e))); } }
            if let Err(e) = p.flush().await { return Some(("C11/large-value/flush-error".to_string(), format!("a {}-byte value could not be flushed: {}", size, e))); }
            if with_cp {
                let state: HashMap<String, ReplicatedValue> = expected.clone().into_iter().collect();
                let mm = ManifestManager::new(store.clone(), PREFIX);
                let mut manifest = match mm.load().await { Ok(m) => m, Err(e) => return Some(("C11/setup-manifest".to_string(), e.to_string())) };
                let last_id = manifest.segments.iter().map(|s| s.id).max().unwrap_or(0);
                let cm = CheckpointManager::with_time_source(Arc::new(store.clone()), PREFIX.to_string(), mm.clone(), CheckpointConfig::default(), clock.clone());
                match cm.create_checkpoint(state, last_id).await {
                    Ok(r) => { manifest.compact_segments(CheckpointInfo { key: r.key, timestamp_ms: r.timestamp_ms, key_count: r.key_count, last_segment_id: r.last_segment_id }); let _ = mm.save(&manifest).await; }
                    Err(e) => return Some(("C11/large-value/checkpoint-error".to_string(), format!("a {}-byte value could not be checkpointed: {}", size, e))),
                }
            }
            let rm = RecoveryManager::new(store.clone(), PREFIX, 1);
            match rm.recover().await {
                Ok(r) => { let got = fold_impl(r.checkpoint_state.as_ref(), r.deltas.iter()); if let Some((k, _, _)) = diff_big(&expected, &got) { return Some(("C11/recover/state-differs".to_string(), format!("a value of {} bytes ({}) persisted in {}: recover() does not return key {} as written", size, if as_hash { "hash field" } else { "string" }, if with_cp { "a checkpoint" } else { "a segment" }, k))); } }
                Err(e) => return Some(("C11/recover/error".to_string(), format!("store holding a {}-byte value: {}", size, e))),
            }
            // WAL alone (nothing flushed): default rotation size of the server (64 MB) or one far above the entry
            let wal = SimWalStore::new(Seq::default());
            let rot_size = if size < 30_000_000 { 64 * 1024 * 1024 } else { 4 * size };
            let mut rot = WalRotator::new(wal.clone(), rot_size).expect("rotator");
            for d in &deltas { let e = match WalEntry::from_delta(d, d.value.timestamp.time) { Ok(e) => e, Err(e) => return Some(("C11/large-value/wal-entry-refused".to_string(), e.to_string())) }; if let Err(e) = rot.append(&e) { return Some(("C11/large-value/wal-append-refused".to_string(), format!("a {}-byte value was refused by the WAL: {}", size, e))); } }
            let _ = rot.sync();
            drop(rot);
            let rot_r = WalRotator::new(wal.clone(), rot_size).expect("rotator");
            let mut wal_ds = Vec::new();
            match rot_r.recover_all_entries() { Ok(es) => { for e in es { if let Ok(d) = e.to_delta() { wal_ds.push(d); } } } Err(e) => return Some(("C11/main-style/error".to_string(), e.to_string())) }
            let got = fold_impl(None, wal_ds.iter());
            if let Some((k, _, _)) = diff_big(&expected, &got) { return Some(("C11/main-style/state-differs".to_string(), format!("WAL holding 4 updates, one of them a value of {} bytes: replaying all WAL entries gives {} updates and does not return key {} as written", size, wal_ds.len(), k))); }
            let empty = SimStore::new();
            match RecoveryManager::new(empty, PREFIX, 1).recover_with_wal(&rot_r).await {
                Ok(r) => { let got = fold_impl(r.checkpoint_state.as_ref(), r.deltas.iter()); if let Some((k, _, _)) = diff_big(&expected, &got) { return Some(("C11/recover_with_wal/state-differs".to_string(), format!("WAL holding a value of {} bytes: recover_with_wal() does not return key {} as written", size, k))); } }
                Err(e) => return Some(("C11/recover_with_wal/error".to_string(), e.to_string())),
            }
            // into a node
            let node = ReplicatedShardedState::with_time_source(repl_config(1), clock.clone());
            node.apply_recovered_state(None, wal_ds);
            let snap: BTreeMap<String, ReplicatedValue> = node.snapshot_state().await.into_iter().collect();
            if let Some((k, _, _)) = diff_big(&expected, &snap) { return Some(("C11/node/state-differs".to_string(), format!("node recovered from a WAL holding a value of {} bytes does not hold key {} as written", size, k))); }
            None
        });
        if let Some((k, m)) = viol { rep.violate(k, m); }
        rep.evals = 4;
        rep.nontrivial = true;
        rep.fingerprint = fnv(0x1b, &[(size % 251) as u8, (size / 1_000_000) as u8, as_hash as u8, with_cp as u8]);
        rep.sample = Some(json!({"mode": "large value", "bytes": size, "hash_field": as_hash, "checkpoint": with_cp}));
        rep
    }
}

impl Property for C11 {
    fn id(&self) -> &'static str { "C11" }
    fn level(&self) -> &'static str { "exploration" }
    fn rule(&self) -> &'static str {
        "update streams from 1-3 real ShardReplicaState replicas (strings with/without expiry, tombstones, hashes, remote deliveries pushing clocks far ahead) are pushed through the real flush path at tape-chosen points, optionally a checkpoint is installed over a prefix, and a tape-chosen suffix (or all) of the updates is also in the WAL; recovery by recover(), recover_with_wal(), main-style recover+replay-all-WAL, and into a real node, each compared key by key (full projection) with the fold of everything persisted; then metamorphic variants: manifest.segments permuted, one segment duplicated under a new id, recovery repeated. Non-trivial = >= 2 segments with interleaved stamp ranges or >= 1 WAL entry stamped <= the segments' maximum; distinct = (stream, partition)"
    }
    fn components_real(&self) -> Vec<&'static str> { vec!["streaming::persistence::StreamingPersistence::{push,flush}", "streaming::checkpoint::CheckpointManager::create_checkpoint + Manifest::compact_segments", "streaming::wal::WalRotator::{append,sync,recover_all_entries,recover_entries_after}", "streaming::recovery::RecoveryManager::{recover,recover_with_wal}", "production::ReplicatedShardedState::{apply_recovered_state,snapshot_state} with 16 real ReplicatedShardActors", "ReplicatedValue::merge"] }
    fn components_stubbed(&self) -> Vec<&'static str> { vec!["ObjectStore -> SimStore, WalStore -> SimWalStore (no faults in this check)", "server_persistent main(): its recovery wiring (integration.recover, WAL replay of all entries, apply_recovered_state) is restated in the harness"] }
    fn assumptions(&self) -> Vec<&'static str> { vec!["ground truth is the fold of all persisted updates with the implementation's own merge (C07 decides the merge laws); keys keep one data type per run so the open C07 type-mismatch finding is not re-reported here"] }
    fn required_probes(&self) -> Vec<&'static str> { vec!["wal_entry_below_segment_max", "interleaved_segment_ranges", "checkpoint_installed", "node_recovery_checked", "recovered_through_streaming_integration"] }
    fn runs(&self, tier: Tier) -> u64 { match tier { Tier::Quick => 80000, Tier::Thorough => 3000000 } }

    fn run(&self, src: &mut Src, ctx: &RunCtx) -> RunReport {
        // one run in 150 starts the server the way `main` of server_persistent does, on real files, kills or stops it
        // and starts it again (the wiring is copied out of main() by build.rs; see props/c08.rs)
        if src.below(150) == 0 { return crate::props::c08::run_server_lifecycle(src, ctx, "C11"); }
        let mut rep = RunReport::default();
        if src.chance(1, 1500) { return self.run_long_history(src); }
        if src.chance(1, 4000) { return self.run_large_value(src, ctx.tier); }
        let scfg = StreamCfg { nrep: 1 + src.below(3) as usize, nkeys: 1 + src.below(4) as usize, max_ops: 16, hashes: src.chance(1, 2), type_changes: false, deletes: true, expiry: src.chance(1, 3) };
        let t0 = 1_700_000_000_000u64;
        let (stream, t_end) = gen_stream(src, &scfg, t0);
        if stream.is_empty() { rep.evals = 1; return rep; }
        let deltas: Vec<ReplicationDelta> = stream.iter().map(|e| e.delta.clone()).collect();
        let n = deltas.len();
        // flush points, checkpoint point, WAL start
        let flush_after: Vec<bool> = (0..n).map(|i| src.chance(2, 5) || i + 1 == n).collect();
        let last_flushed = if src.chance(1, 4) { n.saturating_sub(1 + src.idx(n.min(3))) } else { n }; // updates beyond this are only in the WAL
        let wal_from = if src.chance(1, 3) { 0 } else { src.idx(n + 1) }; // WAL holds updates [wal_from, n)
        let wal_from = wal_from.min(last_flushed); // nothing may be persisted nowhere
        let cp_after_flush = if src.chance(1, 3) { Some(src.idx(4)) } else { None };
        let do_node = src.chance(1, 3) || ctx.index % 5 == 0;
        let shuffle: Vec<u64> = (0..8).map(|_| src.below(8)).collect();
        let trace = ctx.trace;
        if trace {
            for (i, e) in stream.iter().enumerate() { rep.trace.push(format!("#{} {} -> {} @({},{}){}{}", i, e.op, e.delta.value.crdt_type(), e.delta.value.timestamp.time, e.delta.value.timestamp.replica_id.0, if i < last_flushed && flush_after[i] { "  | flush" } else { "" }, if i >= wal_from { "  [in WAL]" } else { "" })); }
            rep.trace.push(format!("flushed prefix = {} updates, WAL holds updates {}.., checkpoint after flush #{:?}", last_flushed, wal_from, cp_after_flush));
        }
        let seed = src.u64_any();
        let expected = fold_impl(None, deltas.iter());
        struct Out { v: Vec<(String, String)>, probes: Vec<&'static str>, evals: u64, segs: Vec<(u64, u64)> }
        let deltas2 = deltas.clone();
        let flush_after2 = flush_after.clone();
        let out: Out = rt::block_on(seed, async move {
            let flush_after = flush_after2;
            let mut o = Out { v: vec![], probes: vec![], evals: 0, segs: vec![] };
            let store = SimStore::new();
            store.set_record(false);
            let clock = SimClock::new(t_end);
            let wcfg = WriteBufferConfig { flush_interval: Duration::from_millis(50), max_size_bytes: 1 << 20, max_deltas: 1000, backpressure_threshold_bytes: 1 << 22, compression_enabled: false };
            let mut p = match StreamingPersistence::with_clock(Arc::new(store.clone()), PREFIX.to_string(), 1, wcfg, clock.clone()).await { Ok(p) => p, Err(e) => { o.v.push(("C11/setup".into(), e.to_string())); return o; } };
            let mut flushed_so_far: Vec<ReplicationDelta> = Vec::new();
            let mut nflush = 0usize;
            let mut cp_done = false;
            for i in 0..last_flushed {
                let _ = p.push(deltas2[i].clone());
                flushed_so_far.push(deltas2[i].clone());
                if flush_after[i] || i + 1 == last_flushed {
                    match p.flush().await {
                        Ok(fr) => { if let Some(s) = fr.segment { o.segs.push((s.min_timestamp, s.max_timestamp)); } }
                        Err(e) => { o.v.push(("C11/setup-flush".into(), e.to_string())); return o; }
                    }
                    if cp_after_flush == Some(nflush) && !cp_done {
                        // checkpoint installation: snapshot of everything flushed so far, covering all segments so far
                        let state: HashMap<String, ReplicatedValue> = fold_impl(None, flushed_so_far.iter()).into_iter().collect();
                        let mm = ManifestManager::new(store.clone(), PREFIX);
                        let mut manifest = match mm.load().await { Ok(m) => m, Err(e) => { o.v.push(("C11/setup-manifest".into(), e.to_string())); return o; } };
                        let last_id = manifest.segments.iter().map(|s| s.id).max().unwrap_or(0);
                        let cm = CheckpointManager::with_time_source(Arc::new(store.clone()), PREFIX.to_string(), mm.clone(), CheckpointConfig::default(), clock.clone());
                        match cm.create_checkpoint(state, last_id).await {
                            Ok(r) => { manifest.compact_segments(CheckpointInfo { key: r.key, timestamp_ms: r.timestamp_ms, key_count: r.key_count, last_segment_id: r.last_segment_id }); let _ = mm.save(&manifest).await; cp_done = true; o.probes.push("checkpoint_installed"); }
                            Err(e) => { o.v.push(("C11/setup-checkpoint".into(), e.to_string())); return o; }
                        }
                    }
                    nflush += 1;
                }
            }
            // WAL
            let wal = SimWalStore::new(Seq::default());
            let mut rot = WalRotator::new(wal.clone(), 400).expect("rotator");
            for d in &deltas2[wal_from..] { let e = WalEntry::from_delta(d, d.value.timestamp.time).unwrap(); let _ = rot.append(&e); }
            let _ = rot.sync();
            let seg_max = o.segs.iter().map(|s| s.1).max().unwrap_or(0);
            if deltas2[wal_from..].iter().enumerate().any(|(j, d)| wal_from + j >= last_flushed && d.value.timestamp.time <= seg_max) { o.probes.push("wal_entry_below_segment_max"); }
            if o.segs.len() >= 2 && o.segs.iter().enumerate().any(|(i, a)| o.segs.iter().enumerate().any(|(j, b)| i != j && a.0 <= b.1 && b.0 <= a.1)) { o.probes.push("interleaved_segment_ranges"); }

            let persisted_store: Vec<&ReplicationDelta> = deltas2[..last_flushed].iter().collect();
            let exp_store = fold_impl(None, persisted_store.iter().copied());
            let exp_all = fold_impl(None, deltas2.iter());
            // (a) recover()
            let rm = RecoveryManager::new(store.clone(), PREFIX, 1);
            o.evals += 1;
            match rm.recover().await {
                Ok(r) => { let got = fold_impl(r.checkpoint_state.as_ref(), r.deltas.iter()); if let Some((k, e, g)) = diff(&exp_store, &got) { o.v.push(("C11/recover/state-differs".into(), format!("recover(): key {} expected {} got {}", k, e, g))); return o; } }
                Err(e) => { o.v.push(("C11/recover/error".into(), e.to_string())); return o; }
            }
            // (b) recover_with_wal()
            let rot_r = WalRotator::new(wal.clone(), 400).expect("rotator");
            o.evals += 1;
            match rm.recover_with_wal(&rot_r).await {
                Ok(r) => { let got = fold_impl(r.checkpoint_state.as_ref(), r.deltas.iter()); if let Some((k, e, g)) = diff(&exp_all, &got) { o.v.push(("C11/recover_with_wal/wal-entry-dropped-by-high-water-mark".into(), format!("recover_with_wal(): key {} expected {} got {} (segments' max stamp {})", k, e, g, seg_max))); } }
                Err(e) => { o.v.push(("C11/recover_with_wal/error".into(), e.to_string())); return o; }
            }
            // (c) main-style: recover + all WAL entries
            o.evals += 1;
            let main_style = async {
                let r = rm.recover().await.map_err(|e| e.to_string())?;
                let seg_ds = r.deltas;
                let mut wal_ds = Vec::new();
                for e in rot_r.recover_all_entries().map_err(|e| e.to_string())? { if let Ok(d) = e.to_delta() { wal_ds.push(d); } }
                Ok::<_, String>((r.checkpoint_state, seg_ds, wal_ds))
            }.await;
            let (cp_state, seg_deltas, wal_deltas) = match main_style { Ok(x) => x, Err(e) => { o.v.push(("C11/main-style/error".into(), e)); return o; } };
            let all_deltas: Vec<ReplicationDelta> = seg_deltas.iter().cloned().chain(wal_deltas.iter().cloned()).collect();
            let got = fold_impl(cp_state.as_ref(), all_deltas.iter());
            if let Some((k, e, g)) = diff(&exp_all, &got) { o.v.push(("C11/main-style/state-differs".into(), format!("recover()+replay of all WAL entries: key {} expected {} got {}", k, e, g))); return o; }
            // (d) into a real node, twice (idempotence)
            if do_node {
                o.probes.push("node_recovery_checked");
                // as server_persistent does: the object-store recovery through StreamingIntegration::recover
                // (its own recover_with_progress path), then the replay of the local WAL as a second, separate
                // application. Every other run uses apply_recovered_state on recover()'s result directly.
                let via_integration = shuffle[0] % 2 == 0;
                clock.publish();
                let node_p = ReplicatedShardedState::new(repl_config(1));
                let node_t = ReplicatedShardedState::with_time_source(repl_config(1), clock.clone());
                let integ = StreamingIntegration::with_store(Arc::new(store.clone()), StreamingConfig { prefix: PREFIX.to_string(), ..StreamingConfig::default() }, 1);
                for round in 0..2 {
                    if via_integration {
                        o.probes.push("recovered_through_streaming_integration");
                        if let Err(e) = integ.recover(&node_p).await { o.v.push(("C11/integration-recover/error".into(), e.to_string())); redis_sim::production::verif_hooks::clock::clear(); return o; }
                        node_p.apply_recovered_state(None, wal_deltas.clone());
                    } else {
                        node_t.apply_recovered_state(cp_state.clone(), seg_deltas.clone());
                        node_t.apply_recovered_state(None, wal_deltas.clone());
                    }
                    let snap: BTreeMap<String, ReplicatedValue> = if via_integration { node_p.snapshot_state().await.into_iter().collect() } else { node_t.snapshot_state().await.into_iter().collect() };

                    o.evals += 1;
                    if let Some((k, e, g)) = diff(&exp_all, &snap) { o.v.push((if round == 0 { "C11/node/state-differs".into() } else { "C11/node/repeat-recovery-differs".into() }, format!("node after apply_recovered_state (round {}): key {} expected {} got {}", round + 1, k, e, g))); return o; }
                }
            }
            redis_sim::production::verif_hooks::clock::clear();
            // ---- metamorphic variants of the durable image
            let mm = ManifestManager::new(store.clone(), PREFIX);
            if let Ok(manifest) = mm.load().await {
                // permuted segment list
                if manifest.segments.len() >= 2 {
                    let mut m2 = manifest.clone();
                    for i in (1..m2.segments.len()).rev() { let j = (shuffle[i % 8] as usize) % (i + 1); m2.segments.swap(i, j); }
                    let st2 = SimStore::from_objects(&store.objects());
                    let _ = st2.put(&format!("{}/manifest.json", PREFIX), &serde_json::to_vec(&m2).unwrap()).await;
                    o.evals += 1;
                    match RecoveryManager::new(st2, PREFIX, 1).recover().await {
                        Ok(r) => { let got = fold_impl(r.checkpoint_state.as_ref(), r.deltas.iter()); if let Some((k, e, g)) = diff(&exp_store, &got) { o.v.push(("C11/segment-order-dependence".into(), format!("manifest.segments permuted {:?}: key {} expected {} got {}", m2.segments.iter().map(|s| s.id).collect::<Vec<_>>(), k, e, g))); return o; } }
                        Err(e) => { o.v.push(("C11/segment-order/error".into(), e.to_string())); return o; }
                    }
                }
                // what a recovery that overlaps a compaction sees: the manifest it read first, and behind it a store in which
                // the segments that manifest lists have been merged into a new one and deleted since. Everything is still
                // persisted; a recovery that cannot find a listed segment must say so, not return what is left.
                if manifest.segments.len() >= 2 && shuffle[1] % 2 == 0 {
                    let st4 = SimStore::from_objects(&store.objects());
                    let mkey = format!("{}/manifest.json", PREFIX);
                    if let Ok(old_manifest) = st4.get(&mkey).await {
                        let ccfg = redis_sim::streaming::CompactionConfig { target_segment_size: 1 << 20, max_segments: 1, min_segments_to_compact: 2, max_segments_per_compaction: 10, tombstone_ttl: Duration::from_secs(3600), compression_enabled: false };
                        let mut compactor = redis_sim::streaming::Compactor::with_time_source(Arc::new(st4.clone()), PREFIX.to_string(), ManifestManager::new(st4.clone(), PREFIX), ccfg, clock.clone());
                        if compactor.compact().await.is_ok() {
                            let _ = st4.put(&mkey, &old_manifest).await;
                            o.evals += 1;
                            o.probes.push("recovery_with_the_manifest_from_before_a_compaction");
                            if let Ok(r) = RecoveryManager::new(st4, PREFIX, 1).recover().await {
                                let got = fold_impl(r.checkpoint_state.as_ref(), r.deltas.iter());
                                if let Some((k, e, g)) = diff(&exp_store, &got) { o.v.push(("C11/recover/listed-segment-missing-skipped".into(), format!("recover() read the manifest from before a compaction ({} segments) and the store from after it (inputs merged and deleted): it reports success and returns for key {} {} instead of {}", manifest.segments.len(), k, g, e))); return o; }
                            }
                        }
                    }
                }
                // one segment duplicated under a new id
                if let Some(s0) = manifest.segments.first().cloned() {
                    let mut m3 = manifest.clone();
                    let id = m3.allocate_segment_id();
                    let key = format!("{}/segments/segment-{:08}.seg", PREFIX, id);
                    let st3 = SimStore::from_objects(&store.objects());
                    if let Ok(bytes) = st3.get(&s0.key).await {
                        let _ = st3.put(&key, &bytes).await;
                        let mut dup = s0.clone(); dup.id = id; dup.key = key;
                        m3.add_segment(dup);
                        let _ = st3.put(&format!("{}/manifest.json", PREFIX), &serde_json::to_vec(&m3).unwrap()).await;
                        o.evals += 1;
                        match RecoveryManager::new(st3, PREFIX, 1).recover().await {
                            Ok(r) => { let got = fold_impl(r.checkpoint_state.as_ref(), r.deltas.iter()); if let Some((k, e, g)) = diff(&exp_store, &got) { o.v.push(("C11/duplicate-segment-changes-state".into(), format!("segment {} duplicated as {}: key {} expected {} got {}", s0.id, id, k, e, g))); return o; } }
                            Err(e) => { o.v.push(("C11/duplicate-segment/error".into(), e.to_string())); return o; }
                        }
                    }
                }
            }
            o
        });
        for (k, m) in out.v { rep.violate(k, m); }
        for p in &out.probes { rep.probe(p); }
        rep.evals = out.evals.max(1);
        rep.nontrivial = out.probes.contains(&"interleaved_segment_ranges") || out.probes.contains(&"wal_entry_below_segment_max");
        let mut fp = fnv(0, &[last_flushed as u8, wal_from as u8, cp_after_flush.map(|x| x as u8 + 1).unwrap_or(0)]);
        for d in &deltas { fp = fnv(fp, d.key.as_bytes()); fp = fnv(fp, &d.value.timestamp.time.to_le_bytes()); fp = fnv(fp, &[d.value.timestamp.replica_id.0 as u8, d.value.is_tombstone() as u8, d.value.is_hash() as u8]); }
        for (i, f) in flush_after.iter().enumerate() { if *f { fp = fnv(fp, &[i as u8]); } }
        rep.fingerprint = fp;
        let _ = expected;
        rep.sample = Some(json!({
            "stream": stream.iter().map(|e| format!("{} @({},{})", e.op, e.delta.value.timestamp.time, e.delta.value.timestamp.replica_id.0)).collect::<Vec<_>>(),
            "flushed_prefix": last_flushed, "wal_from": wal_from, "checkpoint_after_flush": cp_after_flush, "segment_stamp_ranges": out.segs, "node_recovery": do_node,
        }));
        rep
    }
}
