//! C06 — replicas converge: once updates are delivered, all replicas answer reads alike.
//!
//! 2-4 real nodes (ReplicatedShardedState with 16 real ReplicatedShardActors each, real GossipState)
//! on the deterministic runtime; clients issue the commands the replication glue handles at any
//! node; a gossip pump moves serialized GossipMessages through SimNet (delay, reorder, duplicate,
//! loss with later redelivery, partition/heal). After faults stop every emitted delta is delivered
//! to every node; then every replica must answer GET/HGETALL/EXISTS/TTL identically, the agreed
//! value must be the one with the greatest (time, replica) stamp, and each replica's answers must
//! match its own replication state.

use crate::model::cluster::{deltas_of, Node, SimNet};
use crate::model::crdt::{proj_conv_s, proj_s};
use crate::model::wire::{show_cmd, R};
use crate::simkit::clock::SimClock;
use crate::simkit::rt;
use crate::simkit::runner::{Property, RunCtx, RunReport, Tier};
use crate::simkit::tape::{fnv, Src};
use redis_sim::replication::state::{CrdtValue, ReplicationDelta, ReplicatedValue};
use redis_sim::replication::ConsistencyLevel;
use serde_json::json;
use std::collections::{BTreeMap, BTreeSet};

pub struct C06;
type Cmd = Vec<Vec<u8>>;

fn gen_cmd(src: &mut Src, uniq: &mut u64, hashes: bool, type_changes: bool, expiry: bool, focus: u64) -> Cmd {
    let b = |s: &str| s.as_bytes().to_vec();
    *uniq += 1;
    // focus 1: everything happens to one hash; focus 2: to one string key (deep histories of one key)
    let k = if focus > 0 { 0 } else { src.idx(3) };
    let skey = b(&format!("k{}", k));
    let hkey = if type_changes { skey.clone() } else { b(&format!("h{}", k)) };
    let v = b(&format!("v{}", uniq));
    let f = b(&format!("f{}", src.idx(if focus == 1 { 6 } else { 3 })));
    let n = if hashes { 16 } else { 11 };
    let pick = match focus { 1 if hashes => 11 + src.below(6), 2 => [0u64, 2, 3, 4, 5, 8, 9][src.idx(7)], _ => src.below(n) };
    match pick {
        0 | 1 => vec![b("SET"), skey, v],
        2 => vec![b("SET"), skey, v, b(if src.chance(1, 2) { "NX" } else { "XX" })],
        3 => match src.below(4) { 0 => vec![b("SET"), skey, v, b("NX"), b("GET")], 1 => vec![b("SET"), skey, v, b("XX"), b("GET")], _ => vec![b("SET"), skey, v, b("GET")] },
        4 => if expiry { if src.chance(1, 2) { vec![b("SET"), skey, v, b("EX"), b(["100", "1", "0"][src.idx(3)])] } else { vec![b("SET"), skey, v, b("PX"), b(["100000", "1500", "500", "1"][src.idx(4)])] } } else { vec![b("SET"), skey, v] },
        // (now and then a command naming two keys: the node splits it into one replicated write per key)
        5 => if focus == 0 && src.chance(1, 4) { let k2 = b(&format!("k{}", (k + 1) % 3)); if src.chance(1, 2) { vec![b("DEL"), skey, k2] } else { vec![b("MSET"), skey, v.clone(), k2, b(&format!("w{}", uniq))] } } else { vec![b("DEL"), skey] },
        6 => vec![b(["INCR", "DECR"][src.idx(2)]), b("ctr")],
        7 => vec![b(["INCRBY", "DECRBY"][src.idx(2)]), b("ctr"), b(&format!("{}", src.irange(1, 5)))],
        8 => vec![b("APPEND"), skey, b(&format!("+{}", uniq))],
        9 => vec![b("GETSET"), skey, v],
        10 => vec![b("SET"), b("ctr"), b(&format!("{}", src.irange(0, 50)))],
        11 | 12 => vec![b("HSET"), hkey, f, v],
        16 => { // several fields at once
            let mut c = vec![b("HSET"), hkey];
            for i in 0..(2 + src.idx(if focus == 1 { 5 } else { 2 })) { c.push(b(&format!("f{}", i))); c.push(b(&format!("v{}.{}", uniq, i))); }
            c
        }
        13 => vec![b("HDEL"), hkey, f],
        14 => vec![b("HINCRBY"), hkey, b("n"), b(&format!("{}", src.irange(1, 5)))],
        _ => vec![b("DEL"), hkey],
    }
}

impl Property for C06 {
    fn id(&self) -> &'static str { "C06" }
    fn level(&self) -> &'static str { "exploration" }
    fn rule(&self) -> &'static str {
        "2-4 real nodes, Eventual or Causal; <= 24 client commands (SET with NX/XX/GET/EX/PX, DEL of strings and hashes, INCR/DECR/INCRBY/DECRBY, APPEND, GETSET, HSET/HDEL/HINCRBY; optionally type changes on one key) issued at tape-chosen nodes, interleaved with tape-chosen network events (deliver any in-flight message = reorder, duplicate, lose-and-redeliver-later, partition, heal); then all faults stop, everything lost is redelivered and every delta ever emitted reaches every node in a tape-chosen order. Non-trivial = >= 2 nodes wrote the same key while messages were withheld, lost or reordered; distinct = (commands, nodes, network decisions)"
    }
    fn components_real(&self) -> Vec<&'static str> { vec!["production::ReplicatedShardedState::{execute,apply_remote_deltas,snapshot_state} with 16 ReplicatedShardActors per node", "ReplicatedShardActor::{record_mutation_post_execute,apply_remote_delta_impl}", "replication::GossipState::{queue_deltas,drain_outbound}, GossipMessage::{serialize,deserialize,into_deltas}", "ShardReplicaState / ReplicatedValue::merge"] }
    fn components_stubbed(&self) -> Vec<&'static str> { vec!["GossipManager's TCP loop -> gossip pump over SimNet (same calls: drain_outbound, serialize, deserialize, apply_remote_deltas)", "clients call ReplicatedShardedState::execute directly (no connection handler in the replicated server either)", "clock stands still (no eviction ticks)"] }
    fn assumptions(&self) -> Vec<&'static str> { vec!["premise of the property is established by construction: after the fault phase every emitted delta is handed to every node", "the agreed value is computed from the deltas seen on the wire: greatest (time, replica) stamp per key / per hash field"] }
    fn required_probes(&self) -> Vec<&'static str> { vec!["same_key_written_at_two_nodes", "message_reordered", "message_lost_then_redelivered", "partitioned", "hash_written", "node_restarted", "message_lost_for_good_then_anti_entropy"] }
    fn runs(&self, tier: Tier) -> u64 { match tier { Tier::Quick => 50000, Tier::Thorough => 1500000 } }

    fn run(&self, src: &mut Src, ctx: &RunCtx) -> RunReport {
        let mut rep = RunReport::default();
        // every sixth run drives the repository's own cluster simulator (simulator::multi_node) instead of real nodes
        if src.below(6) == 0 { return run_repo_simulator(src, ctx); }
        // one run in 25: the network tier - nodes wired as the persistent server wires them, on the simulated network (c06_net.rs)
        if src.chance(1, 25) { super::c06_net::run(src, ctx, &mut rep); rep.evals = rep.evals.max(1); return rep; }
        let n = 2 + src.below(3) as usize;
        let level = if src.chance(1, 3) { ConsistencyLevel::Causal } else { ConsistencyLevel::Eventual };
        let hashes = src.chance(2, 3);
        let type_changes = hashes && src.chance(1, 5);
        let expiry = src.chance(1, 4);
        let mut uniq = 0u64;
        // script: commands and network events
        let focus = if src.chance(1, 4) { 1 + src.below(2) } else { 0 };
        // The premise "each update has reached every replica" holds once the network has drained (every
        // message was sent to every other node; lost ones are redelivered). Half of the runs stop there;
        // the other half additionally hand every delta to every node again in a random order, as an
        // anti-entropy pass would (which must not change the outcome, but can mask a lost update).
        let full_redelivery = src.chance(1, 2);
        let anti_entropy_instead = src.chance(1, 4);
        let script: Vec<(u64, usize, Cmd, usize)> = src.list(40, 29, 30, |s| { let kind = s.below(10); let node = s.idx(n); let c = gen_cmd(s, &mut uniq, hashes, type_changes, expiry, focus); (kind, node, c, s.idx(n)) });
        let seed = src.u64_any();
        let trace = ctx.trace;
        struct Out { viol: Vec<(String, String)>, log: Vec<String>, probes: BTreeMap<&'static str, u64>, faults: BTreeMap<&'static str, u64>, nontrivial: bool, evals: u64 }
        let script2 = script.clone();
        let out: Out = rt::block_on(seed, async move {
            let mut o = Out { viol: vec![], log: vec![], probes: BTreeMap::new(), faults: BTreeMap::new(), nontrivial: false, evals: 0 };
            let clock = SimClock::new(1_700_000_000_000);
            // in a quarter of the runs the nodes gossip through their other backend: a GossipActor (a mailbox in front of the
            // GossipState) instead of the shared lock
            let actor_backend = seed % 4 == 0;
            if actor_backend { *o.probes.entry("gossip_actor_backend").or_insert(0) += 1; }
            let mk = |i: u64| if actor_backend { Node::with_gossip_actor(i, level, &clock) } else { Node::new(i, level, &clock) };
            let mut nodes: Vec<Node> = (0..n).map(|i| mk(i as u64 + 1)).collect();
            let mut net = SimNet::default();
            let mut all_deltas: Vec<ReplicationDelta> = Vec::new();
            let mut writers: BTreeMap<String, BTreeSet<usize>> = BTreeMap::new();
            let mut withheld = false;
            for (kind, node, c, other) in &script2 {
                if *kind < 5 {
                    // client command at `node`
                    let r = nodes[*node].exec(c).await;
                    if trace { o.log.push(format!("node{}: {} -> {}", node + 1, show_cmd(c), r.show())); }
                    let msgs = nodes[*node].pump().await;
                    let name = String::from_utf8_lossy(&c[0]).to_uppercase();
                    let emitted: Vec<ReplicationDelta> = msgs.iter().flat_map(|m| deltas_of(m)).collect();
                    // a delta for a write that did not happen
                    let noop = match (name.as_str(), &r) {
                        ("SET", R::Bulk(None)) if c.iter().any(|a| a == b"NX" || a == b"XX") && !c.iter().any(|a| a == b"GET") => true,
                        (_, R::Err(_)) => true,
                        _ => false,
                    };
                    if noop && !emitted.is_empty() {
                        let key = if r.is_err() { format!("C06/delta-for-write-that-did-not-happen/error-reply/{}", name) } else { format!("C06/delta-for-write-that-did-not-happen/{}", name) };
                        o.viol.push((key, format!("node{}: {} replied {} (nothing was written) but a delta was emitted: {}", node + 1, show_cmd(c), r.show(), emitted.iter().map(|d| format!("{} {}", d.key, proj_s(&d.value))).collect::<Vec<_>>().join("; "))));
                        return o;
                    }
                    // right after the command: what this node serves for the key must be what its
                    // replication state (and hence the delta it gossips) says
                    if c.len() >= 2 && !r.is_err() {
                        let key = String::from_utf8_lossy(&c[1]).into_owned();
                        let snap = nodes[*node].snapshot().await;
                        if let Some(rv) = snap.get(&key) {
                            let bb = |s: &str| s.as_bytes().to_vec();
                            let served_s = nodes[*node].exec(&vec![bb("GET"), c[1].clone()]).await;
                            let served_h = nodes[*node].exec(&vec![bb("HGETALL"), c[1].clone()]).await;
                            let state_live: Option<String> = match &rv.crdt {
                                CrdtValue::Lww(l) => l.get().map(|v| format!("string {:?}", String::from_utf8_lossy(v.as_bytes()))),
                                CrdtValue::Hash(h) => { let mut f: Vec<String> = h.iter().filter_map(|(f, l)| l.get().map(|v| format!("{}={}", f, String::from_utf8_lossy(v.as_bytes())))).collect(); f.sort(); if f.is_empty() { None } else { Some(format!("hash {:?}", f)) } }
                                _ => None,
                            };
                            let served_live: Option<String> = match (&served_s, &served_h) {
                                (R::Bulk(Some(v)), _) => Some(format!("string {:?}", String::from_utf8_lossy(v))),
                                (_, R::Arr(Some(xs))) if !xs.is_empty() && xs.len() % 2 == 0 => { let mut f: Vec<String> = xs.chunks(2).filter_map(|p| match (&p[0], &p[1]) { (R::Bulk(Some(a)), R::Bulk(Some(b))) => Some(format!("{}={}", String::from_utf8_lossy(a), String::from_utf8_lossy(b))), _ => None }).collect(); f.sort(); Some(format!("hash {:?}", f)) }
                                _ => None,
                            };
                            if state_live != served_live {
                                let vk = if name == "DEL" && rv.is_hash() { "C06/del-of-hash-not-replicated".to_string() } else { format!("C06/served-differs-from-replication-state-after/{}", name) };
                                o.viol.push((vk, format!("node{}: after {} -> {} the node serves {:?} for {} but its replication state (what peers will get) says {:?}", node + 1, show_cmd(c), r.show(), served_live, key, state_live)));
                                return o;
                            }
                        }
                    }
                    for d in &emitted {
                        writers.entry(d.key.clone()).or_default().insert(*node);
                        if d.value.is_hash() { *o.probes.entry("hash_written").or_insert(0) += 1; }
                        all_deltas.push(d.clone());
                    }
                    for m in msgs { for to in 0..n { if to != *node { net.send(*node, to, m.clone()); } } }
                    if writers.values().any(|w| w.len() >= 2) { *o.probes.entry("same_key_written_at_two_nodes").or_insert(0) += 1; if withheld || !net.flying.is_empty() { o.nontrivial = true; } }
                } else if *kind < 8 {
                    if let Some(f) = net.step(src, true) {
                        let _ = nodes[f.to].receive(&f.bytes);
                        nodes[f.to].snapshot().await; // lets the shard actors process the deltas
                        if trace { o.log.push(format!("net: deliver #{} node{} -> node{}", f.id, f.from + 1, f.to + 1)); }
                    }
                    withheld = true;
                } else if *kind == 8 {
                    if node != other { net.partition(*node, *other); *o.probes.entry("partitioned").or_insert(0) += 1; *o.faults.entry("net_partition").or_insert(0) += 1; withheld = true; if trace { o.log.push(format!("net: partition node{} | node{}", node + 1, other + 1)); } }
                } else if node == other {
                    // the node restarts from a checkpoint of its own replication state (nothing is lost: the
                    // checkpoint is taken at this instant); messages in flight keep arriving afterwards
                    let snap: std::collections::HashMap<String, ReplicatedValue> = nodes[*node].state.snapshot_state().await.into_iter().collect();
                    let fresh = mk(*node as u64 + 1);
                    // every other restart rebuilds the node from a replayed log instead (WAL / segment replay: the same
                    // state arrives as a sequence of the node's own persisted deltas, through the remote-delta path)
                    let from_log = c.len() % 2 == 0;
                    if from_log {
                        let me = redis_sim::replication::lattice::ReplicaId::new(*node as u64 + 1);
                        let mut ds: Vec<ReplicationDelta> = snap.into_iter().map(|(k, v)| ReplicationDelta::new(k, v, me)).collect();
                        ds.sort_by(|a, b| a.key.cmp(&b.key));
                        fresh.state.apply_recovered_state(None, ds);
                    } else {
                        fresh.state.apply_recovered_state(Some(snap), vec![]);
                    }
                    let _ = fresh.snapshot().await;
                    nodes[*node] = fresh;
                    *o.faults.entry(if from_log { "node_restart_from_replayed_log" } else { "node_restart_from_checkpoint" }).or_insert(0) += 1;
                    *o.probes.entry("node_restarted").or_insert(0) += 1;
                    if trace { o.log.push(format!("node{}: restarts from {}", node + 1, if from_log { "a replayed log of its own deltas" } else { "a checkpoint of its state" })); }
                } else { net.heal(); if trace { o.log.push("net: heal".to_string()); } }
            }
            // ---- faults stop: heal, drain, redeliver, then hand every delta to every node
            net.heal();
            let lost = std::mem::take(&mut net.lost);
            // lost messages either arrive after all (redelivery), or never do and the replicas' state reaches the
            // others by anti-entropy instead: every node pushes what it holds for every key to every other node
            if !anti_entropy_instead {
                if !lost.is_empty() { *o.probes.entry("message_lost_then_redelivered").or_insert(0) += lost.len() as u64; }
                for f in lost { net.flying.push(f); }
            } else if !lost.is_empty() { *o.probes.entry("message_lost_for_good_then_anti_entropy").or_insert(0) += lost.len() as u64; }
            let mut guard = 0;
            while !net.flying.is_empty() && guard < 10_000 { guard += 1; if let Some(f) = net.step(src, false) { let _ = nodes[f.to].receive(&f.bytes); } }
            if net.reordered > 0 { *o.probes.entry("message_reordered").or_insert(0) += net.reordered; }
            *o.faults.entry("net_reorder").or_insert(0) += net.reordered; *o.faults.entry("net_duplicate").or_insert(0) += net.duplicated; *o.faults.entry("net_drop_then_redeliver").or_insert(0) += net.dropped;
            if anti_entropy_instead {
                for _round in 0..2 {
                    for i in 0..n { for j in 0..n { if i == j { continue; }
                        let st: Vec<(String, ReplicatedValue)> = { let mut v: Vec<(String, ReplicatedValue)> = nodes[i].state.snapshot_state().await.into_iter().collect(); v.sort_by(|a, b| a.0.cmp(&b.0)); v };
                        let ds: Vec<ReplicationDelta> = st.into_iter().map(|(k, v)| ReplicationDelta::new(k, v, redis_sim::replication::lattice::ReplicaId::new(i as u64 + 1))).collect();
                        nodes[j].state.apply_remote_deltas(ds);
                        let _ = nodes[j].snapshot().await;
                    } }
                }
            }
            for (i, node) in nodes.iter().enumerate() {
                if !full_redelivery || anti_entropy_instead { break; }
                let mut order: Vec<usize> = (0..all_deltas.len()).collect();
                for j in (1..order.len()).rev() { let x = src.idx(j + 1); order.swap(j, x); }
                let _ = i;
                node.state.apply_remote_deltas(order.iter().map(|j| all_deltas[*j].clone()).collect());
            }
            let snaps: Vec<_> = { let mut v = Vec::new(); for nd in &nodes { v.push(nd.snapshot().await); } v };
            // ---- oracle
            let keys: BTreeSet<String> = all_deltas.iter().map(|d| d.key.clone()).collect();
            let b = |s: &str| s.as_bytes().to_vec();
            for k in &keys {
                o.evals += 1;
                let kinds: BTreeSet<&'static str> = all_deltas.iter().filter(|d| &d.key == k).map(|d| d.value.crdt_type()).collect();
                let has_expiry = all_deltas.iter().any(|d| &d.key == k && d.value.expiry_ms.is_some());
                let class = if kinds.len() > 1 { "type-conflict" } else if has_expiry { "with-expiry" } else if kinds.contains("hash") { "hash" } else { "string" };
                let mut answers: Vec<String> = Vec::new();
                for nd in &nodes {
                    let get = nd.exec(&vec![b("GET"), k.as_bytes().to_vec()]).await;
                    let hg = match nd.exec(&vec![b("HGETALL"), k.as_bytes().to_vec()]).await { R::Arr(Some(xs)) if xs.len() % 2 == 0 => { let mut p: Vec<(R, R)> = xs.chunks(2).map(|c| (c[0].clone(), c[1].clone())).collect(); p.sort(); R::Arr(Some(p.into_iter().flat_map(|(a, b)| [a, b]).collect())) } o => o };
                    let ex = nd.exec(&vec![b("EXISTS"), k.as_bytes().to_vec()]).await;
                    let ttl = nd.exec(&vec![b("TTL"), k.as_bytes().to_vec()]).await;
                    answers.push(format!("GET={} HGETALL={} EXISTS={} TTL={}", get.show(), hg.show(), ex.show(), ttl.show()));
                }
                // where SET and HSET raced on the key, a divergence that is already in the replication
                // states is the merge's doing (recorded root cause), not the materialisation's
                if class == "type-conflict" {
                    let projs: Vec<Option<String>> = snaps.iter().map(|s| s.get(k).map(proj_conv_s)).collect();
                    if projs.iter().any(|p| p != &projs[0]) {
                        o.viol.push(("C06/replication-state-differs/type-conflict".to_string(), format!("key {}: {} || served: {}", k, projs.iter().enumerate().map(|(i, p)| format!("node{}: {}", i + 1, p.clone().unwrap_or_else(|| "<absent>".into()))).collect::<Vec<_>>().join(" | "), answers.join(" | "))));
                        return o;
                    }
                }
                if answers.iter().any(|a| a != &answers[0]) {
                    o.viol.push((format!("C06/replicas-answer-differently/{}", class), format!("key {} after every delta reached every node: {}", k, answers.iter().enumerate().map(|(i, a)| format!("node{}: {}", i + 1, a)).collect::<Vec<_>>().join(" | "))));
                    return o;
                }
                // replication metadata agrees too
                let projs: Vec<Option<String>> = snaps.iter().map(|s| s.get(k).map(proj_conv_s)).collect();
                if projs.iter().any(|p| p != &projs[0]) {
                    o.viol.push((format!("C06/replication-state-differs/{}", class), format!("key {}: {}", k, projs.iter().enumerate().map(|(i, p)| format!("node{}: {}", i + 1, p.clone().unwrap_or_else(|| "<absent>".into()))).collect::<Vec<_>>().join(" | "))));
                    return o;
                }
                // (2) agreed value = greatest stamp (string keys without type conflict)
                if class == "string" || class == "with-expiry" {
                    let win = all_deltas.iter().filter(|d| &d.key == k).filter_map(|d| d.value.lww().map(|l| (l.timestamp, l.get().map(|s| s.as_bytes().to_vec())))).max_by_key(|(ts, _)| *ts);
                    if let Some((ts, val)) = win {
                        let got = nodes[0].exec(&vec![b("GET"), k.as_bytes().to_vec()]).await;
                        let want = R::Bulk(val);
                        if got != want && class == "string" {
                            o.viol.push(("C06/agreed-value-not-greatest-stamp/string".into(), format!("key {}: greatest stamp ({},{}) carries {} but replicas serve {}", k, ts.time, ts.replica_id.0, want.show(), got.show())));
                            return o;
                        }
                    }
                }
                // (3) what a replica serves equals what its replication state says
                for (i, nd) in nodes.iter().enumerate() {
                    if let Some(rv) = snaps[i].get(k) {
                        match &rv.crdt {
                            CrdtValue::Lww(l) => {
                                let got = nd.exec(&vec![b("GET"), k.as_bytes().to_vec()]).await;
                                let want = R::Bulk(l.get().map(|s| s.as_bytes().to_vec()));
                                if got != want && !got.is_err() {
                                    o.viol.push((format!("C06/served-value-differs-from-replication-state/{}", class), format!("node{} key {}: GET -> {} but its replication state holds {}", i + 1, k, got.show(), want.show())));
                                    return o;
                                }
                            }
                            CrdtValue::Hash(h) => {
                                let live: BTreeMap<Vec<u8>, Vec<u8>> = h.iter().filter_map(|(f, l)| l.get().map(|v| (f.as_bytes().to_vec(), v.as_bytes().to_vec()))).collect();
                                let got = nd.exec(&vec![b("HGETALL"), k.as_bytes().to_vec()]).await;
                                let gotm: Option<BTreeMap<Vec<u8>, Vec<u8>>> = match &got { R::Arr(Some(xs)) if xs.len() % 2 == 0 => Some(xs.chunks(2).filter_map(|c| match (&c[0], &c[1]) { (R::Bulk(Some(a)), R::Bulk(Some(b))) => Some((a.clone(), b.clone())), _ => None }).collect()), _ => None };
                                if let Some(g) = gotm { if g != live {
                                    o.viol.push((format!("C06/served-value-differs-from-replication-state/{}", class), format!("node{} key {}: HGETALL -> {} but its replication state holds live fields {:?}", i + 1, k, got.show(), live.iter().map(|(a, b)| format!("{}={}", String::from_utf8_lossy(a), String::from_utf8_lossy(b))).collect::<Vec<_>>())));
                                    return o;
                                } }
                            }
                            _ => {}
                        }
                    }
                }
            }
            o
        });
        rep.trace = out.log;
        for (k, m) in out.viol { rep.violate(k, m); }
        for (k, v) in out.probes { rep.probe_n(k, v); }
        for (k, v) in out.faults { if v > 0 { *rep.faults.entry(k).or_insert(0) += v; } }
        rep.evals = out.evals.max(1);
        rep.nontrivial = out.nontrivial;
        let mut fp = fnv(0, &[n as u8, hashes as u8, type_changes as u8, expiry as u8]);
        for (k, nd, c, o2) in &script { fp = fnv(fp, &[*k as u8, *nd as u8, *o2 as u8]); for a in c { fp = fnv(fp, a); } }
        rep.fingerprint = fp;
        rep.sample = Some(json!({"full_redelivery_at_end": full_redelivery, "anti_entropy_instead_of_redelivery": anti_entropy_instead, "focus": focus, "nodes": n, "consistency": format!("{:?}", level), "type_changes": type_changes, "expiry": expiry, "script": script.iter().take(14).map(|(k, nd, c, o2)| if *k < 5 { format!("node{}: {}", nd + 1, show_cmd(c)) } else if *k < 8 { "net: deliver/duplicate/lose one message".to_string() } else if *k == 8 { format!("net: partition node{}|node{}", nd + 1, o2 + 1) } else { "net: heal".to_string() }).collect::<Vec<_>>() }));
        rep
    }
}


/// The repository's own cluster model (`MultiNodeSimulation`: SimulatedNode = CommandExecutor + ShardReplicaState,
/// its gossip rounds with delay, loss and partitions, its anti-entropy exchange, broadcast or ring-routed) under a
/// tape-drawn workload. Once the faults have stopped (partitions healed, loss off) and gossip plus anti-entropy have
/// run, every replica responsible for a key serves the value of the write with the greatest stamp, and what its
/// executor serves is what its replication state says.
fn run_repo_simulator(src: &mut Src, ctx: &RunCtx) -> RunReport {
    use redis_sim::redis::{Command, RespValue, SDS};
    use redis_sim::simulator::multi_node::MultiNodeSimulation;
    let mut rep = RunReport::default();
    rep.probe("repo_cluster_simulator_run");
    let n = 2 + src.below(4) as usize;
    let mode = src.below(3); // 0 broadcast + automatic anti-entropy on heal, 1 broadcast without it, 2 ring-routed (selective gossip)
    let rf = 1 + src.below(n as u64) as usize;
    let loss = *src.pick(&[0.0f64, 0.0, 0.2, 0.6]);
    let delay = *src.pick(&[(1u64, 10u64), (0, 0), (5, 60)]);
    let nkeys = 1 + src.below(4) as usize;
    // ops: 0 SET, 1 DEL, 2 partition, 3 heal, 4 gossip round, 5 time passes
    let ops: Vec<(u64, usize, usize, usize)> = src.list(40, 29, 30, |s| (s.weighted(&[6, 2, 2, 2, 4, 2]) as u64, s.idx(n), s.idx(n), s.idx(nkeys)));
    let sim_seed = src.u64_any();
    let mut sim = match mode { 0 => MultiNodeSimulation::new(n, sim_seed), 1 => MultiNodeSimulation::new_without_anti_entropy(n, sim_seed), _ => MultiNodeSimulation::new_partitioned(n, rf, sim_seed) }
        .with_packet_loss(loss).with_message_delay(delay.0, delay.1);
    let trace = ctx.trace;
    rep.log(trace, || format!("repo simulator: {} nodes, mode {} (rf {}), loss {}, delay {:?}, {} keys", n, ["broadcast+auto-anti-entropy", "broadcast", "ring-routed"][mode as usize], rf, loss, delay, nkeys));
    // every write with the stamp the accepting node gave it
    let mut writes: BTreeMap<String, Vec<((u64, u64), Option<String>)>> = BTreeMap::new();
    let mut uniq = 0u64;
    let mut fp = fnv(0, format!("{}{}{}{}{:?}", n, mode, rf, loss, delay).as_bytes());
    for (kind, a, b2, k) in &ops {
        fp = fnv(fp, &[*kind as u8, *a as u8, *b2 as u8, *k as u8]);
        let key = format!("k{}", k);
        match kind {
            0 | 1 => {
                uniq += 1;
                let (cmd, val) = if *kind == 0 { let v = format!("v{}", uniq); (Command::set(key.clone(), SDS::from_str(&v)), Some(v)) } else { (Command::del(key.clone()), None) };
                let r = sim.execute(0, *a, cmd);
                if let Some(rv) = sim.nodes[*a].replica_state.replicated_keys.get(&key) {
                    let st = (rv.timestamp.time, rv.timestamp.replica_id.0);
                    // a DEL of a key the node has never heard of records nothing new
                    let fresh = writes.get(&key).map(|w| w.iter().all(|(s0, _)| *s0 != st)).unwrap_or(true);
                    if fresh { writes.entry(key.clone()).or_default().push((st, val.clone())); }
                    rep.log(trace, || format!("node{} {} {} -> {:?}  stamp {:?}", a, if *kind == 0 { "SET" } else { "DEL" }, key, r, st));
                }
            }
            2 => { if a != b2 { sim.partition(*a, *b2); rep.fault("net_partition"); rep.log(trace, || format!("partition {}-{}", a, b2)); } }
            3 => { if a != b2 { sim.heal_partition(*a, *b2); rep.log(trace, || format!("heal {}-{}", a, b2)); } }
            4 => { sim.advance_time_ms(10); sim.gossip_round(); rep.log(trace, || "gossip round".to_string()); }
            _ => { sim.advance_time_ms(100); }
        }
    }
    if loss > 0.0 { rep.fault("net_loss"); }
    // ---- faults stop: heal everything, no more loss; gossip drains, anti-entropy repairs what was lost for good
    for a in 0..n { for b2 in (a + 1)..n { sim.heal_partition(a, b2); } }
    sim.packet_loss_rate = 0.0;
    sim.converge(12);
    let mut rounds = 0;
    loop {
        sim.run_full_anti_entropy();
        sim.converge(3);
        rounds += 1;
        let mut equal = true;
        for a in 0..n { for b2 in (a + 1)..n { if sim.nodes[a].generate_digest().differs_from(&sim.nodes[b2].generate_digest()) { equal = false; } } }
        if equal || rounds >= 12 { break; }
    }
    rep.evals = 1;
    let ring = sim.hash_ring.clone();
    for (key, ws) in &writes {
        rep.evals += 1;
        let (best, want) = ws.iter().max_by_key(|(s0, _)| *s0).cloned().expect("non-empty");
        if ws.iter().map(|(s0, _)| s0.1).collect::<BTreeSet<_>>().len() >= 2 { rep.nontrivial = true; *rep.probes.entry("same_key_written_at_two_nodes").or_insert(0) += 1; }
        let owners: Vec<usize> = match &ring { Some(r) => r.read().expect("ring").get_replicas(key).iter().map(|x| x.0 as usize - 1).collect(), None => (0..n).collect() };
        for o in owners {
            let held = sim.nodes[o].get_replicated_value(key);
            if held != want {
                rep.violate("C06/repo-simulator/replica-does-not-hold-greatest-stamp", format!("after partitions healed, loss stopped, 12+ gossip rounds and {} full anti-entropy passes: node {} (responsible for {}) holds {:?} but the write with the greatest stamp {:?} is {:?}; all writes {:?}; all nodes hold {:?}", rounds, o, key, held, best, want, ws, sim.get_all_values(key)));
                rep.fingerprint = fp; return rep;
            }
            let served = match sim.nodes[o].executor.execute(&Command::Get(key.clone())) { RespValue::BulkString(Some(b)) => Some(String::from_utf8_lossy(&b).into_owned()), _ => None };
            if served != held {
                rep.violate("C06/repo-simulator/served-differs-from-replication-state", format!("node {} serves {:?} for {} but its replication state says {:?}", o, served, key, held));
                rep.fingerprint = fp; return rep;
            }
        }
    }
    rep.fingerprint = fp;
    let gossip_kind = ["broadcast+auto-anti-entropy", "broadcast", "ring-routed"][mode as usize];
    rep.sample = Some(serde_json::json!({"mode": "repo cluster simulator", "nodes": n, "gossip": gossip_kind, "rf": rf, "loss": loss, "ops": ops.len(), "keys_written": writes.len()}));
    rep
}
