//! C06, network tier: nodes wired the way `server_persistent`'s `main()` wires them - a `ReplicatedShardedState`, the
//! binary's own `start_gossip_listener` / `handle_gossip_connection` (build.rs puts the binary's sockets on the in-memory
//! network of hook H7) and `GossipManager::start_gossip_loop` draining the node's gossip state every interval - instead of
//! the 15-line gossip pump of `model/cluster.rs`. Clients write strings and hashes at tape-chosen nodes while byte pipes of
//! 1..65536 bytes cut every frame into short writes; in half of the runs connections are reset and refused for a while.
//!
//! Oracle (the statement's premise is "once updates are delivered"): in a fault-free run nothing is lost, so five gossip
//! intervals after the last write every node must hold the same replication state for every key and serve the same
//! reads. Where faults flowed, what was written into a breaking connection is legitimately gone (no anti-entropy runs in
//! this wiring), so only keys first written after the faults stopped are judged.

use crate::model::crdt::proj_conv_s;
use crate::model::wire::{parse_cmd, show_cmd, R};
use crate::props::c19_mgr::on_node;
use crate::simkit::clock::SimClock;
use crate::simkit::rt::{self, Sched};
use crate::simkit::runner::{RunCtx, RunReport};
use crate::simkit::tape::{fnv, Src};
use redis_sim::production::verif_hooks::simnet;
use redis_sim::production::{GossipManager, ReplicatedShardedState};
use redis_sim::replication::{ConsistencyLevel, ReplicationConfig};
use std::collections::{BTreeMap, BTreeSet};
use std::sync::Arc;

pub const K_NET_DIFF: &str = "C06/network-tier/replicas-differ-after-delivery";
pub const K_NET_SERVE: &str = "C06/network-tier/replicas-answer-differently-after-delivery";

type Cmd = Vec<Vec<u8>>;

pub fn run(src: &mut Src, ctx: &RunCtx, rep: &mut RunReport) {
    if !crate::sp_bin::GOSSIP_AVAILABLE { rep.probe("network_tier_unavailable"); return; }
    let n = 2 + src.below(3);
    let cap = [65_536usize, 1, 5, 64, 4096][src.idx(5)];
    let interval_ms = [100u64, 10, 1000][src.idx(3)];
    let with_faults = src.chance(1, 2);
    let rounds = 2 + src.below(4);
    rep.probe("network_tier_runs");
    let b = |s: &str| s.as_bytes().to_vec();
    let mut fp = fnv(0, format!("net|{}|{}|{}|{}", n, cap, interval_ms, with_faults).as_bytes());
    rep.log(ctx.trace, || format!("network tier: {} nodes wired as server_persistent does, pipe capacity {} bytes, gossip interval {} ms, faults {}", n, cap, interval_ms, with_faults));
    let ids: Vec<u64> = (1..=n).collect();
    let port = |id: u64| 7000u16 + id as u16;
    let trace = ctx.trace;

    struct Out { viol: Vec<(&'static str, String)>, log: Vec<String>, sim_ms: u64, steps: u64, judged: u64, stats: simnet::Stats, fp: u64 }
    let seed = fp ^ 0x06;
    let out: Out = rt::block_on(seed, async {
        let mut o = Out { viol: vec![], log: vec![], sim_ms: 0, steps: 0, judged: 0, stats: Default::default(), fp };
        simnet::reset(cap);
        let clock = SimClock::new(1_700_000_000_000);
        clock.publish();
        let mut sched = Sched::new();
        let mut states: Vec<Arc<ReplicatedShardedState>> = Vec::new();
        for id in &ids {
            let peers: Vec<String> = ids.iter().filter(|j| *j != id).map(|j| format!("redis-{}.redis-headless.default.svc.cluster.local:{}", j - 1, port(*j))).collect();
            // ClusterConfig::to_replication_config of the binary: broadcast gossip, eventual consistency
            let cfg = ReplicationConfig { enabled: true, replica_id: *id, consistency_level: ConsistencyLevel::Eventual, gossip_interval_ms: interval_ms, peers, replication_factor: 3, partitioned_mode: false, selective_gossip: false, virtual_nodes_per_physical: 150 };
            let state = Arc::new(ReplicatedShardedState::new(cfg.clone()));
            let Some(gs) = state.get_gossip_state() else { return o };
            let st2 = state.clone();
            let p = port(*id);
            sched.add(format!("listener{}", id), on_node(*id as u8, async move { let _ = crate::sp_bin::verif_gossip_listener(p, st2).await; }));
            sched.add(format!("loop{}", id), on_node(*id as u8, GossipManager::start_gossip_loop(cfg, gs, Vec::new)));
            states.push(state);
        }
        let t0 = tokio::time::Instant::now();
        for _ in 0..(4 * n) { sched.step(src, 0).await; }
        let mut uniq = 0u64;
        let mut refused: BTreeSet<(u8, u16)> = BTreeSet::new();
        let mut judged_keys: BTreeSet<String> = BTreeSet::new();
        let mut tainted: BTreeSet<String> = BTreeSet::new();
        for round in 0..=rounds {
            let healed = round == rounds;
            if healed {
                for (a, p) in std::mem::take(&mut refused) { simnet::set_refused(a, p, false); }
                let until = tokio::time::Instant::now() + std::time::Duration::from_millis(2 * interval_ms);
                while tokio::time::Instant::now() < until { sched.step(src, 1).await; }
            }
            let writes = 1 + src.below(5);
            for _ in 0..writes {
                src.begin();
                let at = src.idx(ids.len());
                uniq += 1;
                let ki = src.below(3);
                // strings and hashes live under different names (a string and a hash racing on one name is the recorded
                // type-conflict finding of C06); names first written after the heal carry their own prefix
                let pre = if healed && with_faults { "late-" } else { "" };
                let c: Cmd = match src.below(6) {
                    0 | 1 => vec![b("SET"), b(&format!("{}s{}", pre, ki)), b(&format!("v{}", uniq))],
                    2 => vec![b("DEL"), b(&format!("{}s{}", pre, ki))],
                    3 | 4 => vec![b("HSET"), b(&format!("{}h{}", pre, ki)), b(&format!("f{}", src.below(3))), b(&format!("v{}", uniq))],
                    _ => vec![b("HDEL"), b(&format!("{}h{}", pre, ki)), b(&format!("f{}", src.below(3)))],
                };
                src.end();
                let key = String::from_utf8_lossy(&c[1]).into_owned();
                if !with_faults || healed { if !tainted.contains(&key) { judged_keys.insert(key.clone()); } } else { tainted.insert(key.clone()); judged_keys.remove(&key); }
                let r = match parse_cmd(&c) { Ok(cmd) => R::from_resp(&states[at].execute(cmd).await), Err(e) => R::Err(e) };
                o.fp = fnv(o.fp, format!("{}@{}", show_cmd(&c), at).as_bytes());
                if trace { o.log.push(format!("node{}: {} -> {}", at + 1, show_cmd(&c), r.show())); }
                clock.advance(1 + src.below(3)); clock.publish();
            }
            let until = tokio::time::Instant::now() + std::time::Duration::from_millis(interval_ms + src.below(interval_ms));
            while tokio::time::Instant::now() < until {
                if with_faults && !healed && src.chance(1, 12) {
                    let a = ids[src.idx(ids.len())];
                    let bb = ids[src.idx(ids.len())];
                    if a != bb {
                        if src.chance(1, 2) { if simnet::reset_connections(a as u8, port(bb)) > 0 { o.fp = fnv(o.fp, b"r"); if trace { o.log.push(format!("net resets the connection {} -> {}", a, bb)); } } }
                        else if refused.insert((a as u8, port(bb))) { simnet::set_refused(a as u8, port(bb), true); simnet::reset_connections(a as u8, port(bb)); o.fp = fnv(o.fp, b"p"); if trace { o.log.push(format!("net partitions {} -> {}", a, bb)); } }
                    }
                }
                sched.step(src, 1).await;
            }
        }
        let until = tokio::time::Instant::now() + std::time::Duration::from_millis(5 * interval_ms);
        while tokio::time::Instant::now() < until { sched.step(src, 1).await; }
        // ---- every judged key: same replication state, same answers, on every node
        let mut snaps: Vec<BTreeMap<String, String>> = Vec::new();
        for s in &states { snaps.push(s.snapshot_state().await.into_iter().map(|(k, v)| (k, proj_conv_s(&v))).collect()); }
        for key in &judged_keys {
            o.judged += 1;
            let views: Vec<Option<&String>> = snaps.iter().map(|m| m.get(key)).collect();
            if views.iter().any(|v| *v != views[0]) {
                o.viol.push((K_NET_DIFF, format!("{}: five gossip intervals after the last write the nodes hold different replication states for {:?}: {}", if with_faults { "after the faults had stopped (key first written afterwards)" } else { "fault-free run" }, key, views.iter().enumerate().map(|(i, v)| format!("node{}: {}", i + 1, v.map(|s| s.chars().take(260).collect::<String>()).unwrap_or_else(|| "absent".into()))).collect::<Vec<_>>().join(" | "))));
                break;
            }
            let mut answers: Vec<String> = Vec::new();
            for s in &states {
                let g = match parse_cmd(&vec![b("GET"), key.as_bytes().to_vec()]) { Ok(c) => R::from_resp(&s.execute(c).await), Err(e) => R::Err(e) };
                let h = match parse_cmd(&vec![b("HGETALL"), key.as_bytes().to_vec()]) { Ok(c) => R::from_resp(&s.execute(c).await), Err(e) => R::Err(e) };
                let h = match h { R::Arr(Some(xs)) if xs.len() % 2 == 0 => { let mut p: Vec<String> = xs.chunks(2).map(|c| format!("{}={}", c[0].show(), c[1].show())).collect(); p.sort(); p.join(",") } other => other.show() };
                answers.push(format!("GET -> {}, HGETALL -> [{}]", g.show(), h));
            }
            if answers.iter().any(|a| *a != answers[0]) {
                o.viol.push((K_NET_SERVE, format!("the nodes answer differently for {:?} after every update was delivered: {}", key, answers.iter().enumerate().map(|(i, a)| format!("node{}: {}", i + 1, a)).collect::<Vec<_>>().join(" | "))));
                break;
            }
        }
        o.sim_ms = t0.elapsed().as_millis() as u64;
        o.steps = sched.steps;
        o.stats = simnet::stats();
        drop(sched);
        drop(states);
        simnet::reset(cap);
        redis_sim::production::verif_hooks::clock::clear();
        o
    });
    fp = out.fp;
    rep.sim_ms += out.sim_ms;
    rep.steps += out.steps;
    rep.evals += out.judged;
    rep.probe_n("network_tier_keys_judged", out.judged);
    rep.probe_n("network_tier_bytes_on_wire", out.stats.bytes_written);
    if out.stats.short_writes > 0 { rep.fault("gossip_short_socket_write"); }
    if out.stats.resets > 0 { rep.fault("gossip_connection_reset"); }
    if out.stats.refused > 0 { rep.fault("gossip_partition_refusing_connections"); }
    for l in out.log { rep.trace.push(l); }
    rep.nontrivial = out.judged > 0 && out.stats.bytes_written > 0;
    rep.fingerprint = fp;
    rep.sub_fps.push(fp);
    for (k, m) in out.viol { rep.log(ctx.trace, || format!("!! {}: {}", k, m)); rep.violate(k, m); }
}
