//! C12 — streaming persistence is crash-consistent at every step and loses nothing confirmed.
//!
//! Real code: StreamingPersistence (push/flush), ManifestManager, Compactor, RecoveryManager,
//! SegmentWriter/Reader on a SimStore. One run = one workload (push/flush/compact) + one fault plan;
//! `derive` enumerates every single-fault placement over the pilot's object-store calls. Inside each
//! run a crash image is taken before every mutating store call and "during" every put (object left
//! holding a prefix); every image is recovered and compared with the flushes confirmed before it.

use crate::simkit::clock::SimClock;
use crate::simkit::rt;
use crate::simkit::runner::{Property, RunCtx, RunReport, Tier};
use crate::simkit::store::{Objects, OpKind, SimStore, StoreFault};
use crate::simkit::tape::{fnv, mix, Src};
use redis_sim::redis::SDS;
use redis_sim::replication::lattice::{LamportClock, ReplicaId};
use redis_sim::replication::state::{ReplicatedValue, ReplicationDelta};
use redis_sim::streaming::{CompactionConfig, Compactor, ManifestManager, RecoveryManager, StreamingPersistence, WriteBufferConfig};
use serde_json::json;
use std::collections::{BTreeMap, BTreeSet};
use std::sync::Arc;
use std::time::Duration;

pub struct C12;

pub const PREFIX: &str = "data";
const KINDS: u64 = 11;
fn kind_of(k: u64) -> StoreFault {
    match k % KINDS {
        0 => StoreFault::PutError,
        1 => StoreFault::PutTorn(0),
        2 => StoreFault::PutTorn(500),
        3 => StoreFault::PutTorn(999),
        4 => StoreFault::PutAmbiguous,
        5 => StoreFault::GetError,
        6 => StoreFault::RenameError,
        7 => StoreFault::DeleteError,
        9 => StoreFault::GetCorrupt,
        10 => StoreFault::RenameAmbiguous,
        _ => StoreFault::ListIncomplete,
    }
}
fn kinds_for(op: &str) -> Vec<u64> {
    match op { "put" => vec![0, 1, 2, 3, 4], "get" => vec![5, 9], "rename" => vec![6, 10], "delete" => vec![7], "list" => vec![8], _ => vec![] }
}

#[derive(Debug, Clone)]
enum Op { Push(u64), Flush, Compact }

pub fn upd(id: u64) -> ReplicationDelta {
    let r = ReplicaId::new(1 + id % 2);
    ReplicationDelta::new(format!("u{}", id), ReplicatedValue::with_value(SDS::from_str(&format!("val{}", id)), LamportClock { time: 10 + id, replica_id: r }), r)
}

pub async fn recover_keys(objs: &Objects) -> Result<BTreeSet<String>, String> {
    let st = SimStore::from_objects(objs);
    let rm = RecoveryManager::new(st, PREFIX, 1);
    let rec = rm.recover().await.map_err(|e| e.to_string())?;
    let mut keys = BTreeSet::new();
    if let Some(cp) = &rec.checkpoint_state { for (k, v) in cp { if v.get().is_some() { keys.insert(k.clone()); } } }
    for d in &rec.deltas {
        if d.value.get().map(|s| s.to_string()) == Some(format!("val{}", d.key.trim_start_matches('u'))) { keys.insert(d.key.clone()); }
        else { return Err(format!("recovered delta {} carries a value that was never written: {:?}", d.key, d.value.get().map(|s| s.to_string()))); }
    }
    Ok(keys)
}

impl C12 {
    /// The pipeline `server_persistent` starts: `StreamingIntegration::start_workers` (delta sink channel, bridge
    /// task, persistence actor owning the StreamingPersistence) fed through the `DeltaSinkSender`, store faults by
    /// call index, a crash image around every store call, and `WorkerHandles::shutdown` at the end.
    fn run_workers(&self, src: &mut Src, ctx: &RunCtx, plan: BTreeMap<u64, StoreFault>) -> RunReport {
        use redis_sim::streaming::config::{CompactionConfig as CfgCompaction, StreamingConfig};
        use redis_sim::streaming::integration::StreamingIntegration;
        let mut rep = RunReport::default();
        rep.probe("worker_pipeline_run");
        let max_deltas = *src.pick(&[2usize, 1, 3, 1000]);
        let tick_always = src.chance(1, 2); // flush interval 0: every bridge round sends a tick, and a non-empty buffer is due
        let skew = *src.pick(&[0u64, 0, 5_000_000]); // the flush timer's clock runs fast (hook H4): time-triggered flushes
        let graceful_faults_off = src.chance(3, 4);
        // ops: 0 = push, 1 = let the pipeline run for a while
        let raw = src.list(16, 7, 8, |s| s.weighted(&[3, 2]));
        let mut next = 0u64;
        let mut ops: Vec<(u64, u64)> = Vec::new();
        for r in raw { if r == 0 { ops.push((0, next)); next += 1; } else { ops.push((1, 1 + src.below(3))); } }
        let trace = ctx.trace;
        rep.log(trace, || format!("worker pipeline: ops {:?} (0=push id, 1=settle n rounds), max_deltas={} tick_always={} timer skew={}ms faults {:?} faults-off-before-shutdown={}", ops, max_deltas, tick_always, skew, plan, graceful_faults_off));
        let store = SimStore::new();
        store.set_plan(plan.clone());
        let st = store.clone();
        let ops2 = ops.clone();
        let seed = src.u64_any();
        let (pushed, shutdown_done, err): (Vec<u64>, bool, Option<String>) = rt::block_on(seed, async move {
            redis_sim::production::verif_hooks::clock::set_elapsed_skew(skew);
            let cfg = StreamingConfig {
                enabled: true, prefix: PREFIX.to_string(),
                write_buffer: WriteBufferConfig { flush_interval: if tick_always { Duration::ZERO } else { Duration::from_secs(3600) }, max_size_bytes: 1 << 20, max_deltas, backpressure_threshold_bytes: 1 << 22, compression_enabled: false },
                compaction: CfgCompaction { max_segments: 0, ..CfgCompaction::default() },
                ..StreamingConfig::default()
            };
            let integ = StreamingIntegration::with_store(Arc::new(st.clone()), cfg, 1);
            let (handles, sender) = match integ.start_workers().await { Ok(x) => x, Err(e) => return (Vec::new(), false, Some(e.to_string())) };
            let mut pushed = Vec::new();
            for (kind, arg) in &ops2 {
                if *kind == 0 { if sender.send(upd(*arg)).is_ok() { pushed.push(*arg); } }
                else { for _ in 0..*arg { tokio::time::sleep(Duration::from_millis(15)).await; } }
            }
            if graceful_faults_off { st.set_plan(BTreeMap::new()); }
            let done = tokio::time::timeout(Duration::from_secs(600), handles.shutdown()).await.is_ok();
            (pushed, done, None)
        });
        redis_sim::production::verif_hooks::clock::set_elapsed_skew(0);
        let d = store.inner.lock().unwrap();
        let (events, images, fired, final_objs) = (d.events.clone(), d.images.clone(), d.fired.clone(), d.objs.clone());
        drop(d);
        for (_, f) in &fired { rep.fault(f.name()); }
        if trace { for e in &events { rep.trace.push(format!("store op={} {} {} len={} fault={:?} ok={}", e.op, e.kind.name(), e.key, e.len, e.fault, e.ok)); } }
        let wl_fp = { let mut h = fnv(0xD0, format!("{:?}{}{}{}", ops, max_deltas, tick_always, skew).as_bytes()); for (c, f) in &fired { h = fnv(h, &c.to_le_bytes()); h = fnv(h, f.name().as_bytes()); } h };
        rep.fingerprint = wl_fp;
        rep.evals = 1;
        if let Some(e) = err {
            if plan.is_empty() { rep.violate("C12/worker/setup-failed", e); }
            return rep;
        }
        if !shutdown_done { rep.violate("C12/worker/shutdown-hangs", format!("WorkerHandles::shutdown() did not return within 600 simulated seconds ({} updates pushed)", pushed.len())); return rep; }
        // every crash image recovers, holds only written values, and never loses what an earlier image already held
        let checks: Vec<Result<BTreeSet<String>, String>> = rt::block_on(mix(seed, 77), async { let mut out = Vec::new(); for img in images.iter() { out.push(recover_keys(&img.objects).await); } out });
        let mut seen: BTreeSet<String> = BTreeSet::new();
        for (i, res) in checks.into_iter().enumerate() {
            let img = &images[i];
            rep.evals += 1;
            rep.fault("crash_between_or_during_store_calls");
            match res {
                Err(e) => { rep.violate(if img.phase == "during-put" { "C12/recovery-fails/crash-during-put" } else { "C12/recovery-fails/crash-between-ops" }, format!("worker pipeline, crash {} store op {}: recovery fails: {}", img.phase, img.op, e)); return rep; }
                Ok(keys) => {
                    if img.phase != "during-put" {
                        if let Some(m) = seen.iter().find(|k| !keys.contains(*k)) { rep.violate("C12/worker/persisted-update-vanished", format!("worker pipeline: update {} was recoverable from the store as it was before op {} but no longer at a crash {} store op {} (recovered {:?})", m, img.op, img.phase, img.op, keys)); return rep; }
                        if !keys.is_empty() { rep.probe("crash_after_confirmed_flush"); rep.sub_fps.push(fnv(wl_fp, &[i as u8, (i >> 8) as u8, 7])); }
                        seen = keys;
                    }
                }
            }
        }
        // graceful shutdown on a healthy store: everything handed to the sink is on the store
        rep.evals += 1;
        match rt::block_on(mix(seed, 78), async { recover_keys(&final_objs).await }) {
            Err(e) => rep.violate("C12/recovery-fails/at-rest", format!("worker pipeline: after a graceful shutdown recovery fails: {}", e)),
            Ok(keys) => {
                if graceful_faults_off {
                    rep.probe("graceful_shutdown_checked");
                    if let Some(m) = pushed.iter().find(|id| !keys.contains(&format!("u{}", id))) {
                        rep.violate("C12/worker/update-lost-at-graceful-shutdown", format!("worker pipeline: update u{} was handed to the delta sink, the store was healthy from before the shutdown on, WorkerHandles::shutdown() returned, and the update is not recoverable (pushed {:?}, recovered {:?}; store faults earlier in the run: {:?})", m, pushed, keys, fired.iter().map(|(c, f)| format!("op{}:{}", c, f.name())).collect::<Vec<_>>()));
                    }
                }
            }
        }
        rep.nontrivial = !pushed.is_empty();
        rep.sample = Some(json!({"mode": "worker pipeline", "ops": ops.iter().map(|(k, a)| if *k == 0 { format!("push u{}", a) } else { format!("settle {}", a) }).collect::<Vec<_>>(), "max_deltas": max_deltas, "tick_always": tick_always, "timer_skew_ms": skew,
            "faults_fired": fired.iter().map(|(c, f)| format!("op{}:{}", c, f.name())).collect::<Vec<_>>(), "store_calls": events.iter().map(|e| e.kind.name()).collect::<Vec<_>>(), "crash_images": images.len()}));
        rep
    }
}

impl C12 {
    fn run_write_buffer(&self, src: &mut Src, ctx: &RunCtx, plan: BTreeMap<u64, StoreFault>) -> RunReport {
        use redis_sim::streaming::{SegmentReader, WriteBuffer};
        let mut rep = RunReport::default();
        rep.probe("write_buffer_workload");
        let raw = src.list(14, 7, 8, |s| s.weighted(&[5, 3]));
        let mut ops: Vec<Op> = Vec::new();
        let mut next = 0u64;
        for r in raw { if r == 0 { ops.push(Op::Push(next)); next += 1; } else { ops.push(Op::Flush); } }
        ops.push(Op::Flush);
        let trace = ctx.trace;
        rep.log(trace, || format!("write buffer ops: {:?} faults: {:?}", ops, plan));
        let store = SimStore::new();
        store.set_record(false);
        // only put faults mean anything here (the buffer makes no other store call)
        // (every flush of a non-empty buffer is one put: the planned positions are folded onto the flushes of this workload)
        let nflush = ops.iter().filter(|o| matches!(o, Op::Flush)).count().max(1) as u64;
        let plan: BTreeMap<u64, StoreFault> = plan.into_iter().filter(|(_, f)| matches!(f, StoreFault::PutError | StoreFault::PutTorn(_) | StoreFault::PutAmbiguous)).map(|(k, f)| (k % nflush, f)).collect();
        store.set_plan(plan.clone());
        let seed = src.u64_any();
        let st = store.clone();
        let ops2 = ops.clone();
        let (viol, log, evals, failed_flushes): (Option<(String, String)>, Vec<String>, u64, u64) = rt::block_on(seed, async move {
            let cfg = WriteBufferConfig { flush_interval: Duration::from_secs(3600), max_size_bytes: 1 << 20, max_deltas: 1000, backpressure_threshold_bytes: 1 << 22, compression_enabled: false };
            let wb = WriteBuffer::new(Arc::new(st.clone()), "wb".to_string(), cfg);
            let mut accepted: Vec<u64> = Vec::new();
            let mut log = Vec::new();
            let mut evals = 0u64;
            let mut failed = 0u64;
            // ids of the updates found in intact segment objects
            async fn stored(st: &SimStore) -> std::collections::BTreeSet<String> {
                let mut out = std::collections::BTreeSet::new();
                for (k, bytes) in st.objects() {
                    if !k.starts_with("wb/") { continue; }
                    let Ok(r) = SegmentReader::open(&bytes) else { continue };
                    if r.validate().is_err() { continue; }
                    if let Ok(it) = r.deltas() { for d in it.flatten() { out.insert(d.key.clone()); } }
                }
                out
            }
            for op in &ops2 {
                match op {
                    Op::Push(id) => { if wb.push(upd(*id)).is_ok() { accepted.push(*id); } }
                    _ => {
                        let r = wb.flush().await;
                        if trace { log.push(format!("flush -> {:?}, pending_count() = {}", r.as_ref().map_err(|e| e.to_string()), wb.pending_count())); }
                        if r.is_err() { failed += 1; }
                        evals += 1;
                        let have = stored(&st).await;
                        let missing: Vec<u64> = accepted.iter().copied().filter(|id| !have.contains(&upd(*id).key)).collect();
                        if wb.pending_count() < missing.len() {
                            return (Some(("C12/write-buffer/failed-flush-discards-buffer".to_string(), format!("after a flush that returned {:?}: updates {:?} were accepted by push() and are in no intact segment object, but pending_count() = {} - they are gone while the process keeps running", r.as_ref().map_err(|e| e.to_string()), missing, wb.pending_count()))), log, evals, failed);
                        }
                        if r.is_ok() && !missing.is_empty() {
                            return (Some(("C12/write-buffer/confirmed-flush-not-stored".to_string(), format!("flush returned Ok but updates {:?} are in no intact segment object", missing))), log, evals, failed);
                        }
                    }
                }
            }
            // the store is healthy again: one more flush has to bring everything home
            st.set_plan(BTreeMap::new());
            let r = wb.flush().await;
            evals += 1;
            let have = stored(&st).await;
            let missing: Vec<u64> = accepted.iter().copied().filter(|id| !have.contains(&upd(*id).key)).collect();
            if !missing.is_empty() {
                return (Some(("C12/write-buffer/accepted-update-never-stored".to_string(), format!("the store is healthy again and a final flush returned {:?}, but updates {:?} accepted by push() are in no intact segment object", r.as_ref().map_err(|e| e.to_string()), missing))), log, evals, failed);
            }
            (None, log, evals, failed)
        });
        for l in log { rep.trace.push(l); }
        for (_, f) in store.inner.lock().unwrap().fired.iter() { rep.fault(f.name()); }
        if failed_flushes > 0 { rep.probe("write_buffer_flush_failed"); }
        if let Some((k, m)) = viol { rep.violate(k, m); }
        rep.evals = evals.max(1);
        rep.nontrivial = failed_flushes > 0;
        rep.fingerprint = fnv(0xb0f, format!("{:?}{:?}", ops, plan).as_bytes());
        rep.sample = Some(json!({"mode": "WriteBuffer", "ops": format!("{:?}", ops), "faults": format!("{:?}", plan)}));
        rep
    }
}

impl Property for C12 {
    fn id(&self) -> &'static str { "C12" }
    fn level(&self) -> &'static str { "fault_enumeration" }
    fn rule(&self) -> &'static str {
        "per generated workload of push/flush/compact: a fault-free pilot, then one run per (object-store call index, applicable fault kind: put error / torn put at 0, 50, 99.9 % / ambiguous put / get error / rename error / delete error / incomplete list) plus sampled double faults; inside each run one crash image before every put/rename/delete and three torn images during every put, each recovered with RecoveryManager and compared with the flushes confirmed before it; at the end a fault-free flush must make every accepted update recoverable. Non-trivial = crash image taken after >= 1 confirmed flush, or a fault fired; distinct = (workload, fired faults, image index)"
    }
    fn components_real(&self) -> Vec<&'static str> { vec!["streaming::persistence::StreamingPersistence::{push,flush}", "streaming::manifest::ManifestManager::{load_or_create,save}", "streaming::compaction::Compactor::compact", "streaming::recovery::RecoveryManager::recover", "streaming::segment::{SegmentWriter,SegmentReader}"] }
    fn components_stubbed(&self) -> Vec<&'static str> { vec!["ObjectStore -> SimStore (put not atomic, rename atomic, faults by call index)", "workers/timers not run: push, flush and compact are called directly in sequence"] }
    fn assumptions(&self) -> Vec<&'static str> { vec!["object-store contract: rename is atomic, put may leave any prefix, delete is atomic", "keys are unique per update so that compaction's keep-latest rule cannot legitimately drop one (C13 covers overwrites and tombstones)"] }
    fn required_probes(&self) -> Vec<&'static str> { vec!["crash_after_confirmed_flush", "compaction_ran", "failed_flush_then_later_flush", "worker_pipeline_run", "graceful_shutdown_checked"] }
    fn runs(&self, tier: Tier) -> u64 { match tier { Tier::Quick => 8000, Tier::Thorough => 300000 } }

    fn derive(&self, tape: &[u64], rep: &RunReport, tier: Tier) -> Vec<Vec<u64>> {
        if tape.len() < 5 || tape[0] % 3 != 0 { return vec![]; }
        let calls: Vec<String> = rep.sample.as_ref().and_then(|s| s["store_calls"].as_array().cloned()).unwrap_or_default()
            .iter().filter_map(|x| x.as_str().map(|s| s.to_string())).collect();
        let n = calls.len();
        let stride = match tier { Tier::Quick => (n / 30).max(1), Tier::Thorough => 1 };
        let mut out = Vec::new();
        for (i, c) in calls.iter().enumerate() {
            if i % stride != 0 && i + 1 != n { continue; }
            for k in kinds_for(c) { let mut t = tape.to_vec(); t[0] = 1; t[1] = i as u64; t[2] = k; out.push(t); }
        }
        // every pair of failing manifest swaps (renames are few per workload): a flush and a compaction that both
        // fail at their last step leave two half-done publications behind for whoever comes next
        let renames: Vec<usize> = calls.iter().enumerate().filter(|(_, c)| c.as_str() == "rename").map(|(i, _)| i).collect();
        if renames.len() <= 10 {
            for (x, i) in renames.iter().enumerate() { for j in renames.iter().skip(x + 1) {
                for (ki, kj) in [(6u64, 6u64), (6, 10), (10, 6)] { let mut t = tape.to_vec(); t[0] = 2; t[1] = *i as u64; t[2] = ki; t[3] = *j as u64; t[4] = kj; out.push(t); }
            } }
        }
        let pairs = match tier { Tier::Quick => 4, Tier::Thorough => 24 };
        let mut h = fnv(0, &tape.iter().flat_map(|v| v.to_le_bytes()).collect::<Vec<u8>>());
        for _ in 0..pairs {
            if n < 2 { break; }
            h = mix(h, 1); let i = (h % n as u64) as usize;
            h = mix(h, 2); let j = (h % n as u64) as usize;
            let (ki, kj) = (kinds_for(&calls[i]), kinds_for(&calls[j]));
            if ki.is_empty() || kj.is_empty() { continue; }
            let mut t = tape.to_vec();
            t[0] = 2; t[1] = i as u64; t[2] = ki[(h >> 8) as usize % ki.len()]; t[3] = j as u64; t[4] = kj[(h >> 16) as usize % kj.len()];
            out.push(t);
        }
        out
    }

    fn run(&self, src: &mut Src, ctx: &RunCtx) -> RunReport {
        let mut rep = RunReport::default();
        let nf = src.below(3);
        let f1 = (src.below(256), src.below(KINDS));
        let f2 = (src.below(256), src.below(KINDS));
        let mut plan = BTreeMap::new();
        if nf >= 1 { plan.insert(f1.0, kind_of(f1.1)); }
        if nf >= 2 { plan.insert(f2.0, kind_of(f2.1)); }
        let max_per_compaction = *src.pick(&[5usize, 2, 3]);
        // every sixth workload goes through the server's own pipeline instead of direct calls: delta sink ->
        // bridge task -> persistence actor (count-, tick- and shutdown-triggered flushes), then a graceful shutdown
        if src.below(6) == 0 { return self.run_workers(src, ctx, plan); }
        // one workload in ten is on the library's other buffer, WriteBuffer (push / flush straight to segment objects,
        // no manifest): an update it accepted must stay in the buffer or be in an intact object, whatever a flush met
        if src.below(10) == 0 { return self.run_write_buffer(src, ctx, plan); }
        let mut next = 0u64;
        let mut ops: Vec<Op> = Vec::new();
        let raw = src.list(14, 7, 8, |s| s.weighted(&[5, 3, 2]));
        for r in raw {
            match r { 0 => { ops.push(Op::Push(next)); next += 1; } 1 => ops.push(Op::Flush), _ => ops.push(Op::Compact) }
        }
        let trace = ctx.trace;
        rep.log(trace, || format!("ops: {:?} faults: {:?} max_segments_per_compaction={}", ops, plan, max_per_compaction));

        let store = SimStore::new();
        store.set_plan(plan.clone());
        let seed = src.u64_any();
        let ops2 = ops.clone();
        let st = store.clone();
        // (flush index, ids, Ok?, op count when it returned)
        struct FlushRec { ids: Vec<u64>, ok: bool, end_op: u64 }
        let (flushes, accepted, pending_after_fail_ok, compactions, setup_err) = rt::block_on(seed, async move {
            let clock = SimClock::new(1_700_000_000_000);
            let cfg = WriteBufferConfig { flush_interval: Duration::from_millis(50), max_size_bytes: 1 << 20, max_deltas: 1000, backpressure_threshold_bytes: 1 << 22, compression_enabled: false };
            let mut p = match StreamingPersistence::with_clock(Arc::new(st.clone()), PREFIX.to_string(), 1, cfg, clock.clone()).await {
                Ok(p) => p,
                Err(e) => return (Vec::new(), Vec::new(), true, 0u64, Some(e.to_string())),
            };
            let ccfg = CompactionConfig { target_segment_size: 1 << 20, max_segments: 2, min_segments_to_compact: 2, max_segments_per_compaction: max_per_compaction, tombstone_ttl: Duration::from_secs(3600), compression_enabled: false };
            let mut compactor = Compactor::with_time_source(Arc::new(st.clone()), PREFIX.to_string(), ManifestManager::new(st.clone(), PREFIX), ccfg, clock.clone());
            let mut flushes: Vec<FlushRec> = Vec::new();
            let mut accepted: Vec<u64> = Vec::new();
            let mut buffered: Vec<u64> = Vec::new();
            let mut pending_ok = true;
            let mut compactions = 0u64;
            let mut discarded: Option<String> = None;
            for op in &ops2 {
                match op {
                    Op::Push(id) => { if p.push(upd(*id)).is_ok() { accepted.push(*id); buffered.push(*id); } }
                    Op::Flush => {
                        let r = p.flush().await;
                        let ok = r.is_ok();
                        if !buffered.is_empty() {
                            match &r {
                                Ok(fr) if fr.deltas_flushed == buffered.len() => {
                                    flushes.push(FlushRec { ids: buffered.clone(), ok, end_op: st.ops() });
                                    buffered.clear();
                                }
                                Ok(fr) => {
                                    // Ok, but it wrote fewer updates than are accepted and unconfirmed:
                                    // some were dropped by an earlier failed flush.
                                    discarded = Some(format!("flush returned Ok having written {} of the {} accepted, unflushed updates {:?}", fr.deltas_flushed, buffered.len(), buffered));
                                    buffered.clear();
                                }
                                Err(_) => {
                                    flushes.push(FlushRec { ids: buffered.clone(), ok, end_op: st.ops() });
                                    if p.pending_count() < buffered.len() { pending_ok = false; }
                                }
                            }
                        }
                    }
                    Op::Compact => { if compactor.compact().await.is_ok() { compactions += 1; } }
                }
                clock.advance(10);
            }
            // end of run: faults off, one more flush; everything accepted must now be recoverable
            st.set_plan(BTreeMap::new());
            st.set_record(false);
            if let Ok(fr) = p.flush().await {
                if fr.deltas_flushed < buffered.len() && discarded.is_none() {
                    discarded = Some(format!("final flush wrote {} of the {} accepted, unflushed updates {:?}", fr.deltas_flushed, buffered.len(), buffered));
                }
            }
            (flushes, accepted, pending_ok, compactions, discarded.map(|d| format!("DISCARDED {}", d)))
        });
        let mut discarded_msg = None;
        if let Some(e) = setup_err {
            if let Some(d) = e.strip_prefix("DISCARDED ") { discarded_msg = Some(d.to_string()); }
            else {
                if plan.is_empty() { rep.violate("C12/setup-failed", e); }
                rep.evals = 1;
                return rep;
            }
        }
        if compactions > 0 { rep.probe("compaction_ran"); }
        let d = store.inner.lock().unwrap();
        let events = d.events.clone();
        let images = d.images.clone();
        let fired = d.fired.clone();
        let final_objs = d.objs.clone();
        drop(d);
        for (_, f) in &fired { rep.fault(f.name()); }
        if trace {
            for e in &events { rep.trace.push(format!("store op={} {} {} len={} fault={:?} ok={}", e.op, e.kind.name(), e.key, e.len, e.fault, e.ok)); }
            for (i, f) in flushes.iter().enumerate() { rep.trace.push(format!("flush#{} ids={:?} -> {} (returned after op {})", i, f.ids, if f.ok { "Ok" } else { "Err" }, f.end_op)); }
        }
        let store_calls: Vec<&'static str> = events.iter().map(|e| e.kind.name()).collect();
        let _ = OpKind::Put;

        // ---- crash images
        let mut evals = 0u64;
        let wl_fp = { let mut h = fnv(0, format!("{:?}", ops).as_bytes()); for (c, f) in &fired { h = fnv(h, &c.to_le_bytes()); h = fnv(h, f.name().as_bytes()); } h };
        let seed2 = mix(seed, 77);
        let checks: Vec<(usize, Result<BTreeSet<String>, String>)> = rt::block_on(seed2, async {
            let mut out = Vec::new();
            for (i, img) in images.iter().enumerate() { out.push((i, recover_keys(&img.objects).await)); }
            out
        });
        for (i, res) in checks {
            let img = &images[i];
            evals += 1;
            rep.fault("crash_between_or_during_store_calls");
            let confirmed: Vec<u64> = flushes.iter().filter(|f| f.ok && f.end_op <= img.op).flat_map(|f| f.ids.iter().copied()).collect();
            if !confirmed.is_empty() { rep.probe("crash_after_confirmed_flush"); rep.sub_fps.push(fnv(wl_fp, &[i as u8, (i >> 8) as u8])); }
            else if !fired.is_empty() { rep.sub_fps.push(fnv(wl_fp, &[i as u8, (i >> 8) as u8, 1])); }
            match res {
                Err(e) => {
                    let key = if img.phase == "during-put" { "C12/recovery-fails/crash-during-put" } else { "C12/recovery-fails/crash-between-ops" };
                    rep.violate(key, format!("crash {} store op {} ({}): recovery fails: {}", img.phase, img.op, events.iter().find(|e| e.op == img.op).map(|e| format!("{} {}", e.kind.name(), e.key)).unwrap_or_default(), e));
                    break;
                }
                Ok(keys) => {
                    if let Some(m) = confirmed.iter().find(|id| !keys.contains(&format!("u{}", id))) {
                        let key = if fired.is_empty() { "C12/confirmed-flush-lost/crash" } else { "C12/confirmed-flush-lost/crash-after-fault" };
                        rep.violate(key, format!("crash {} store op {}: update u{} of a flush that had returned Ok is not recovered (recovered {:?})", img.phase, img.op, m, keys));
                        break;
                    }
                }
            }
        }
        if rep.violations.is_empty() {
            if let Some(d) = discarded_msg { rep.violate("C12/accepted-update-discarded-by-failed-flush", d); }
        }
        // ---- end of run (process kept running): nothing accepted may be gone
        if rep.violations.is_empty() {
            evals += 1;
            let res = rt::block_on(mix(seed, 78), async { recover_keys(&final_objs).await });
            match res {
                Err(e) => rep.violate("C12/recovery-fails/at-rest", format!("after the run (no crash) recovery fails: {}", e)),
                Ok(keys) => {
                    if let Some(m) = accepted.iter().find(|id| !keys.contains(&format!("u{}", id))) {
                        let confirmed = flushes.iter().any(|f| f.ok && f.ids.contains(m));
                        let key = if confirmed { "C12/confirmed-flush-lost/no-crash" } else { "C12/accepted-update-discarded-by-failed-flush" };
                        rep.violate(key, format!("update u{} was accepted by push(){} but after a final fault-free flush it is not recoverable (recovered {:?})", m, if confirmed { " and its flush returned Ok" } else { "" }, keys));
                    }
                }
            }
            if !pending_after_fail_ok && flushes.iter().any(|f| !f.ok) { rep.probe("pending_dropped_after_failed_flush"); }
        }
        if flushes.iter().enumerate().any(|(i, f)| !f.ok && flushes.len() > i) { rep.probe("failed_flush_then_later_flush"); }
        rep.evals = evals.max(1);
        rep.nontrivial = !rep.sub_fps.is_empty();
        rep.fingerprint = wl_fp;
        rep.sample = Some(json!({
            "ops": ops.iter().map(|o| format!("{:?}", o)).collect::<Vec<_>>(),
            "faults_planned": plan.iter().map(|(c, f)| format!("op{}:{}", c, f.name())).collect::<Vec<_>>(),
            "faults_fired": fired.iter().map(|(c, f)| format!("op{}:{}", c, f.name())).collect::<Vec<_>>(),
            "store_calls": store_calls,
            "crash_images": images.len(),
            "flushes": flushes.iter().map(|f| format!("{:?}:{}", f.ids, if f.ok { "ok" } else { "err" })).collect::<Vec<_>>(),
        }));
        rep
    }
}
