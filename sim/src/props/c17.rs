//! C17 — a command that fails changes nothing; a read-only command changes nothing.
//!
//! Invariant monitor on a real CommandExecutor (through the production parser) under a simulated
//! clock: before and after every command the visible keyspace (keys, types, full values, PTTL at the
//! current instant) is snapshotted through get_data(); if the reply is an error, or the command is
//! classified read-only (Command::is_read_only), the two snapshots must be equal. No reference model.

use crate::model::cmdgen::{gen_cmd, Cmd, GenCfg, ALL_FAMS};
use crate::model::wire::{parse_cmd, show_bytes, show_cmd, R};
use crate::simkit::clock::SimClock;
use crate::simkit::rt;
use crate::simkit::runner::{Property, RunCtx, RunReport, Tier};
use crate::simkit::tape::{fnv, Src};
use redis_sim::redis::{Command, CommandExecutor, Value};
use redis_sim::simulator::VirtualTime;
use serde_json::json;
use std::collections::BTreeMap;

pub struct C17;

type Snap = BTreeMap<String, String>;

pub fn snapshot(ex: &mut CommandExecutor) -> Snap {
    let mut out = Snap::new();
    let keys: Vec<String> = ex.get_data().keys().cloned().collect();
    for k in keys {
        let pttl = match ex.execute(&Command::Pttl(k.clone())) { redis_sim::redis::RespValue::Integer(i) => i, _ => -3 };
        if pttl == -2 { continue; } // past its deadline: not visible
        let Some(v) = ex.get_data().get(&k) else { continue };
        let body = match v {
            Value::String(s) => format!("string \"{}\"", show_bytes(s.as_bytes())),
            Value::List(l) => format!("list [{}]", l.range(0, -1).iter().map(|x| show_bytes(x.as_bytes())).collect::<Vec<_>>().join(",")),
            Value::Set(s) => { let mut m: Vec<String> = s.members().iter().map(|x| show_bytes(x.as_bytes())).collect(); m.sort(); format!("set {{{}}}", m.join(",")) }
            Value::Hash(h) => { let mut m: Vec<String> = h.get_all().iter().map(|(f, v)| format!("{}={}", show_bytes(f.as_bytes()), show_bytes(v.as_bytes()))).collect(); m.sort(); format!("hash {{{}}}", m.join(",")) }
            Value::SortedSet(z) => format!("zset [{}]", z.range(0, -1).iter().map(|(m, s)| format!("{}:{:016x}", show_bytes(m.as_bytes()), s.to_bits())).collect::<Vec<_>>().join(",")),
            Value::Null => "null".to_string(),
        };
        out.insert(k, format!("{} pttl={}", body, pttl));
    }
    out
}

/// SPOP of one member takes whichever the set's hash order offers, so what is left differs from one execution of a
/// run to the next and a replay would not retrace it: SPOP always asks for more members than a set here can hold (the
/// reply order still varies, the state does not).
fn no_random_choice(mut c: Cmd) -> Cmd {
    let up = |a: &Vec<u8>| String::from_utf8_lossy(a).to_uppercase();
    let at = if up(&c[0]) == "SPOP" { Some(0) } else if up(&c[0]) == "EVAL" && c.len() >= 5 && up(&c[3]) == "SPOP" { Some(3) } else { None };
    if let Some(i) = at {
        if c.len() == i + 2 { c.push(b"10".to_vec()); }
        else if c.len() == i + 3 && std::str::from_utf8(&c[i + 2]).ok().and_then(|t| t.parse::<u64>().ok()).map(|n| n >= 1).unwrap_or(false) { c[i + 2] = b"10".to_vec(); }
    }
    c
}

fn extra_cmd(src: &mut Src, g: &mut GenCfg) -> Cmd {
    let b = |s: &str| s.as_bytes().to_vec();
    let k = g.key(src);
    let k2 = g.key(src);
    match src.below(30) {
        0 => vec![b("RPOPLPUSH"), k, k2],
        1 => vec![b("LMOVE"), k, k2, b(["LEFT", "RIGHT", "UP"][src.idx(3)]), b(["LEFT", "RIGHT"][src.idx(2)])],
        2 => vec![b("RENAME"), k, k2],
        3 => vec![b("RENAMENX"), k, k2],
        4 => { let mut v = vec![b("MSETNX")]; for _ in 0..=src.below(2) { v.push(g.key(src)); v.push(g.val(src)); } v }
        5 => vec![b("SORT"), k, b("STORE"), k2],
        6 => vec![b("SORT"), k],
        7 => vec![b("SETBIT"), k, b(["0", "7", "100", "-1", "70000", "x", "9000"][src.idx(7)]), b(["1", "0", "2"][src.idx(3)])],
        8 => vec![b("GETBIT"), k, b(["0", "7", "-1"][src.idx(3)])],
        9 => { let mut v = vec![b("GETEX"), k]; match src.below(5) { 0 => { v.push(b("EX")); v.push(g.ttl_secs(src)); } 1 => { v.push(b("PX")); v.push(g.ttl_ms(src)); } 2 => v.push(b("PERSIST")), 3 => { v.push(b("EX")); v.push(b("10")); v.push(b("PERSIST")); } _ => {} } v }
        10 => vec![b("INCRBYFLOAT"), k, b(["1.5", "abc", "inf", "nan", "1e400", "-0.5"][src.idx(6)])],
        11 => vec![b("SETRANGE"), k, b(["0", "5", "100000", "-1", "x", "3000"][src.idx(6)]), g.val(src)],
        12 => vec![b("UNLINK"), k, k2],
        13 => vec![b("CONFIG"), b("GET"), b("maxmemory")],
        14 => vec![b("CONFIG"), b("SET"), b("maxmemory"), b("0")],
        15 => vec![b("OBJECT"), b("ENCODING"), k],
        16 => vec![b("DEBUG"), b(["SLEEP", "OBJECT", "JMAP", "SET-ACTIVE-EXPIRE"][src.idx(4)]), b("0")],
        17 => vec![b("CLIENT"), b(["GETNAME", "ID", "INFO", "SETNAME"][src.idx(4)]), b("x")],
        18 => vec![b("RANDOMKEY")],
        19 => vec![b("EXPIRETIME"), k],
        20 => vec![b("PEXPIRETIME"), k],
        21 | 22 | 23 => {
            // single-call script: the inner command is what the property calls "the command"
            let inner = gen_cmd(src, g);
            let call = if src.chance(1, 3) { "pcall" } else { "call" };
            let mut v = vec![b("EVAL"), b(&format!("return redis.{}(ARGV[1], unpack(ARGV, 2))", call)), b("0")];
            v.extend(inner);
            v
        }
        24 => vec![b("WAIT"), b("0"), b("0")],
        25 => vec![b("ECHO"), g.val(src)],
        26 => vec![b("SELECT"), b(["0", "1", "x"][src.idx(3)])],
        27 => vec![b("HSET"), k, g.member(src)], // odd arity
        28 => { let f: &[&str] = [&["NX", "XX"][..], &["GT", "LT"][..], &["NX", "GT"][..], &["NX", "LT"][..], &["XX", "GT", "LT"][..]][src.idx(5)]; let mut c = vec![b("ZADD"), k]; for x in f { c.push(b(x)); } c.push(b("1")); c.push(g.member(src)); c }
        _ => vec![b("LPUSH"), k],
    }
}

impl C17 {
    /// The replicated node's glue (ReplicatedShardedState::execute with an always-fsync WAL on a faulty disk):
    /// a command that is answered with an error - for whatever reason - must not have changed its key.
    fn run_glue(&self, src: &mut Src, ctx: &RunCtx) -> RunReport {
        use crate::model::cluster::repl_config;
        use crate::simkit::clock::SimClock;
        use crate::simkit::disk::{Seq, SimWalStore, WalFault};
        use crate::simkit::rt;
        use redis_sim::production::ReplicatedShardedState;
        use redis_sim::replication::ConsistencyLevel;
        use redis_sim::streaming::{spawn_wal_actor, FsyncPolicy, WalConfig};
        let mut rep = RunReport::default();
        rep.probe("replicated_glue_with_faulty_wal");
        let b = |s: &str| s.as_bytes().to_vec();
        let nf = 1 + src.below(3);
        let mut plan = std::collections::BTreeMap::new();
        for _ in 0..nf { plan.insert(1 + src.below(40), *src.pick(&[WalFault::SyncError, WalFault::AppendError, WalFault::DiskFull, WalFault::AppendTornIo(500)])); }
        let mut uniq = 0u64;
        let cmds: Vec<Cmd> = src.list(14, 11, 12, |s| {
            uniq += 1;
            let k = b(&format!("k{}", s.below(2)));
            match s.below(8) {
                0 | 1 => vec![b("SET"), k, b(&format!("v{}", uniq))],
                2 => vec![b("INCR"), k],
                3 => vec![b("APPEND"), k, b("x")],
                4 => vec![b("HSET"), b("h0"), b("f"), b(&format!("h{}", uniq))],
                5 => vec![b("DEL"), k],
                6 => vec![b("SET"), k, b("7"), b("PX"), b("100000")],
                _ => vec![b("HSET"), k, b("f"), b("wrongtype?")],
            }
        });
        let trace = ctx.trace;
        let store = SimWalStore::new(Seq::default());
        store.set_plan(plan.clone());
        let st2 = store.clone();
        let cmds2 = cmds.clone();
        let (viol, log, fired): (Option<(String, String)>, Vec<String>, usize) = rt::block_on(src.u64_any(), async move {
            let clock = SimClock::new(1_700_000_000_000);
            let mut node = ReplicatedShardedState::with_time_source(repl_config(1, ConsistencyLevel::Eventual), clock);
            let cfg = WalConfig { enabled: true, wal_dir: "/nonexistent".into(), fsync_policy: FsyncPolicy::Always, max_file_size: 400, group_commit_max_entries: 4, group_commit_max_wait: std::time::Duration::from_micros(100), truncation_check_interval: std::time::Duration::from_secs(3600) };
            let mut log = Vec::new();
            match spawn_wal_actor(st2.clone(), cfg) { Ok((h, _)) => node.set_wal_handle(h), Err(_) => return (None, log, 0) }
            async fn exec(node: &ReplicatedShardedState<SimClock>, c: Cmd) -> R { match parse_cmd(&c) { Ok(cmd) => R::from_resp(&node.execute(cmd).await), Err(e) => R::Err(e) } }
            async fn view(node: &ReplicatedShardedState<SimClock>, k: Vec<u8>) -> String {
                let bb = |s: &str| s.as_bytes().to_vec();
                let g = exec(node, vec![bb("GET"), k.clone()]).await; let h = exec(node, vec![bb("HGETALL"), k.clone()]).await; let t = exec(node, vec![bb("PTTL"), k]).await;
                format!("GET={} HGETALL={} PTTL={}", g.show(), h.show(), t.show())
            }
            let mut res = None;
            for c in &cmds2 {
                let before = view(&node, c[1].clone()).await;
                let r = exec(&node, c.clone()).await;
                let after = view(&node, c[1].clone()).await;
                if trace { log.push(format!("{} -> {}", show_cmd(c), r.show())); }
                if r.is_err() && before != after {
                    res = Some((format!("C17/error-reply-but-state-changed/{}", String::from_utf8_lossy(&c[0]).to_uppercase()), format!("replicated node with an always-fsync WAL on a faulty disk: {} replied {} but key {:?} went from [{}] to [{}]", show_cmd(c), r.show(), String::from_utf8_lossy(&c[1]), before, after)));
                    break;
                }
            }
            let fired = st2.inner.lock().unwrap().fired.len();
            (res, log, fired)
        });
        rep.trace = log;
        for _ in 0..fired { rep.fault("wal_io_fault_under_the_glue"); }
        if let Some((k, m)) = viol { rep.violate(k, m); }
        rep.evals = cmds.len() as u64;
        rep.nontrivial = fired > 0;
        let mut fp = fnv(0x17, &[nf as u8]);
        for c in &cmds { fp = fnv(fp, show_cmd(c).as_bytes()); }
        for (k, f) in &plan { fp = fnv(fp, format!("{}{}", k, f.name()).as_bytes()); }
        rep.fingerprint = fp;
        rep.sample = Some(json!({"mode": "replicated glue + WAL faults", "commands": cmds.iter().map(|c| show_cmd(c)).collect::<Vec<_>>(), "faults_planned": plan.iter().map(|(c, f)| format!("call{}:{}", c, f.name())).collect::<Vec<_>>()}));
        rep
    }
}

impl C17 {
    /// The sharded server (2, 4 or 16 real shard actors) as the system under test: where a command's keys live on
    /// different shards the server itself has to put things back when it answers an error.
    fn run_sharded(&self, src: &mut Src, ctx: &RunCtx) -> RunReport {
        use crate::props::c03::{dump, send, shard_state, Path};
        let mut rep = RunReport::default();
        rep.probe("sharded_server_run");
        let n = *src.pick(&[4usize, 2, 16]);
        let mut g = GenCfg::swarm(src, ALL_FAMS, 6);
        g.edgy = g.edgy || src.chance(1, 2);
        let bb = |s: &str| s.as_bytes().to_vec();
        let mut cmds: Vec<(Cmd, u64)> = Vec::new();
        for i in 0..3 {
            if !src.chance(2, 3) { continue; }
            let k = bb(&format!("k{}", i));
            match src.below(5) {
                0 => cmds.push((vec![bb("SET"), k.clone(), bb("16")], 0)),
                1 => { let mut c = vec![bb("RPUSH"), k.clone(), bb("a")]; if src.chance(1, 2) { c.push(bb("b")); } cmds.push((c, 0)); }
                2 => cmds.push((vec![bb("SADD"), k.clone(), bb("a")], 0)),
                3 => cmds.push((vec![bb("HSET"), k.clone(), bb("f"), bb("1")], 0)),
                _ => cmds.push((vec![bb("ZADD"), k.clone(), bb("1"), bb("a")], 0)),
            }
            if src.chance(1, 2) { cmds.push((vec![bb("PEXPIRE"), k, bb("10000")], 0)); }
        }
        let nprelude = cmds.len();
        let steps = src.list(24, 15, 16, |s| (s.below(10), s.below(6)));
        for (kind, adv) in steps {
            // a good share of two-key commands over the prelude's keys: where the keys live on different shards, the
            // server itself has to undo what it did on one shard when the other refuses
            let c = if kind >= 7 {
                let (i, j) = (src.idx(3), src.idx(3));
                let (ki, kj) = (bb(&format!("k{}", i)), bb(&format!("k{}", if i == j { (j + 1) % 3 } else { j })));
                match src.below(7) {
                    0 | 1 => vec![bb("RPOPLPUSH"), ki, kj],
                    2 | 3 => vec![bb("LMOVE"), ki, kj, bb(["LEFT", "RIGHT"][src.idx(2)]), bb(["LEFT", "RIGHT"][src.idx(2)])],
                    4 => vec![bb("RENAMENX"), ki, kj],
                    5 => vec![bb("SMOVE"), ki, kj, bb("a")],
                    _ => vec![bb("MSETNX"), ki, bb("1"), kj, bb("2")],
                }
            } else if kind < 4 { no_random_choice(gen_cmd(src, &mut g)) } else { no_random_choice(extra_cmd(src, &mut g)) };
            let a = if src.chance(1, 5) { [1u64, 999, 1000, 1500, 10_000, 100_000][adv as usize] } else { 0 };
            cmds.push((c, a));
        }
        let trace = ctx.trace;
        let seed = src.u64_any();
        let cmds2 = cmds.clone();
        let (viol, log, evals, hits): (Option<(String, String)>, Vec<String>, u64, u64) = rt::block_on(seed, async move {
            let clock = SimClock::new(1_700_000_000_000);
            let st = shard_state(n, &clock);
            let mut log = Vec::new();
            let (mut evals, mut hits) = (0u64, 0u64);
            for (i, (c, adv)) in cmds2.iter().enumerate() {
                if *adv > 0 { clock.advance(*adv); }
                let parsed = parse_cmd(c);
                let read_only = parsed.as_ref().map(|p| p.is_read_only()).unwrap_or(false);
                if i < nprelude { let _ = send(&st, c, Path::Generic).await; continue; }
                let before = dump(&st).await;
                let r = send(&st, c, Path::Generic).await;
                let after = dump(&st).await;
                if trace { log.push(format!("{} -> {}", show_cmd(c), r.show())); }
                if r.is_err() || read_only {
                    evals += 1;
                    if c.iter().skip(1).any(|a| before.contains_key(a)) { hits += 1; }
                    if before != after {
                        let k = before.keys().chain(after.keys()).find(|k| before.get(*k) != after.get(*k)).cloned().unwrap_or_default();
                        let name = String::from_utf8_lossy(&c[0]).to_uppercase();
                        let key = if r.is_err() { format!("C17/error-reply-but-state-changed/{}", name) } else { format!("C17/read-only-command-changed-state/{}", name) };
                        return (Some((key, format!("{}-shard server: {} replied {} {}but key {:?} went from {:?} to {:?}", n, show_cmd(c), r.show(), if read_only { "(classified read-only) " } else { "" }, String::from_utf8_lossy(&k), before.get(&k), after.get(&k)))), log, evals, hits);
                    }
                }
            }
            (None, log, evals, hits)
        });
        rep.trace = log;
        if let Some((k, m)) = viol { rep.violate(k, m); }
        rep.evals = evals.max(1);
        if hits > 0 { rep.probe_n("error_reply_on_existing_key", hits); rep.nontrivial = true; }
        let mut fp = fnv(0x5A, &[n as u8]);
        for (c, a) in &cmds { fp = fnv(fp, show_cmd(c).as_bytes()); fp = fnv(fp, &a.to_le_bytes()); }
        rep.fingerprint = fp;
        if rep.nontrivial { rep.sub_fps.push(fp); }
        rep.sample = Some(json!({"mode": "sharded server", "shards": n, "commands": cmds.iter().take(12).map(|(c, _)| show_cmd(c)).collect::<Vec<_>>()}));
        rep
    }
}

impl Property for C17 {
    fn id(&self) -> &'static str { "C17" }
    fn level(&self) -> &'static str { "exploration" }
    fn rule(&self) -> &'static str {
        "swarm-configured sequences of <= 40 commands over the full vocabulary (all data families with boundary-heavy arguments, multi-key and two-key commands, SORT..STORE, SETBIT/GETBIT, GETEX, INCRBYFLOAT, stubs such as CONFIG/OBJECT/DEBUG/CLIENT/WAIT/SELECT, wrong arities and invalid option combinations, and single-call Lua scripts redis.call/pcall(ARGV…)) on 1-6 keys of all types, clock advancing between commands under set_time or update_time_readonly (+ eviction ticks). Every command whose reply is an error or which Command::is_read_only() classifies read-only is one evaluation. Non-trivial = the command named >= 1 existing key; distinct = (command, state fingerprint)"
    }
    fn components_real(&self) -> Vec<&'static str> { vec!["redis::CommandExecutor::execute (all *_ops, script_ops with real Lua)", "Command::from_resp_zero_copy", "Command::is_read_only"] }
    fn components_stubbed(&self) -> Vec<&'static str> { vec!["no connection/shards: the executor is driven directly, as a shard actor drives it", "clock: VirtualTime set by the harness"] }
    fn assumptions(&self) -> Vec<&'static str> { vec!["multi-step scripts that write and then raise are not generated (Redis does not roll those back either); a single-call script stands for its inner command", "a key past its deadline is not part of the visible keyspace, whether or not it was evicted yet"] }
    fn required_probes(&self) -> Vec<&'static str> { vec!["error_reply_on_existing_key", "readonly_on_existing_key", "script_call", "two_key_command", "replicated_glue_with_faulty_wal", "sharded_server_run"] }
    fn runs(&self, tier: Tier) -> u64 { match tier { Tier::Quick => 20000, Tier::Thorough => 600_000 } }

    fn run(&self, src: &mut Src, ctx: &RunCtx) -> RunReport {
        let mut rep = RunReport::default();
        if src.below(12) == 0 { return self.run_glue(src, ctx); }
        if src.below(10) == 0 { return self.run_sharded(src, ctx); }
        let mut g = GenCfg::swarm(src, ALL_FAMS, 6);
        g.edgy = g.edgy || src.chance(1, 2);
        let readonly_clock = src.chance(1, 3);
        let mut ex = CommandExecutor::new();
        ex.set_simulation_start_epoch(1_700_000_000);
        ex.set_simulation_start_epoch_ms(1_700_000_000_000);
        let mut now = 0u64;
        // prelude: small values of every type, half of them with a TTL, so that failing multi-key commands
        // meet sources that are about to become empty and destinations of the wrong type early in a run
        let bb = |s: &str| s.as_bytes().to_vec();
        let mut prelude: Vec<Cmd> = Vec::new();
        for i in 0..3 {
            if !src.chance(1, 2) { continue; }
            let k = bb(&format!("k{}", i));
            match src.below(5) {
                0 => prelude.push(vec![bb("SET"), k.clone(), bb("16")]),
                1 => { let mut c = vec![bb("RPUSH"), k.clone(), bb("a")]; if src.chance(1, 2) { c.push(bb("b")); } prelude.push(c); }
                2 => prelude.push(vec![bb("SADD"), k.clone(), bb("a")]),
                3 => prelude.push(vec![bb("HSET"), k.clone(), bb("f"), bb("1")]),
                _ => prelude.push(vec![bb("ZADD"), k.clone(), bb("1"), bb("a")]),
            }
            if src.chance(1, 2) { prelude.push(vec![bb("PEXPIRE"), k, bb("10000")]); }
        }
        // one run in five is not on the default configuration: a few of the server's numeric limits are set low through
        // CONFIG SET first (a limit that is only enforced when configured never shows on the defaults)
        if src.chance(1, 5) {
            rep.probe("limits_lowered_through_config_set");
            const LIMITS: &[&str] = &["proto-max-bulk-len", "client-query-buffer-limit", "maxmemory", "maxclients", "hash-max-listpack-entries", "hash-max-listpack-value", "set-max-intset-entries", "set-max-listpack-entries", "zset-max-listpack-entries", "zset-max-listpack-value", "list-max-listpack-size", "list-compress-depth", "lua-time-limit", "hz", "timeout", "databases"];
            for _ in 0..=src.below(3) { let p = LIMITS[src.idx(LIMITS.len())]; let v = ["0", "1", "2", "3", "8", "16", "64"][src.idx(7)]; prelude.push(vec![bb("CONFIG"), bb("SET"), bb(p), bb(v)]); }
        }
        for c in &prelude { if let Ok(cmd) = parse_cmd(c) { let _ = ex.execute(&cmd); } }
        let steps = src.list(40, 29, 30, |s| (s.below(10), s.below(6)));
        let mut shown: Vec<String> = Vec::new();
        let mut fp = 0u64;
        for (kind, adv) in steps {
            let c = no_random_choice(if kind < 6 { gen_cmd(src, &mut g) } else { extra_cmd(src, &mut g) });
            if src.chance(1, 4) { now += [1u64, 999, 1000, 1500, 10_000, 100_000][adv as usize]; }
            if readonly_clock { ex.update_time_readonly(VirtualTime::from_millis(now)); if src.chance(1, 5) { ex.evict_expired_direct(VirtualTime::from_millis(now)); } } else { ex.set_time(VirtualTime::from_millis(now)); }
            let parsed = parse_cmd(&c);
            let name = String::from_utf8_lossy(&c[0]).to_uppercase();
            if name == "EVAL" { rep.probe("script_call"); }
            if matches!(name.as_str(), "RPOPLPUSH" | "LMOVE" | "RENAME" | "RENAMENX" | "SORT" | "MSETNX") { rep.probe("two_key_command"); }
            let before = snapshot(&mut ex);
            let (reply, read_only) = match &parsed { Ok(cmd) => (R::from_resp(&ex.execute(cmd)), cmd.is_read_only()), Err(e) => (R::Err(e.clone()), false) };
            let after = snapshot(&mut ex);
            rep.log(ctx.trace, || format!("t={} {} -> {}", now, show_cmd(&c), reply.show()));
            if shown.len() < 10 { shown.push(format!("{} -> {}", show_cmd(&c), reply.show())); }
            fp = fnv(fp, show_cmd(&c).as_bytes());
            let names_existing = c.iter().skip(1).any(|a| before.contains_key(&String::from_utf8_lossy(a).into_owned()));
            if reply.is_err() || read_only {
                rep.evals += 1;
                if names_existing { rep.probe(if reply.is_err() { "error_reply_on_existing_key" } else { "readonly_on_existing_key" }); rep.sub_fps.push(fnv(fnv(0, show_cmd(&c).as_bytes()), format!("{:?}", before).as_bytes())); }
                if before != after {
                    let k = before.keys().chain(after.keys()).find(|k| before.get(*k) != after.get(*k)).cloned().unwrap_or_default();
                    // the inner command of a single-call script names the finding
                    let inner = if name == "EVAL" && c.len() > 3 { String::from_utf8_lossy(&c[3]).to_uppercase() } else { name.clone() };
                    let key = if reply.is_err() { format!("C17/error-reply-but-state-changed/{}", inner) } else { format!("C17/read-only-command-changed-state/{}", inner) };
                    rep.violate(key, format!("{} replied {} {}but key {:?} went from {:?} to {:?}", show_cmd(&c), reply.show(), if read_only { "(classified read-only) " } else { "" }, k, before.get(&k), after.get(&k)));
                    break;
                }
            }
        }
        rep.evals = rep.evals.max(1);
        rep.nontrivial = !rep.sub_fps.is_empty();
        rep.fingerprint = fp;
        rep.sample = Some(json!({"clock_mode": if readonly_clock { "update_time_readonly + eviction ticks" } else { "set_time before each command" }, "first_commands": shown }));
        rep
    }
}
