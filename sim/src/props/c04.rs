//! C04 — pipelining: exactly one reply per command, in order, however bytes arrive.
//!
//! The production `OptimizedConnectionHandler` (hook H1) runs on a SimStream; the client cuts a
//! stream of well-formed commands into reads chosen by the tape (or at one/two explicit offsets:
//! `derive` enumerates every single split point of the pilot's stream). A twin server with the same
//! configuration receives the same commands one per read, each after the previous reply. Replies
//! must agree in number, order and content, and the final keyspaces must be equal. In malformed
//! mode one frame is damaged: no panic, an error reply, earlier replies untouched, no hang.

use crate::model::cmdgen::{gen_cmd, Cmd, GenCfg, ALL_FAMS};
use crate::model::wire::{decode_all, encode_cmd, show_cmd, R};
use crate::props::c03::{dump, Path};
use crate::simkit::clock::SimClock;
use crate::simkit::rt::{self, Sched, Step};
use crate::simkit::runner::{Property, RunCtx, RunReport, Tier};
use crate::simkit::stream::StreamHandle;
use crate::simkit::tape::{fnv, Src};
use redis_sim::production::verif_hooks;
use redis_sim::production::{ConnectionConfig, ConnectionPool, ShardConfig, ShardedActorState};
use serde_json::json;

pub struct C04;

const H_MODE: usize = 0; // 0 tape fragmentation, 1 one split at H_A, 2 two splits at H_A,H_B, 3 whole stream in one read
const H_A: usize = 1;
const H_B: usize = 2;

struct YieldOnce(bool);
impl std::future::Future for YieldOnce {
    type Output = ();
    fn poll(mut self: std::pin::Pin<&mut Self>, cx: &mut std::task::Context<'_>) -> std::task::Poll<()> {
        if self.0 { return std::task::Poll::Ready(()); }
        self.0 = true; cx.waker().wake_by_ref(); std::task::Poll::Pending
    }
}

fn norm(name: &str, r: &R) -> R {
    match (name, r) {
        ("SMEMBERS" | "HKEYS" | "HVALS" | "KEYS", R::Arr(Some(xs))) => { let mut v = xs.clone(); v.sort(); R::Arr(Some(v)) }
        ("HGETALL", R::Arr(Some(xs))) if xs.len() % 2 == 0 => { let mut p: Vec<(R, R)> = xs.chunks(2).map(|c| (c[0].clone(), c[1].clone())).collect(); p.sort(); R::Arr(Some(p.into_iter().flat_map(|(a, b)| [a, b]).collect())) }
        // EXEC: normalise unordered members one level down is not attempted; transactions in this check use ordered commands only
        _ => r.clone(),
    }
}

pub fn new_state(shards: usize) -> ShardedActorState {
    let mut cfg = ShardConfig::with_shards(shards);
    cfg.min_shards = shards; cfg.max_shards = shards; cfg.initial_shards = shards;
    ShardedActorState::with_config(cfg)
}

pub fn gen_stream_cmds(src: &mut Src) -> Vec<Cmd> {
    let mut g = GenCfg::swarm(src, ALL_FAMS, 4);
    g.expiry = g.expiry && true;
    let b = |s: &str| s.as_bytes().to_vec();
    let mut cmds: Vec<Cmd> = Vec::new();
    let blocks = src.list(12, 7, 8, |s| if s.chance(1, 24) { 8 } else if s.chance(1, 160) { 9 } else { s.below(8) });
    for kind in blocks {
        match kind {
            0 | 1 => { // GET/SET-heavy prefix of length 1..8, exact case or lower case
                let n = 1 + src.below(8);
                let gets = src.chance(1, 2);
                let lower = src.chance(1, 4);
                for _ in 0..n {
                    let k = g.key(src);
                    let name = if gets { if lower { "get" } else { "GET" } } else if lower { "set" } else { "SET" };
                    if gets { cmds.push(vec![b(name), k]); } else { let v = g.val(src); cmds.push(vec![b(name), k, v]); }
                    if src.chance(1, 6) { let k2 = g.key(src); cmds.push(vec![b("GET"), k2]); }
                }
            }
            2 => { // small transaction
                cmds.push(vec![b("MULTI")]);
                for _ in 0..src.below(4) { let k = g.key(src); match src.below(3) { 0 => cmds.push(vec![b("INCR"), k]), 1 => { let v = g.val(src); cmds.push(vec![b("SET"), k, v]); } _ => cmds.push(vec![b("GET"), k]) } }
                // now and then a command that talks to every shard sits between the others (ordered replies only)
                if src.chance(1, 4) {
                    let k = g.key(src); let k2 = g.key(src);
                    match src.below(4) { 0 => cmds.push(vec![b("FLUSHALL")]), 1 => cmds.push(vec![b("DBSIZE")]), 2 => cmds.push(vec![b("DEL"), k, k2]), _ => { let v = g.val(src); cmds.push(vec![b("MSET"), k, v.clone(), k2, v]); } }
                    for _ in 0..src.below(3) { let k = g.key(src); if src.chance(1, 2) { let v = g.val(src); cmds.push(vec![b("SET"), k, v]); } else { cmds.push(vec![b("INCR"), k]); } }
                }
                cmds.push(vec![b(if src.chance(4, 5) { "EXEC" } else { "DISCARD" })]);
            }
            8 => { // a value of ~9 KB read back 8-11 times in a row: more than 64 KB of replies pending at once
                // (now and then a 40 KB value read 8-23 times: up to 900 KB of replies pending, beyond any plausible high-water mark)
                let huge = src.chance(1, 5);
                let mut v = vec![b'x'; if huge { 40_000 } else { 9000 }]; v.extend_from_slice(format!("{}", cmds.len()).as_bytes());
                cmds.push(vec![b("SET"), b("big"), v]);
                for _ in 0..(8 + src.below(if huge { 16 } else { 4 })) { cmds.push(vec![b("GET"), b("big")]); }
            }
            9 => { // a deep pipeline of tiny commands: several hundred complete commands arrive in one read of the handler
                let n = 300 + src.below(1300);
                let k = g.key(src);
                for i in 0..n { if i % 3 == 0 { cmds.push(vec![b("INCR"), k.clone()]); } else { cmds.push(vec![b("PING")]); } }
            }
            3 => cmds.push(vec![b("FOO"), b("a"), b("b")]),
            4 => cmds.push(vec![b("PING")]),
            5 => { let k = g.key(src); cmds.push(vec![b("Get"), k]); }
            _ => {
                for _ in 0..=src.below(3) {
                    let mut c = gen_cmd(src, &mut g);
                    let nm = String::from_utf8_lossy(&c[0]).to_uppercase();
                    if nm == "SPOP" || nm == "FLUSHDB" && src.chance(1, 2) { c = vec![b("DBSIZE")]; }
                    cmds.push(c);
                }
            }
        }
        if cmds.len() >= 60 { break; }
    }
    if cmds.is_empty() { cmds.push(vec![b("PING")]); }
    cmds
}

fn damaged_frame(kind: u64) -> Vec<u8> {
    match kind % 6 {
        0 => b"*2\r\n$-2\r\nGET\r\n$1\r\nk\r\n".to_vec(),
        1 => b"*2\r\n$abc\r\nGET\r\n$1\r\nk\r\n".to_vec(),
        2 => b"*x\r\n$3\r\nGET\r\n$1\r\nk\r\n".to_vec(),
        3 => b"*2\r\n$3\rXGET\r\n$1\r\nk\r\n".to_vec(),
        4 => b"*2\r\n$3\r\nGETxx$1\r\nk\r\n".to_vec(),
        _ => b"*-5\r\n$3\r\nGET\r\n".to_vec(),
    }
}

impl Property for C04 {
    fn id(&self) -> &'static str { "C04" }
    fn level(&self) -> &'static str { "exploration" }
    fn rule(&self) -> &'static str {
        "streams of 1-60 well-formed commands (GET/SET prefixes of every length 1-8 in exact and lower case, all data families, MULTI/EXEC/DISCARD blocks, unknown commands, PING) sent to the production connection handler in tape-chosen pieces (1 byte .. whole stream) with the handler starved or not between pieces; ConnectionConfig swarm-drawn (min_pipeline_buffer 0/1/14/15/60/70/10^4, batch_threshold 1/2/3/6/50, read_buffer_size 1/7/16/64/8192, 1 or 4 shards); a twin server gets one command per read. derive(): every single split point of the pilot stream (thorough; quick: 24 evenly spread) and sampled pairs. Malformed mode: one of 6 damaged frames inserted after a tape-chosen command. Non-trivial = stream >= min_pipeline_buffer with a GET/SET prefix, or a split strictly inside a frame; distinct = (stream, cut points, config)"
    }
    fn components_real(&self) -> Vec<&'static str> { vec!["production::connection_optimized::OptimizedConnectionHandler::run (through hook H1), incl. batch collectors, fast path, try_execute_command, transaction state machine, encode_resp_into", "redis::RespCodec::parse, Command::from_resp_zero_copy", "production::ShardedActorState (ProductionTimeSource behind hook H2) with its shard actors"] }
    fn components_stubbed(&self) -> Vec<&'static str> { vec!["TCP socket -> SimStream (client-chosen read boundaries, optional short writes)", "ACL: default AclManager, metrics: no-op, as in a default server start", "TLS, accept loop, TTL manager task not run; the clock stands still during a run"] }
    fn assumptions(&self) -> Vec<&'static str> { vec!["SPOP is not generated (legitimately random)", "a damaged frame must be answered by at least one error reply after the replies of the earlier commands; what happens to commands sent after it in the same read is not constrained"] }
    fn required_probes(&self) -> Vec<&'static str> { vec!["split_inside_frame", "partial_tail_frame", "stream_reaches_min_pipeline_buffer", "malformed_frame_sent", "prior_connections_on_shared_pool", "reply_backlog_over_64k", "reply_backlog_over_256k"] }
    fn runs(&self, tier: Tier) -> u64 { match tier { Tier::Quick => 40000, Tier::Thorough => 600000 } }

    fn derive(&self, tape: &[u64], rep: &RunReport, tier: Tier) -> Vec<Vec<u64>> {
        if tape.len() < 4 || tape[H_MODE] % 8 != 0 { return vec![]; }
        let len = rep.sample.as_ref().and_then(|s| s["stream_bytes"].as_u64()).unwrap_or(0) as usize;
        let malformed = rep.sample.as_ref().and_then(|s| s["malformed"].as_bool()).unwrap_or(false);
        if len < 2 || len > 400 || malformed { return vec![]; }
        let mut out = Vec::new();
        let stride = match tier { Tier::Quick => (len / 24).max(1), Tier::Thorough => 1 };
        let mut a = 1;
        while a < len { let mut t = tape.to_vec(); t[H_MODE] = 1; t[H_A] = a as u64; out.push(t); a += stride; }
        let mut t = tape.to_vec(); t[H_MODE] = 3; out.push(t);
        if len <= 80 {
            let pairs = match tier { Tier::Quick => 8, Tier::Thorough => 200 };
            let mut h = fnv(0, &tape.iter().flat_map(|v| v.to_le_bytes()).collect::<Vec<u8>>());
            for _ in 0..pairs { h = crate::simkit::tape::mix(h, 3); let a = 1 + (h % (len as u64 - 1)); h = crate::simkit::tape::mix(h, 5); let b = 1 + (h % (len as u64 - 1)); let mut t = tape.to_vec(); t[H_MODE] = 2; t[H_A] = a.min(b); t[H_B] = a.max(b); out.push(t); }
        }
        out
    }

    fn run(&self, src: &mut Src, ctx: &RunCtx) -> RunReport {
        let mut rep = RunReport::default();
        let mode = src.below(8);
        let h_a = src.below(1 << 16) as usize;
        let h_b = src.below(1 << 16) as usize;
        // one run in seven takes the persistent server's own connection loop (handle_connection in
        // src/bin/server_persistent.rs, included as a module by build.rs) in front of the replicated node it serves
        let persistent = crate::sp_bin::AVAILABLE && src.chance(1, 7);
        if persistent { rep.probe("persistent_server_connection_loop"); }
        let mut cfg = ConnectionConfig {
            max_buffer_size: 512 * 1024 * 1024,
            read_buffer_size: *src.pick(&[8192usize, 1, 7, 16, 64]),
            min_pipeline_buffer: *src.pick(&[60usize, 0, 1, 14, 15, 70, 10_000]),
            batch_threshold: *src.pick(&[2usize, 1, 3, 6, 50]),
        };
        let mut shards = *src.pick(&[1usize, 4]);
        // one run in six is configured the way the server binary configures itself: a PerformanceConfig read from
        // one of the files shipped in the tree (or the built-in default), validated, then
        // ShardedActorState::with_perf_config + ConnectionConfig::from_perf_config, as OptimizedRedisServer::run does
        let shipped: Option<redis_sim::production::PerformanceConfig> = match src.below(18) {
            0 => Some(redis_sim::production::PerformanceConfig::from_file(concat!(env!("VERIF_REPO_ROOT"), "/perf_config.toml"))),
            1 => Some(redis_sim::production::PerformanceConfig::from_file(concat!(env!("VERIF_REPO_ROOT"), "/docker-benchmark/perf_config.toml"))),
            2 => Some(redis_sim::production::PerformanceConfig::default()),
            _ => None,
        };
        if let Some(pc) = &shipped {
            rep.probe("configured_as_the_server_binary_does");
            if let Err(e) = pc.validate() { rep.violate("C04/shipped-configuration-invalid", format!("a PerformanceConfig shipped in the tree does not pass its own validate(): {}", e)); rep.evals = 1; return rep; }
            cfg = ConnectionConfig::from_perf_config(&pc.buffers, &pc.batching);
            shards = pc.num_shards;
        }
        let malformed = src.chance(1, 6);
        let cmds = gen_stream_cmds(src);
        if cmds.iter().any(|c| c.len() == 3 && c[2].len() >= 9000) { rep.probe("reply_backlog_over_64k"); }
        if cmds.iter().any(|c| c.len() == 3 && c[2].len() >= 40_000) { rep.probe("reply_backlog_over_256k"); }
        let deep = cmds.len() >= 300;
        if deep { rep.probe("deep_pipeline_of_over_300_tiny_commands"); }
        let dmg_kind = src.below(6);
        let dmg_at = src.idx(cmds.len() + 1);
        let short_writes = if src.chance(1, 8) { 1 + src.idx(7) } else { 0 };
        let short_writes = if short_writes == 0 && src.chance(1, 8) { *src.pick(&[1000usize, 4096, 65536]) } else { short_writes };
        // earlier connections of the same server: they share its buffer pool with this one. Each sends a few
        // PINGs and then breaks off in the middle of a frame.
        let prior = if src.chance(1, 4) && !persistent { 1 + src.below(2) as usize } else { 0 };
        let pool_size = *src.pick(&[4usize, 1, 2]);
        if prior > 0 { rep.probe("prior_connections_on_shared_pool"); rep.fault("earlier_connection_broke_off_mid_frame"); }
        if short_writes > 0 { rep.fault("short_socket_writes"); }
        // byte stream
        let mut bytes: Vec<u8> = Vec::new();
        let mut frame_starts: Vec<usize> = Vec::new();
        for (i, c) in cmds.iter().enumerate() {
            if malformed && i == dmg_at { frame_starts.push(bytes.len()); bytes.extend_from_slice(&damaged_frame(dmg_kind)); }
            frame_starts.push(bytes.len());
            bytes.extend_from_slice(&encode_cmd(c));
        }
        if malformed && dmg_at == cmds.len() { frame_starts.push(bytes.len()); bytes.extend_from_slice(&damaged_frame(dmg_kind)); }
        if malformed { rep.probe("malformed_frame_sent"); }
        // cut points
        let len = bytes.len();
        let mut cuts: Vec<usize> = match mode {
            1 => vec![h_a % len.max(1)],
            2 => vec![h_a % len.max(1), h_b % len.max(1)],
            3 => vec![],
            _ => {
                let style = if deep { 2 } else { src.below(4) }; // (a deep pipeline comes in large pieces, whole in the canonical case)
                let mut v = Vec::new();
                let mut pos = 0usize;
                while pos < len {
                    let step = match style { 0 => 1 + src.idx(3), 1 => 1 + src.idx(40), 2 => 1 + src.idx(len), _ => if src.chance(1, 3) { 1 } else { 5 + src.idx(120) } };
                    pos += step;
                    if pos < len { v.push(pos); }
                    if v.len() > 400 { break; }
                }
                v
            }
        };
        cuts.retain(|c| *c > 0 && *c < len);
        cuts.sort(); cuts.dedup();
        if cuts.iter().any(|c| !frame_starts.contains(c)) { rep.probe("split_inside_frame"); rep.nontrivial = true; }
        if cuts.iter().any(|c| frame_starts.iter().any(|f| *c > *f && *c < f + 6)) { rep.probe("partial_tail_frame"); }
        let prefix_gs = matches!(String::from_utf8_lossy(&cmds[0][0]).to_uppercase().as_str(), "GET" | "SET");
        if len >= cfg.min_pipeline_buffer { rep.probe("stream_reaches_min_pipeline_buffer"); if prefix_gs { rep.nontrivial = true; } }
        let seed = src.u64_any();
        let yield_bias = src.below(8);
        let trace = ctx.trace;
        if trace {
            rep.trace.push(format!("config: read_buffer_size={} min_pipeline_buffer={} batch_threshold={} shards={} short_writes={} mode={}", cfg.read_buffer_size, cfg.min_pipeline_buffer, cfg.batch_threshold, shards, short_writes, mode));
            for (i, c) in cmds.iter().enumerate() { if malformed && i == dmg_at { rep.trace.push(format!("  <damaged frame {:?}>", String::from_utf8_lossy(&damaged_frame(dmg_kind)))); } rep.trace.push(format!("  cmd#{} {}", i, show_cmd(c))); }
            rep.trace.push(format!("stream of {} bytes cut at {:?}", len, cuts));
        }
        let clock = SimClock::new(1_700_000_000_000);
        clock.publish();
        let cmds2 = cmds.clone();
        let bytes2 = bytes.clone();
        let cuts2 = cuts.clone();
        let cfg2 = cfg.clone();
        let _ = verif_hooks::probe::take();
        // a damaged frame at the very end of the stream: once it has been answered and the connection is quiet, a fresh,
        // well-formed command in a read of its own must be answered again (the connection recovers)
        let epilogue = malformed && dmg_at == cmds.len();
        struct Out { pong: Option<bool>, a_out: Vec<u8>, b_out: Vec<u8>, a_idle_pending: usize, b_stuck: bool, dump_a: std::collections::BTreeMap<Vec<u8>, String>, dump_b: std::collections::BTreeMap<Vec<u8>, String>, steps: u64, a_closed: bool }
        let out: Out = rt::block_on(seed, async move {
            let mk_node = || std::sync::Arc::new(redis_sim::production::ReplicatedShardedState::new(crate::model::cluster::repl_config(1, redis_sim::replication::ConsistencyLevel::Eventual)));
            let (state_a, state_b) = if persistent { (Sut::Per(mk_node()), Sut::Per(mk_node())) } else { match &shipped { Some(pc) => (Sut::Opt(ShardedActorState::with_perf_config(pc)), Sut::Opt(ShardedActorState::with_perf_config(pc))), None => (Sut::Opt(new_state(shards)), Sut::Opt(new_state(shards))) } };
            let sa = StreamHandle::new(); let sb = StreamHandle::new();
            sa.0.borrow_mut().max_write = short_writes;
            let pool = ConnectionPool::new(16, pool_size);
            for p in 0..prior {
                let sp = StreamHandle::new();
                let mut junk = Vec::new();
                for _ in 0..=p { junk.extend_from_slice(b"*1\r\n$4\r\nPING\r\n"); }
                junk.extend_from_slice(&b"*2\r\n$3\r\nGET\r\n$7\r\nabc"[..(12 + 7 * p).min(24)]);
                sp.deliver(&junk); sp.close();
                if let Sut::Opt(st) = &state_a { verif_hooks::connection_on_pool(sp.server_end(), st.clone(), cfg2.clone(), &pool).await; }
            }
            let mut sched = Sched::new();
            sched.idle_limit_ms = 30_000;
            match (&state_a, &state_b) {
                (Sut::Opt(a), Sut::Opt(b)) => {
                    sched.add("handlerA", verif_hooks::connection_on_pool(sa.server_end(), a.clone(), cfg2.clone(), &pool));
                    sched.add("handlerB", verif_hooks::connection(sb.server_end(), b.clone(), cfg2.clone()));
                }
                (Sut::Per(a), Sut::Per(b)) => {
                    let (fa, fb) = (crate::sp_bin::verif_handle_connection(sa.server_end(), a.clone()), crate::sp_bin::verif_handle_connection(sb.server_end(), b.clone()));
                    sched.add("handlerA", async move { let _ = fa.await; });
                    sched.add("handlerB", async move { let _ = fb.await; });
                }
                _ => unreachable!(),
            }
            let sa2 = sa.clone();
            sched.add("clientA", async move {
                let mut prev = 0;
                for c in cuts2.iter().chain(std::iter::once(&bytes2.len())) { sa2.deliver(&bytes2[prev..*c]); prev = *c; YieldOnce(false).await; }
            });
            let sb2 = sb.clone();
            let ncmds = cmds2.len();
            let b_done = std::rc::Rc::new(std::cell::Cell::new(0usize));
            let b_done2 = b_done.clone();
            sched.add("clientB", async move {
                for (i, c) in cmds2.iter().enumerate() {
                    sb2.deliver(&encode_cmd(c));
                    loop {
                        let o = sb2.out();
                        let (reps, _, _) = decode_all(&o);
                        if reps.len() >= i + 1 { break; }
                        sb2.wait_out(o.len()).await;
                        if sb2.0.borrow().closed_by_server { return; }
                    }
                    b_done2.set(i + 1);
                }
            });
            // run until nothing can move
            let mut guard = 0;
            loop {
                guard += 1;
                if guard > 200_000 { break; }
                match sched.step(src, yield_bias).await { Step::Idle => break, _ => {} }
                if sched.is_done(2) && sched.is_done(3) && sched.ready().is_empty() {
                    // both clients finished; let the handlers drain what they have
                    sched.yield_actors().await;
                    if sched.ready().is_empty() { if let Step::Idle = sched.step(src, yield_bias).await { break; } }
                }
            }
            let mut pong = None;
            if epilogue && !sa.0.borrow().closed_by_server && sa.pending_in() == 0 {
                sa.deliver(b"*1\r\n$4\r\nPING\r\n");
                for _ in 0..10_000 { if let Step::Idle = sched.step(src, yield_bias).await { break; } }
                let (reps, _, _) = decode_all(&sa.out());
                pong = Some(reps.last().map(|r| *r == R::Simple("PONG".into())).unwrap_or(false));
            }
            let a_idle_pending = sa.pending_in();
            let a_closed = sa.0.borrow().closed_by_server;
            let b_stuck = b_done.get() < ncmds;
            let (a_out, b_out) = (sa.out(), sb.out());
            let dump_a = dump_sut(&state_a).await;
            let dump_b = dump_sut(&state_b).await;
            sa.close(); sb.close();
            for _ in 0..50 { if sched.is_done(0) && sched.is_done(1) { break; } let _ = sched.step(src, 0).await; }
            Out { pong, a_out, b_out, a_idle_pending, b_stuck, dump_a, dump_b, steps: sched.steps, a_closed }
        });
        redis_sim::production::verif_hooks::clock::clear();
        for (k, v) in verif_hooks::probe::take() { rep.probe_n(k, v); }
        rep.steps = out.steps;
        if out.pong.is_some() { rep.probe("ping_after_damaged_frame_at_end_of_stream"); }
        let (ra, _, ea) = decode_all(&out.a_out);
        let (rb, _, eb) = decode_all(&out.b_out);
        if trace {
            rep.trace.push(format!("pipelined server wrote {} replies: {}", ra.len(), ra.iter().map(|r| r.show()).collect::<Vec<_>>().join(" | ")));
            rep.trace.push(format!("one-at-a-time twin wrote {} replies: {}", rb.len(), rb.iter().map(|r| r.show()).collect::<Vec<_>>().join(" | ")));
        }
        rep.evals = 1;
        if let Some(e) = ea { rep.violate("C04/reply-stream-undecodable", format!("the handler's output does not decode as RESP2: {} (after {} replies)", e, ra.len())); return finish(rep, &cmds, &cuts, &cfg, shards, len, malformed); }
        if eb.is_some() || out.b_stuck {
            if !malformed { rep.violate("C04/no-reply-when-sent-alone", format!("twin server (one command per read) answered {} of {} commands", rb.len(), cmds.len())); }
            return finish(rep, &cmds, &cuts, &cfg, shards, len, malformed);
        }
        if !malformed {
            if ra.len() < cmds.len() {
                let first_missing = ra.iter().zip(rb.iter()).position(|(x, y)| x != y).unwrap_or(ra.len());
                let engaged = rep.probes.get("collector_consumed_get").copied().unwrap_or(0) + rep.probes.get("collector_consumed_set").copied().unwrap_or(0) > 0;
                let key = if engaged { "C04/lost-reply/batch-collector-consumed-without-executing" } else { "C04/lost-reply" };
                rep.violate(key, format!("{} commands sent, {} replies after the connection went idle with {} unread bytes{}; first divergence from the one-at-a-time replies at reply #{} (cmd {})", cmds.len(), ra.len(), out.a_idle_pending, if out.a_closed { " (handler exited)" } else { "" }, first_missing, cmds.get(first_missing).map(|c| show_cmd(c)).unwrap_or_default()));
            } else if ra.len() > cmds.len() {
                rep.violate("C04/extra-reply", format!("{} commands sent, {} replies", cmds.len(), ra.len()));
            } else {
                for (i, c) in cmds.iter().enumerate() {
                    let nm = String::from_utf8_lossy(&c[0]).to_uppercase();
                    if norm(&nm, &ra[i]) != norm(&nm, &rb[i]) {
                        rep.violate("C04/reply-differs-from-sequential", format!("reply #{} to {}: pipelined {} vs sent alone {}", i, show_cmd(c), ra[i].show(), rb[i].show()));
                        break;
                    }
                }
                if rep.violations.is_empty() && out.dump_a != out.dump_b {
                    let k = out.dump_a.keys().chain(out.dump_b.keys()).find(|k| out.dump_a.get(*k) != out.dump_b.get(*k)).cloned().unwrap_or_default();
                    rep.violate("C04/final-keyspace-differs", format!("key {:?}: pipelined {:?} vs one-at-a-time {:?}", String::from_utf8_lossy(&k), out.dump_a.get(&k), out.dump_b.get(&k)));
                }
            }
        } else {
            // earlier replies untouched, then at least one error reply
            let before = dmg_at;
            let prefix_ok = ra.len() >= before && (0..before).all(|i| { let nm = String::from_utf8_lossy(&cmds[i][0]).to_uppercase(); norm(&nm, &ra[i]) == norm(&nm, &rb[i]) });
            if !prefix_ok {
                rep.violate("C04/malformed/earlier-replies-altered", format!("damaged frame {:?} after command #{}: replies to the earlier commands are {:?}, sent alone they are {:?}", String::from_utf8_lossy(&damaged_frame(dmg_kind)), before, ra.iter().take(before).map(|r| r.show()).collect::<Vec<_>>(), rb.iter().take(before).map(|r| r.show()).collect::<Vec<_>>()));
            } else if out.pong == Some(false) && !out.a_closed {
                rep.violate("C04/malformed/connection-does-not-recover", format!("damaged frame {:?} at the end of the stream was answered; the connection went quiet with nothing pending; a PING sent afterwards in a read of its own got no +PONG (all replies: {:?})", String::from_utf8_lossy(&damaged_frame(dmg_kind)), ra.iter().map(|r| r.show()).collect::<Vec<_>>()));
            } else if !ra.iter().skip(before).any(|r| r.is_err()) {
                let key = match dmg_kind % 6 { 3 => "C04/malformed/no-error-reply/cr-without-lf-waits-forever", _ => "C04/malformed/no-error-reply" };
                rep.violate(key, format!("damaged frame {:?} after command #{}: no error reply followed (replies after it: {:?}; handler exited: {})", String::from_utf8_lossy(&damaged_frame(dmg_kind)), before, ra.iter().skip(before).map(|r| r.show()).collect::<Vec<_>>(), out.a_closed));
            }
        }
        finish(rep, &cmds, &cuts, &cfg, shards, len, malformed)
    }
}

/// The server behind the connection: the sharded server of server_optimized, or the replicated node of server_persistent.
pub enum Sut { Opt(ShardedActorState), Per(std::sync::Arc<redis_sim::production::ReplicatedShardedState>) }
impl Sut {
    async fn exec(&self, parts: Vec<Vec<u8>>) -> R {
        match crate::model::wire::parse_cmd(&parts) { Ok(c) => match self { Sut::Opt(s) => R::from_resp(&s.execute(&c).await), Sut::Per(n) => R::from_resp(&n.execute(c).await) }, Err(e) => R::Err(e) }
    }
}
pub async fn dump_prod(state: &ShardedActorState) -> std::collections::BTreeMap<Vec<u8>, String> { dump_sut(&Sut::Opt(state.clone())).await }
pub async fn dump_sut(state: &Sut) -> std::collections::BTreeMap<Vec<u8>, String> {
    // same dump as C03's, for the production time source
    let mut out = std::collections::BTreeMap::new();
    let exec = |parts: Vec<Vec<u8>>| async move { state.exec(parts).await };
    let R::Arr(Some(keys)) = exec(crate::model::wire::cmd(&["KEYS", "*"])).await else { return out };
    for k in keys {
        let R::Bulk(Some(k)) = k else { continue };
        let ty = exec(vec![b"TYPE".to_vec(), k.clone()]).await;
        let tname = if let R::Simple(s) = &ty { s.clone() } else { ty.show() };
        let val = match tname.as_str() {
            "string" => exec(vec![b"GET".to_vec(), k.clone()]).await,
            "list" => exec(vec![b"LRANGE".to_vec(), k.clone(), b"0".to_vec(), b"-1".to_vec()]).await,
            "set" => norm("SMEMBERS", &exec(vec![b"SMEMBERS".to_vec(), k.clone()]).await),
            "hash" => norm("HGETALL", &exec(vec![b"HGETALL".to_vec(), k.clone()]).await),
            "zset" => exec(vec![b"ZRANGE".to_vec(), k.clone(), b"0".to_vec(), b"-1".to_vec(), b"WITHSCORES".to_vec()]).await,
            _ => R::Simple("?".into()),
        };
        let pttl = exec(vec![b"PTTL".to_vec(), k.clone()]).await;
        out.insert(k, format!("{} {} pttl={}", tname, val.show(), pttl.show()));
    }
    let _ = (dump, Path::Generic);
    out
}

fn finish(mut rep: RunReport, cmds: &[Cmd], cuts: &[usize], cfg: &ConnectionConfig, shards: usize, len: usize, malformed: bool) -> RunReport {
    let mut fp = fnv(rep.probes.contains_key("persistent_server_connection_loop") as u64, &[shards as u8, (cfg.read_buffer_size % 251) as u8, (cfg.min_pipeline_buffer % 251) as u8, cfg.batch_threshold as u8, malformed as u8]);
    for c in cmds { for a in c { fp = fnv(fp, a); fp = fnv(fp, &[0]); } }
    for c in cuts { fp = fnv(fp, &(*c as u32).to_le_bytes()); }
    rep.fingerprint = fp;
    rep.sample = Some(json!({"commands": cmds.iter().take(10).map(|c| show_cmd(c)).collect::<Vec<_>>(), "n_commands": cmds.len(), "stream_bytes": len, "cuts": cuts.iter().take(20).collect::<Vec<_>>(), "malformed": malformed,
        "config": {"read_buffer_size": cfg.read_buffer_size, "min_pipeline_buffer": cfg.min_pipeline_buffer, "batch_threshold": cfg.batch_threshold, "shards": shards}}));
    rep
}
