//! C03 — shard count is unobservable: N shards answer exactly like one shard.
//!
//! Twin refinement: the same command sequence goes to a 1-shard and an N-shard
//! `ShardedActorState<SimClock>` (real shard actors on the deterministic runtime); for every plain
//! GET/SET the entry path (generic execute, fast_*, pooled_fast_*, fast_batch_*_pipeline) is drawn
//! independently per twin. Replies are compared per command and the final keyspaces are dumped
//! through the generic path and, for strings, through the fast path.

use crate::model::cmdgen::{gen_cmd, Cmd, Fam, GenCfg, ALL_FAMS};
use crate::model::wire::{parse_cmd, show_cmd, R};
use crate::simkit::clock::SimClock;
use crate::simkit::rt;
use crate::simkit::runner::{Property, RunCtx, RunReport, Tier};
use crate::simkit::tape::{fnv, Src};
use bytes::Bytes;
use redis_sim::production::{ShardConfig, ShardedActorState};
use crate::model::wire::{decode_all, encode_cmd};
use crate::props::c04::{dump_prod, gen_stream_cmds, new_state};
use crate::simkit::rt::{Sched, Step};
use crate::simkit::stream::StreamHandle;
use redis_sim::production::{verif_hooks, ConnectionConfig};
use serde_json::json;
use std::collections::BTreeMap;

pub struct C03;

#[derive(Debug, Clone, Copy, PartialEq, Eq)]
pub enum Path { Generic, Fast, Pooled, Batch }
impl Path { fn name(&self) -> &'static str { match self { Path::Generic => "execute", Path::Fast => "fast", Path::Pooled => "pooled", Path::Batch => "batch" } } }

pub fn shard_state(n: usize, clock: &SimClock) -> ShardedActorState<SimClock> {
    let mut cfg = ShardConfig::with_shards(n);
    cfg.min_shards = n; cfg.max_shards = n; cfg.initial_shards = n;
    ShardedActorState::with_config_and_time_source(cfg, clock.clone())
}

/// Send one command by the chosen path. Only plain `GET k` and `SET k v` have fast paths.
pub async fn send(state: &ShardedActorState<SimClock>, cmd: &Cmd, path: Path) -> R {
    let name = String::from_utf8_lossy(&cmd[0]).to_uppercase();
    if path != Path::Generic && name == "GET" && cmd.len() == 2 {
        let k = Bytes::copy_from_slice(&cmd[1]);
        let r = match path { Path::Fast => state.fast_get(k).await, Path::Pooled => state.pooled_fast_get(k).await, _ => state.fast_batch_get_pipeline(vec![k]).await.into_iter().next().unwrap_or(redis_sim::redis::RespValue::err("ERR empty batch reply")) };
        return R::from_resp(&r);
    }
    if path != Path::Generic && name == "SET" && cmd.len() == 3 {
        let (k, v) = (Bytes::copy_from_slice(&cmd[1]), Bytes::copy_from_slice(&cmd[2]));
        let r = match path { Path::Fast => state.fast_set(k, v).await, Path::Pooled => state.pooled_fast_set(k, v).await, _ => state.fast_batch_set_pipeline(vec![(k, v)]).await.into_iter().next().unwrap_or(redis_sim::redis::RespValue::err("ERR empty batch reply")) };
        return R::from_resp(&r);
    }
    match parse_cmd(cmd) {
        Ok(c) => R::from_resp(&state.execute(&c).await),
        Err(e) => R::Err(e),
    }
}

fn norm_unordered(name: &str, r: &R) -> R {
    match (name, r) {
        ("SMEMBERS" | "HKEYS" | "HVALS" | "KEYS", R::Arr(Some(xs))) => { let mut v = xs.clone(); v.sort(); R::Arr(Some(v)) }
        ("HGETALL", R::Arr(Some(xs))) if xs.len() % 2 == 0 => { let mut pairs: Vec<(R, R)> = xs.chunks(2).map(|c| (c[0].clone(), c[1].clone())).collect(); pairs.sort(); R::Arr(Some(pairs.into_iter().flat_map(|(a, b)| [a, b]).collect())) }
        ("SCAN" | "HSCAN" | "ZSCAN", R::Arr(Some(xs))) if xs.len() == 2 => {
            // [cursor, items]: the full-iteration contract is about the set of items
            let items = match (&xs[1], name) {
                (R::Arr(Some(it)), "SCAN") => { let mut v = it.clone(); v.sort(); R::Arr(Some(v)) }
                (R::Arr(Some(it)), _) if it.len() % 2 == 0 => { let mut pairs: Vec<(R, R)> = it.chunks(2).map(|c| (c[0].clone(), c[1].clone())).collect(); pairs.sort(); R::Arr(Some(pairs.into_iter().flat_map(|(a, b)| [a, b]).collect())) }
                (o, _) => o.clone(),
            };
            R::Arr(Some(vec![xs[0].clone(), items]))
        }
        _ => r.clone(),
    }
}

/// Full dump of the visible keyspace through the generic path.
pub async fn dump(state: &ShardedActorState<SimClock>) -> BTreeMap<Vec<u8>, String> {
    let mut out = BTreeMap::new();
    let keys = send(state, &crate::model::wire::cmd(&["KEYS", "*"]), Path::Generic).await;
    let R::Arr(Some(keys)) = keys else { out.insert(b"<KEYS failed>".to_vec(), keys.show()); return out };
    for k in keys {
        let R::Bulk(Some(k)) = k else { continue };
        let ty = send(state, &vec![b"TYPE".to_vec(), k.clone()], Path::Generic).await;
        let tname = if let R::Simple(s) = &ty { s.clone() } else { ty.show() };
        let val = match tname.as_str() {
            "string" => send(state, &vec![b"GET".to_vec(), k.clone()], Path::Generic).await,
            "list" => send(state, &vec![b"LRANGE".to_vec(), k.clone(), b"0".to_vec(), b"-1".to_vec()], Path::Generic).await,
            "set" => norm_unordered("SMEMBERS", &send(state, &vec![b"SMEMBERS".to_vec(), k.clone()], Path::Generic).await),
            "hash" => norm_unordered("HGETALL", &send(state, &vec![b"HGETALL".to_vec(), k.clone()], Path::Generic).await),
            "zset" => send(state, &vec![b"ZRANGE".to_vec(), k.clone(), b"0".to_vec(), b"-1".to_vec(), b"WITHSCORES".to_vec()], Path::Generic).await,
            _ => R::Simple("?".into()),
        };
        let pttl = send(state, &vec![b"PTTL".to_vec(), k.clone()], Path::Generic).await;
        out.insert(k, format!("{} {} pttl={}", tname, val.show(), pttl.show()));
    }
    out
}

/// Send `group` to a handler in one read and step until every reply of the group has arrived.
async fn exchange(sched: &mut Sched<'_>, src: &mut Src, stream: &StreamHandle, group: &[Cmd], have: &mut usize) -> Option<Vec<R>> {
    let mut bytes = Vec::new();
    for c in group { bytes.extend_from_slice(&encode_cmd(c)); }
    stream.deliver(&bytes);
    for _ in 0..20_000 {
        let (reps, _, err) = decode_all(&stream.out());
        if err.is_some() { return None; }
        if reps.len() >= *have + group.len() { let out = reps[*have..*have + group.len()].to_vec(); *have += group.len(); return Some(out); }
        if let Step::Idle = sched.step(src, 0).await { return None; }
    }
    None
}

const SCRIPTS: &[&str] = &[
    "return redis.call('GET', KEYS[1])",
    "local v = redis.call('GET', KEYS[1]); redis.call('SET', KEYS[1], (v or '') .. ARGV[1]); return v",
    "return redis.call('INCRBY', KEYS[1], ARGV[1])",
    "return {KEYS[1], ARGV[1]}",
];
fn sha1_hex(text: &str) -> String {
    use sha1::{Digest, Sha1};
    let mut h = Sha1::new();
    h.update(text.as_bytes());
    h.finalize().iter().map(|b| format!("{:02x}", b)).collect()
}
/// EVAL / SCRIPT LOAD / EVALSHA / SCRIPT EXISTS / SCRIPT FLUSH over a handful of one-key scripts.
pub fn script_cmd(s: &mut Src, key: Vec<u8>) -> Cmd {
    let b = |x: &str| x.as_bytes().to_vec();
    let sc = SCRIPTS[s.idx(SCRIPTS.len())];
    let arg = [b("1"), b("x"), b("-3")][s.idx(3)].clone();
    match s.weighted(&[3, 3, 4, 1, 1]) {
        0 => vec![b("EVAL"), b(sc), b("1"), key, arg],
        1 => vec![b("SCRIPT"), b("LOAD"), b(sc)],
        2 => vec![b("EVALSHA"), b(&sha1_hex(sc)), b("1"), key, arg],
        3 => vec![b("SCRIPT"), b("EXISTS"), b(&sha1_hex(sc)), b(&sha1_hex(SCRIPTS[s.idx(SCRIPTS.len())]))],
        _ => vec![b("SCRIPT"), b("FLUSH")],
    }
}

impl C03 {
    /// Connection-level twin: the same command stream (with MULTI/EXEC blocks) goes through the
    /// production connection handler in front of a 1-shard and an N-shard server.
    fn run_conn(&self, src: &mut Src, ctx: &RunCtx, n: usize) -> RunReport {
        let mut rep = RunReport::default();
        rep.probe("connection_level_run");
        let mut cmds = gen_stream_cmds(src);
        for c in cmds.iter_mut() {
            let nm = String::from_utf8_lossy(&c[0]).to_uppercase();
            if (nm == "SPOP" || nm == "SRANDMEMBER") && c.len() >= 2 { *c = vec![b"SCARD".to_vec(), c[1].clone()]; }
        }
        let depth = 1 + src.below(4) as usize;
        let cfg = ConnectionConfig { max_buffer_size: 1 << 20, read_buffer_size: *src.pick(&[8192usize, 16, 64]), min_pipeline_buffer: *src.pick(&[60usize, 0, 15]), batch_threshold: *src.pick(&[2usize, 1, 3]) };
        let advs: Vec<u64> = (0..cmds.len()).map(|_| if src.chance(1, 5) { [1u64, 999, 1000, 1500, 10_000, 100_000][src.idx(6)] } else { 0 }).collect();
        let seed = src.u64_any();
        let trace = ctx.trace;
        let mut in_multi = false;
        for c in &cmds {
            let nm = String::from_utf8_lossy(&c[0]).to_uppercase();
            if nm == "MULTI" { in_multi = true; }
            if nm == "EXEC" && in_multi { rep.probe("transaction_replayed_on_n_shards"); in_multi = false; }
            if nm == "DISCARD" { in_multi = false; }
            if matches!(nm.as_str(), "MGET" | "MSET" | "MSETNX" | "DEL" | "EXISTS" | "RPOPLPUSH" | "LMOVE" | "RENAME" | "RENAMENX") && c.len() > 2 { rep.probe("multikey_cmd"); }
        }
        let cmds2 = cmds.clone();
        let (viol, log): (Option<(String, String)>, Vec<String>) = rt::block_on(seed, async move {
            let clock = SimClock::new(1_700_000_000_000);
            clock.publish();
            let a = new_state(1);
            let b = new_state(n);
            let (sa, sb) = (StreamHandle::new(), StreamHandle::new());
            let mut sched = Sched::new();
            sched.add("handler-1-shard", verif_hooks::connection(sa.server_end(), a.clone(), cfg.clone()));
            sched.add("handler-n-shards", verif_hooks::connection(sb.server_end(), b.clone(), cfg.clone()));
            let mut log = Vec::new();
            let (mut ha, mut hb) = (0usize, 0usize);
            let mut two_key_seen = false;
            let mut i = 0usize;
            let mut res: Option<(String, String)> = None;
            'outer: for group in cmds2.chunks(depth) {
                let adv: u64 = advs[i..i + group.len()].iter().sum();
                if adv > 0 { clock.advance(adv); clock.publish(); if trace { log.push(format!("clock +{} ms", adv)); } }
                let ra = exchange(&mut sched, src, &sa, group, &mut ha).await;
                let rb = exchange(&mut sched, src, &sb, group, &mut hb).await;
                let (Some(ra), Some(rb)) = (ra, rb) else {
                    res = Some(("C03/connection/no-reply".to_string(), format!("commands #{}.. ({}): a handler did not answer the whole group", i, show_cmd(&group[0]))));
                    break 'outer;
                };
                for (j, c) in group.iter().enumerate() {
                    let nm = String::from_utf8_lossy(&c[0]).to_uppercase();
                    if trace { log.push(format!("#{} {}   1-shard -> {}   {}-shard -> {}", i + j, show_cmd(c), ra[j].show(), n, rb[j].show())); }
                    if matches!(nm.as_str(), "RPOPLPUSH" | "LMOVE" | "RENAME" | "RENAMENX" | "MSETNX") && c.len() > 2 && c[1..].iter().any(|x| x != &c[1]) { two_key_seen = true; }
                    let (na, nb) = (norm_unordered(&nm, &ra[j]), norm_unordered(&nm, &rb[j]));
                    if na != nb {
                        let key = if two_key_seen { "C03/two-key-command-runs-on-first-keys-shard".to_string() }
                            else if nm == "SCAN" { "C03/reply-differs/scan-count-per-shard".to_string() }
                            else if nm == "EXEC" { "C03/connection/exec-reply-differs".to_string() }
                            else { format!("C03/connection/reply-differs/{}", nm.to_lowercase()) };
                        res = Some((key, format!("connection level, command #{} {}: 1 shard replied {} but {} shards replied {}", i + j, show_cmd(c), ra[j].show(), n, rb[j].show())));
                        break 'outer;
                    }
                }
                i += group.len();
            }
            if res.is_none() {
                let (da, db) = (dump_prod(&a).await, dump_prod(&b).await);
                if da != db {
                    let k = da.keys().chain(db.keys()).find(|k| da.get(*k) != db.get(*k)).cloned().unwrap_or_default();
                    let key = if two_key_seen { "C03/two-key-command-runs-on-first-keys-shard" } else { "C03/connection/final-keyspace-differs" };
                    res = Some((key.to_string(), format!("connection level, after {} commands key {:?}: 1 shard has {:?}, {} shards have {:?}", cmds2.len(), String::from_utf8_lossy(&k), da.get(&k), n, db.get(&k))));
                }
            }
            sa.close(); sb.close();
            for _ in 0..20 { if sched.is_done(0) && sched.is_done(1) { break; } let _ = sched.step(src, 0).await; }
            verif_hooks::clock::clear();
            (res, log)
        });
        rep.trace = log;
        if let Some((k, m)) = viol { rep.violate(k, m); }
        rep.evals = cmds.len() as u64 + 1;
        rep.nontrivial = rep.probes.contains_key("transaction_replayed_on_n_shards") || rep.probes.contains_key("multikey_cmd");
        let mut fp = fnv(0xc0, &[n as u8, depth as u8]);
        for c in &cmds { for a in c { fp = fnv(fp, a); fp = fnv(fp, &[0]); } }
        rep.fingerprint = fp;
        rep.sample = Some(json!({"connection_level": true, "shards": n, "pipeline_depth": depth, "commands": cmds.iter().take(14).map(|c| show_cmd(c)).collect::<Vec<_>>() }));
        rep
    }
}

impl Property for C03 {
    fn id(&self) -> &'static str { "C03" }
    fn level(&self) -> &'static str { "exploration" }
    fn rule(&self) -> &'static str {
        "swarm-configured command sequences (strings, counters, keys/expiry, lists, sets, hashes, sorted sets, SCAN family, multi-key and two-key commands, FLUSHDB; <= 40 commands, 1-6 keys incl. odd names) sent to a 1-shard and an N-shard (2,3,4,8,16) real ShardedActorState under one simulated clock; entry path of each plain GET/SET drawn independently per twin; clock advances between commands. Non-trivial = some key was touched through >= 2 different entry paths, or a multi-key command spanned >= 2 shards; distinct = (commands, paths, shard count)"
    }
    fn components_real(&self) -> Vec<&'static str> { vec!["production::ShardedActorState<T>::{execute,fast_get,fast_set,pooled_fast_get,pooled_fast_set,fast_batch_get_pipeline,fast_batch_set_pipeline}", "ShardActor tasks and their CommandExecutors", "Command::from_resp_zero_copy (production parser)", "hash_key / hash_key_bytes routing, MGET/MSET/DEL/EXISTS/KEYS/SCAN/DBSIZE/FLUSH fan-out"] }
    fn components_stubbed(&self) -> Vec<&'static str> { vec!["four runs in five enter through the ShardedActorState API; every fifth through the production connection handler (hook H1) on a SimStream, with MULTI/EXEC blocks", "TimeSource -> SimClock (API level) / ProductionTimeSource behind hook H2 (connection level)"] }
    fn assumptions(&self) -> Vec<&'static str> { vec!["SPOP/SRANDMEMBER are excluded (their choice is legitimately random)", "replies of unordered commands are compared as multisets; SCAN-family replies by their item sets"] }
    fn required_probes(&self) -> Vec<&'static str> { vec!["key_via_two_paths", "multikey_cmd", "connection_level_run", "transaction_replayed_on_n_shards", "script_command"] }
    fn runs(&self, tier: Tier) -> u64 { match tier { Tier::Quick => 150000, Tier::Thorough => 3000000 } }

    fn run(&self, src: &mut Src, ctx: &RunCtx) -> RunReport {
        let mut rep = RunReport::default();
        let n = *src.pick(&[16usize, 2, 3, 4, 8]);
        if src.below(5) == 0 { return self.run_conn(src, ctx, n); }
        let mut g = GenCfg::swarm(src, ALL_FAMS, 6);
        let fams = g.fams.clone();
        let cmds: Vec<(Cmd, Path, Path, u64)> = src.list(40, 19, 20, |s| {
            let mut c = gen_cmd(s, &mut g);
            let nm = String::from_utf8_lossy(&c[0]).to_uppercase();
            if nm == "SPOP" { c = vec![b"SCARD".to_vec(), c[1].clone()]; }
            // scripts: run by text and by digest, loaded, looked up and flushed - the script cache is shared state that
            // every shard must see alike
            if s.chance(1, 10) { c = script_cmd(s, if c.len() >= 2 { c[1].clone() } else { b"k0".to_vec() }); }
            // server-wide settings are state too: a limit changed at run time, read back, and whatever a data command makes
            // of it (OBJECT ENCODING reports by thresholds) must not depend on which shard a key lives on
            if s.chance(1, 14) {
                let b = |x: &str| x.as_bytes().to_vec();
                const LIMITS: &[&str] = &["list-max-listpack-size", "set-max-listpack-entries", "set-max-intset-entries", "hash-max-listpack-entries", "hash-max-listpack-value", "zset-max-listpack-entries", "zset-max-listpack-value", "proto-max-bulk-len", "maxmemory"];
                let p = LIMITS[s.idx(LIMITS.len())];
                let k = if c.len() >= 2 { c[1].clone() } else { b("k0") };
                c = match s.below(4) { 0 | 1 => vec![b("CONFIG"), b("SET"), b(p), b(["0", "1", "2", "3", "8"][s.idx(5)])], 2 => vec![b("CONFIG"), b("GET"), b(p)], _ => vec![b("OBJECT"), b("ENCODING"), k] };
            }
            let pa = [Path::Generic, Path::Fast, Path::Pooled, Path::Batch][s.idx(4)];
            let pb = [Path::Generic, Path::Fast, Path::Pooled, Path::Batch][s.idx(4)];
            let adv = if s.chance(1, 4) { [1u64, 999, 1000, 1500, 10_000, 100_000][s.idx(6)] } else { 0 };
            (c, pa, pb, adv)
        });
        let stall_at: Option<usize> = if src.chance(1, 3) && !cmds.is_empty() { Some(src.idx(cmds.len())) } else { None };
        if stall_at.is_some() { rep.fault("shard_stalled"); }
        let seed = src.u64_any();
        let trace = ctx.trace;
        let mut via: BTreeMap<Vec<u8>, std::collections::BTreeSet<&'static str>> = BTreeMap::new();
        for (c, pa, pb, _) in &cmds {
            let nm = String::from_utf8_lossy(&c[0]).to_uppercase();
            let fastable = (nm == "GET" && c.len() == 2) || (nm == "SET" && c.len() == 3);
            if c.len() >= 2 { let e = via.entry(c[1].clone()).or_default(); e.insert(if fastable { pb.name() } else { "execute" }); let _ = pa; }
            if matches!(nm.as_str(), "MGET" | "MSET" | "MSETNX" | "DEL" | "EXISTS" | "RPOPLPUSH" | "LMOVE" | "RENAME" | "RENAMENX") && c.len() > 2 { rep.probe("multikey_cmd"); }
            if matches!(nm.as_str(), "EVAL" | "EVALSHA" | "SCRIPT") { rep.probe("script_command"); }
        }
        if via.values().any(|s| s.len() >= 2) { rep.probe("key_via_two_paths"); }
        let cmds2 = cmds.clone();
        let (viol, log): (Option<(String, String)>, Vec<String>) = rt::block_on(seed, async move {
            let clock = SimClock::new(1_700_000_000_000);
            let a = shard_state(1, &clock);
            let b = shard_state(n, &clock);
            let mut log = Vec::new();
            let mut two_key_seen = false;
            for (i, (c, pa, pb, adv)) in cmds2.iter().enumerate() {
                if *adv > 0 { clock.advance(*adv); if trace { log.push(format!("clock +{} ms", adv)); } }
                let nm = String::from_utf8_lossy(&c[0]).to_uppercase();
                let ra = send(&a, c, *pa).await;
                // a slow node: one shard of the N-shard server is held up before it handles its next message
                if stall_at == Some(i) { redis_sim::production::verif_hooks::stall::set_ms(1500); }
                let rb = send(&b, c, *pb).await;
                let _ = redis_sim::production::verif_hooks::stall::take_ms();
                if trace { log.push(format!("#{} {}   1-shard[{}] -> {}   {}-shard[{}] -> {}", i, show_cmd(c), pa.name(), ra.show(), n, pb.name(), rb.show())); }
                let (na, nb) = (norm_unordered(&nm, &ra), norm_unordered(&nm, &rb));
                if matches!(nm.as_str(), "RPOPLPUSH" | "LMOVE" | "RENAME" | "RENAMENX" | "MSETNX") && c.len() > 2 && c[1..].iter().any(|x| x != &c[1]) { two_key_seen = true; }
                if na != nb && two_key_seen {
                    return (Some(("C03/two-key-command-runs-on-first-keys-shard".to_string(), format!("command #{} {}: 1 shard replied {} but {} shards replied {} (an earlier or this two-key command ran on the shard of its first key only)", i, show_cmd(c), ra.show(), n, rb.show()))), log);
                }
                if na != nb {
                    let fast = *pa != Path::Generic || *pb != Path::Generic;
                    let fastable = (nm == "GET" && c.len() == 2) || (nm == "SET" && c.len() == 3);
                    let key = if matches!(nm.as_str(), "SCAN") { "C03/reply-differs/scan-count-per-shard".to_string() }
                        else if matches!(nm.as_str(), "RPOPLPUSH" | "LMOVE" | "RENAME" | "RENAMENX" | "MSETNX") { "C03/reply-differs/two-key-command-on-first-keys-shard".to_string() }
                        else if fast && fastable { format!("C03/reply-differs/fast-path-{}", nm.to_lowercase()) }
                        else { format!("C03/reply-differs/{}", nm.to_lowercase()) };
                    return (Some((key, format!("command #{} {}: 1 shard (via {}) replied {} but {} shards (via {}) replied {}", i, show_cmd(c), pa.name(), ra.show(), n, pb.name(), rb.show()))), log);
                }
            }
            let (da, db) = (dump(&a).await, dump(&b).await);
            if da != db && two_key_seen {
                return (Some(("C03/two-key-command-runs-on-first-keys-shard".to_string(), format!("final keyspaces differ after a two-key command: 1 shard {:?} vs {} shards {:?}", da.keys().map(|k| String::from_utf8_lossy(k).into_owned()).collect::<Vec<_>>(), n, db.keys().map(|k| String::from_utf8_lossy(k).into_owned()).collect::<Vec<_>>()))), log);
            }
            if da != db {
                let k = da.keys().chain(db.keys()).find(|k| da.get(*k) != db.get(*k)).cloned().unwrap_or_default();
                return (Some(("C03/final-keyspace-differs".to_string(), format!("after {} commands key {:?}: 1 shard has {:?}, {} shards have {:?}", cmds2.len(), String::from_utf8_lossy(&k), da.get(&k), n, db.get(&k)))), log);
            }
            // string keys must read the same through the fast path
            for (k, v) in &da {
                if v.starts_with("string ") {
                    let g1 = send(&b, &vec![b"GET".to_vec(), k.clone()], Path::Generic).await;
                    for p in [Path::Fast, Path::Pooled, Path::Batch] {
                        let g2 = send(&b, &vec![b"GET".to_vec(), k.clone()], p).await;
                        if g1 != g2 { return (Some(("C03/fast-path-reads-other-home".to_string(), format!("{} shards: GET {:?} via execute = {} but via {} = {}", n, String::from_utf8_lossy(k), g1.show(), p.name(), g2.show()))), log); }
                    }
                }
            }
            (None, log)
        });
        rep.trace = log;
        if let Some((k, m)) = viol { rep.violate(k, m); }
        rep.evals = cmds.len() as u64 + 1;
        rep.nontrivial = rep.probes.contains_key("key_via_two_paths") || rep.probes.contains_key("multikey_cmd");
        let mut fp = fnv(0, &[n as u8]);
        for (c, pa, pb, adv) in &cmds { for a in c { fp = fnv(fp, a); fp = fnv(fp, &[0]); } fp = fnv(fp, &[*pa as u8, *pb as u8, (*adv % 251) as u8]); }
        rep.fingerprint = fp;
        rep.sample = Some(json!({"shards": n, "families": fams.iter().map(|f| format!("{:?}", f)).collect::<Vec<_>>(), "commands": cmds.iter().take(12).map(|(c, pa, pb, adv)| format!("{} [{}|{}]{}", show_cmd(c), pa.name(), pb.name(), if *adv > 0 { format!(" then +{}ms", adv) } else { String::new() })).collect::<Vec<_>>() }));
        let _ = Fam::Str;
        rep
    }
}
