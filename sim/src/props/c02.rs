//! C02 — concurrent clients on one node see a linearizable per-key history.
//!
//! Real `ShardedActorState<SimClock>` with its real shard actors on the deterministic runtime;
//! 2-5 client processes are futures polled by the tape-driven scheduler (never spawned), so mailbox
//! arrival orders and reply observation instants are decided by the tape. Every operation is
//! stamped with the global event sequence at invocation and return; per key the history is checked
//! against a sequential string-register model (Wing–Gong/Lowe search). A cancelled client leaves
//! its operation pending forever.

use crate::model::linz::{apply, linearizable_within, HOp, KOp, KState};
use crate::model::wire::{parse_cmd, R};
use crate::simkit::clock::SimClock;
use crate::simkit::rt::{self, Sched};
use crate::simkit::runner::{Property, RunCtx, RunReport, Tier};
use crate::simkit::tape::{fnv, Src};
use bytes::Bytes;
use crate::model::wire::{decode_all, encode_cmd};
use crate::simkit::stream::StreamHandle;
use redis_sim::production::{verif_hooks, ConnectionConfig, PerformanceConfig, ShardConfig, ShardedActorState};
use serde_json::json;
use std::cell::{Cell, RefCell};
use std::collections::BTreeMap;
use std::rc::Rc;

pub struct C02;

#[derive(Debug, Clone)]
enum Op {
    Get(usize, u8), Set(usize, Vec<u8>, u8),
    SetNx(usize, Vec<u8>), SetXx(usize, Vec<u8>), SetGet(usize, Vec<u8>), GetSet(usize, Vec<u8>), SetNxCmd(usize, Vec<u8>),
    IncrBy(usize, i64), Append(usize, Vec<u8>), Del(usize), Strlen(usize), Exists(usize),
    MGet(Vec<usize>), MSet(Vec<(usize, Vec<u8>)>), BatchGet(Vec<usize>), BatchSet(Vec<(usize, Vec<u8>)>),
    Script(usize, Vec<u8>),
    /// a read through a carelessly written script: its result variable is a global that is only assigned when the key
    /// exists (every script run starts from a clean interpreter state, so this is a GET)
    ScriptRead(usize),
}
const KEYS: [&str; 3] = ["hot:a", "{hot}:b", "ctr"]; // one name with a Redis-Cluster style hash tag
const SCRIPT_READ: &str = "if redis.call('EXISTS', KEYS[1]) == 1 then v = redis.call('GET', KEYS[1]) end return v";
const SCRIPT: &str = "local v = redis.call('GET', KEYS[1]); redis.call('SET', KEYS[1], (v or '') .. ARGV[1]); return v";

fn label(op: &Op) -> String {
    let k = |i: &usize| KEYS[*i];
    let s = |v: &Vec<u8>| String::from_utf8_lossy(v).into_owned();
    let p = |x: &u8| ["execute", "fast", "pooled", "batch"][*x as usize];
    match op {
        Op::Get(i, x) => format!("GET {} [{}]", k(i), p(x)), Op::Set(i, v, x) => format!("SET {} {} [{}]", k(i), s(v), p(x)),
        Op::SetNx(i, v) => format!("SET {} {} NX", k(i), s(v)), Op::SetXx(i, v) => format!("SET {} {} XX", k(i), s(v)), Op::SetGet(i, v) => format!("SET {} {} GET", k(i), s(v)),
        Op::GetSet(i, v) => format!("GETSET {} {}", k(i), s(v)), Op::SetNxCmd(i, v) => format!("SETNX {} {}", k(i), s(v)),
        Op::IncrBy(i, d) => format!("INCRBY {} {}", k(i), d), Op::Append(i, v) => format!("APPEND {} {}", k(i), s(v)), Op::Del(i) => format!("DEL {}", k(i)), Op::Strlen(i) => format!("STRLEN {}", k(i)), Op::Exists(i) => format!("EXISTS {}", k(i)),
        Op::MGet(ks) => format!("MGET {}", ks.iter().map(|i| k(i)).collect::<Vec<_>>().join(" ")), Op::MSet(ps) => format!("MSET {}", ps.iter().map(|(i, v)| format!("{} {}", k(i), s(v))).collect::<Vec<_>>().join(" ")),
        Op::BatchGet(ks) => format!("batch-GET {}", ks.iter().map(|i| k(i)).collect::<Vec<_>>().join(" ")), Op::BatchSet(ps) => format!("batch-SET {}", ps.iter().map(|(i, v)| format!("{} {}", k(i), s(v))).collect::<Vec<_>>().join(" ")),
        Op::Script(i, v) => format!("EVAL append-script {} {}", k(i), s(v)),
        Op::ScriptRead(i) => format!("EVAL read-into-a-global-script {}", k(i)),
    }
}

/// (key index, per-key op) pairs an operation contributes.
fn sub_ops(op: &Op) -> Vec<(usize, KOp)> {
    match op {
        Op::Get(i, _) => vec![(*i, KOp::Get)], Op::Set(i, v, _) => vec![(*i, KOp::Set(v.clone()))],
        Op::SetNx(i, v) => vec![(*i, KOp::SetNx(v.clone()))], Op::SetXx(i, v) => vec![(*i, KOp::SetXx(v.clone()))], Op::SetGet(i, v) | Op::GetSet(i, v) => vec![(*i, KOp::Swap(v.clone()))],
        Op::SetNxCmd(i, v) => vec![(*i, KOp::SetNx(v.clone()))],
        Op::IncrBy(i, d) => vec![(*i, KOp::Incr(*d))], Op::Append(i, v) => vec![(*i, KOp::Append(v.clone()))], Op::Del(i) => vec![(*i, KOp::Del)], Op::Strlen(i) => vec![(*i, KOp::Strlen)], Op::Exists(i) => vec![(*i, KOp::Exists)],
        Op::MGet(ks) | Op::BatchGet(ks) => ks.iter().map(|i| (*i, KOp::Get)).collect(),
        Op::MSet(ps) | Op::BatchSet(ps) => ps.iter().map(|(i, v)| (*i, KOp::Set(v.clone()))).collect(),
        Op::Script(i, v) => vec![(*i, KOp::ScriptAppend(v.clone()))],
        Op::ScriptRead(i) => vec![(*i, KOp::Get)],
    }
}

async fn exec_op(st: &ShardedActorState<SimClock>, op: &Op) -> Vec<R> {
    let kb = |i: &usize| Bytes::from_static(KEYS[*i].as_bytes());
    let gen = |parts: Vec<Vec<u8>>| async move { match parse_cmd(&parts) { Ok(c) => R::from_resp(&st.execute(&c).await), Err(e) => R::Err(e) } };
    let b = |s: &str| s.as_bytes().to_vec();
    match op {
        Op::Get(i, 0) => vec![gen(vec![b("GET"), b(KEYS[*i])]).await],
        Op::Get(i, 1) => vec![R::from_resp(&st.fast_get(kb(i)).await)],
        Op::Get(i, 2) => vec![R::from_resp(&st.pooled_fast_get(kb(i)).await)],
        Op::Get(i, _) => st.fast_batch_get_pipeline(vec![kb(i)]).await.iter().map(R::from_resp).collect(),
        Op::Set(i, v, 0) => vec![gen(vec![b("SET"), b(KEYS[*i]), v.clone()]).await],
        Op::Set(i, v, 1) => vec![R::from_resp(&st.fast_set(kb(i), Bytes::from(v.clone())).await)],
        Op::Set(i, v, 2) => vec![R::from_resp(&st.pooled_fast_set(kb(i), Bytes::from(v.clone())).await)],
        Op::Set(i, v, _) => st.fast_batch_set_pipeline(vec![(kb(i), Bytes::from(v.clone()))]).await.iter().map(R::from_resp).collect(),
        Op::SetNx(i, v) => vec![gen(vec![b("SET"), b(KEYS[*i]), v.clone(), b("NX")]).await],
        Op::SetXx(i, v) => vec![gen(vec![b("SET"), b(KEYS[*i]), v.clone(), b("XX")]).await],
        Op::SetGet(i, v) => vec![gen(vec![b("SET"), b(KEYS[*i]), v.clone(), b("GET")]).await],
        Op::GetSet(i, v) => vec![gen(vec![b("GETSET"), b(KEYS[*i]), v.clone()]).await],
        Op::SetNxCmd(i, v) => { let r = gen(vec![b("SETNX"), b(KEYS[*i]), v.clone()]).await; vec![match r { R::Int(1) => R::ok(), R::Int(0) => R::nil(), o => o }] }
        Op::IncrBy(i, d) => vec![gen(vec![b("INCRBY"), b(KEYS[*i]), b(&d.to_string())]).await],
        Op::Append(i, v) => vec![gen(vec![b("APPEND"), b(KEYS[*i]), v.clone()]).await],
        Op::Del(i) => vec![gen(vec![b("DEL"), b(KEYS[*i])]).await],
        Op::Strlen(i) => vec![gen(vec![b("STRLEN"), b(KEYS[*i])]).await],
        Op::Exists(i) => vec![gen(vec![b("EXISTS"), b(KEYS[*i])]).await],
        Op::MGet(ks) => { let mut p = vec![b("MGET")]; for i in ks { p.push(b(KEYS[*i])); } match gen(p).await { R::Arr(Some(xs)) if xs.len() == ks.len() => xs, o => vec![o; ks.len()] } }
        Op::MSet(ps) => { let mut p = vec![b("MSET")]; for (i, v) in ps { p.push(b(KEYS[*i])); p.push(v.clone()); } let r = gen(p).await; vec![r; ps.len()] }
        Op::BatchGet(ks) => st.fast_batch_get_pipeline(ks.iter().map(kb).collect()).await.iter().map(R::from_resp).collect(),
        Op::BatchSet(ps) => st.fast_batch_set_pipeline(ps.iter().map(|(i, v)| (kb(i), Bytes::from(v.clone()))).collect()).await.iter().map(R::from_resp).collect(),
        Op::Script(i, v) => vec![gen(vec![b("EVAL"), b(SCRIPT), b("1"), b(KEYS[*i]), v.clone()]).await],
        Op::ScriptRead(i) => vec![gen(vec![b("EVAL"), b(SCRIPT_READ), b("1"), b(KEYS[*i])]).await],
    }
}

/// The command a connection-level client sends for `op`, and how its reply maps to per-key replies.
fn wire_op(op: &Op) -> Vec<Vec<u8>> {
    let b = |s: &str| s.as_bytes().to_vec();
    match op {
        Op::Get(i, _) => vec![b("GET"), b(KEYS[*i])],
        Op::Set(i, v, _) => vec![b("SET"), b(KEYS[*i]), v.clone()],
        Op::SetNx(i, v) => vec![b("SET"), b(KEYS[*i]), v.clone(), b("NX")],
        Op::SetXx(i, v) => vec![b("SET"), b(KEYS[*i]), v.clone(), b("XX")],
        Op::SetGet(i, v) => vec![b("SET"), b(KEYS[*i]), v.clone(), b("GET")],
        Op::GetSet(i, v) => vec![b("GETSET"), b(KEYS[*i]), v.clone()],
        Op::SetNxCmd(i, v) => vec![b("SETNX"), b(KEYS[*i]), v.clone()],
        Op::IncrBy(i, d) => vec![b("INCRBY"), b(KEYS[*i]), b(&d.to_string())],
        Op::Append(i, v) => vec![b("APPEND"), b(KEYS[*i]), v.clone()],
        Op::Del(i) => vec![b("DEL"), b(KEYS[*i])],
        Op::Strlen(i) => vec![b("STRLEN"), b(KEYS[*i])],
        Op::Exists(i) => vec![b("EXISTS"), b(KEYS[*i])],
        Op::MGet(ks) | Op::BatchGet(ks) => { let mut p = vec![b("MGET")]; for i in ks { p.push(b(KEYS[*i])); } p }
        Op::MSet(ps) | Op::BatchSet(ps) => { let mut p = vec![b("MSET")]; for (i, v) in ps { p.push(b(KEYS[*i])); p.push(v.clone()); } p }
        Op::Script(i, v) => vec![b("EVAL"), b(SCRIPT), b("1"), b(KEYS[*i]), v.clone()],
        Op::ScriptRead(i) => vec![b("EVAL"), b(SCRIPT_READ), b("1"), b(KEYS[*i])],
    }
}
fn wire_replies(op: &Op, r: R) -> Vec<R> {
    match op {
        Op::SetNxCmd(..) => vec![match r { R::Int(1) => R::ok(), R::Int(0) => R::nil(), o => o }],
        Op::MGet(ks) | Op::BatchGet(ks) => match r { R::Arr(Some(xs)) if xs.len() == ks.len() => xs, o => vec![o; ks.len()] },
        Op::MSet(ps) | Op::BatchSet(ps) => vec![r; ps.len()],
        _ => vec![r],
    }
}

#[derive(Debug, Clone)]
struct Rec { client: usize, op: Op, inv: u64, ret: Option<u64>, replies: Option<Vec<R>> }

impl Property for C02 {
    fn id(&self) -> &'static str { "C02" }
    fn level(&self) -> &'static str { "exploration" }
    fn rule(&self) -> &'static str {
        "2-5 clients x 1-7 operations on 3 hot keys (GET/SET through execute, fast_*, pooled_fast_*, fast_batch_*_pipeline; SET NX/XX/GET, GETSET, SETNX, INCRBY, APPEND, DEL, STRLEN, EXISTS, MGET, MSET, multi-key batch pipelines, a read-modify-write Lua script), every written value unique; 1-8 shards; response pool capacity/prewarm drawn down to 1/0; the tape decides which client is polled, when shard actors run, and which client is cancelled mid-operation. Per key a WGL search against a sequential string-register model. Non-trivial = >= 2 operations on one key with overlapping invoke/return intervals, at least one a write; distinct = (operations, realised poll order)"
    }
    fn components_real(&self) -> Vec<&'static str> { vec!["production::ShardedActorState<T> all GET/SET entry paths and execute()", "ShardActor tasks (tokio::spawn) with their CommandExecutors, unbounded mailboxes", "ResponsePool/ResponseSlot (pooled paths)", "Lua scripting through EVAL", "production parser Command::from_resp_zero_copy"] }
    fn components_stubbed(&self) -> Vec<&'static str> { vec!["clients are harness futures calling the ShardedActorState API (connection-level concurrency is exercised in C04/C05)", "single OS thread: interleavings are at the granularity of process polls x mailbox arrivals, not of machine instructions"] }
    fn assumptions(&self) -> Vec<&'static str> { vec!["a multi-key command is required to be atomic per key only (it contributes one sub-operation per key sharing its interval)", "error replies are compared as 'an error', not by text"] }
    fn required_probes(&self) -> Vec<&'static str> { vec!["overlapping_ops_same_key", "cancel_mid_flight", "pooled_path_used", "script_overlapped_write", "connection_level_run", "replicated_node_run"] }
    fn runs(&self, tier: Tier) -> u64 { match tier { Tier::Quick => 300000, Tier::Thorough => 6000000 } }

    fn run(&self, src: &mut Src, ctx: &RunCtx) -> RunReport {
        let mut rep = RunReport::default();
        let nshards = *src.pick(&[1usize, 2, 3, 8]);
        let cap = *src.pick(&[256usize, 1, 2, 4]);
        let prewarm = src.idx(cap.min(64) + 1).min(cap);
        let nclients = 2 + src.below(4) as usize;
        let yield_bias = src.below(8);
        let cancel_rate = *src.pick(&[0u64, 0, 1, 3]);
        // a slow node: now and then a shard is held up for 0.1-10 s of tokio time before it handles its next message
        let stall_rate = *src.pick(&[0u64, 0, 0, 1]);
        // every third run the clients are connections: the production handler on a SimStream each
        let conn = src.below(3) == 0;
        let depth = if conn { 1 + src.below(3) as usize } else { 1 };
        // a fifth of the other runs take the node the persistent server runs (ReplicatedShardedState, 16 replicated shard
        // actors) as the system under test, half of them with an always-fsync WAL on a simulated disk, which puts a group
        // commit between a command's execution on its shard and its reply
        let repl = !conn && src.below(5) == 0;
        let repl_wal = repl && src.chance(1, 2);
        let ccfg = ConnectionConfig { max_buffer_size: 1 << 20, read_buffer_size: *src.pick(&[8192usize, 16, 64]), min_pipeline_buffer: *src.pick(&[60usize, 0, 15]), batch_threshold: *src.pick(&[2usize, 1, 3]) };
        let mut uniq = 0u64;
        let mut plans: Vec<Vec<Op>> = Vec::new();
        for c in 0..nclients {
            let ops = src.list(7, 5, 6, |s| {
                uniq += 1;
                let v = format!("c{}-{}", c, uniq).into_bytes();
                let iv = (1000 * (c as u64 + 1) + uniq).to_string().into_bytes();
                let k = s.idx(2);
                match s.below(23) {
                    22 => Op::ScriptRead(if s.chance(1, 3) { 2 } else { k }),
                    0 | 1 | 2 => Op::Get(k, s.below(4) as u8),
                    3 | 4 | 5 => Op::Set(k, v, s.below(4) as u8),
                    6 => Op::SetNx(k, v), 7 => Op::SetXx(k, v), 8 => Op::SetGet(k, v), 9 => Op::GetSet(k, v), 10 => Op::SetNxCmd(k, v),
                    11 => Op::IncrBy(2, s.irange(-3, 9)), 12 => Op::Set(2, iv, s.below(4) as u8), 13 => Op::Get(2, s.below(4) as u8),
                    14 => Op::Append(k, v), 15 => Op::Del(if s.chance(1, 3) { 2 } else { k }), 16 => Op::Strlen(k), 17 => Op::Exists(k),
                    18 => Op::MGet(vec![0, 1, 2][..(2 + s.idx(2))].to_vec()),
                    19 => Op::MSet(vec![(0, v.clone()), (1, { let mut w = v.clone(); w.push(b'b'); w })]),
                    20 => if s.chance(1, 2) { Op::BatchGet(vec![0, 1, 2]) } else { Op::BatchSet(vec![(0, v.clone()), (1, { let mut w = v.clone(); w.push(b'b'); w })]) },
                    _ => Op::Script(k, v),
                }
            });
            plans.push(ops);
        }
        let seed = src.u64_any();
        let recs: Rc<RefCell<Vec<Rec>>> = Rc::new(RefCell::new(Vec::new()));
        let seq = Rc::new(Cell::new(0u64));
        let stalls = Rc::new(Cell::new(0u64));
        let (steps, order_fp, cancelled) = rt::block_on(seed, async {
            let clock = SimClock::new(1_700_000_000_000);
            if conn {
                clock.publish();
                let mut scfg = ShardConfig::with_shards(nshards);
                scfg.min_shards = nshards; scfg.max_shards = nshards; scfg.initial_shards = nshards;
                let state: ShardedActorState = ShardedActorState::with_config(scfg);
                let mut sched = Sched::new();
                let streams: Vec<StreamHandle> = (0..nclients).map(|_| StreamHandle::new()).collect();
                for (c, s) in streams.iter().enumerate() { sched.add(format!("handler{}", c), verif_hooks::connection(s.server_end(), state.clone(), ccfg.clone())); }
                let inflight: Vec<Rc<Cell<bool>>> = (0..nclients).map(|_| Rc::new(Cell::new(false))).collect();
                for (c, plan) in plans.iter().enumerate() {
                    let recs = recs.clone(); let seq = seq.clone(); let fl = inflight[c].clone(); let plan = plan.clone(); let st = streams[c].clone();
                    sched.add(format!("client{}", c), async move {
                        let mut answered = 0usize;
                        for group in plan.chunks(depth) {
                            let mut idxs = Vec::new();
                            let mut bytes = Vec::new();
                            for op in group {
                                let inv = { seq.set(seq.get() + 1); seq.get() };
                                let mut r = recs.borrow_mut(); r.push(Rec { client: c, op: op.clone(), inv, ret: None, replies: None }); idxs.push(r.len() - 1);
                                bytes.extend_from_slice(&encode_cmd(&wire_op(op)));
                            }
                            fl.set(true);
                            st.deliver(&bytes);
                            let mut got = 0usize;
                            while got < group.len() {
                                let o = st.out();
                                let (reps, _, _) = decode_all(&o);
                                while got < group.len() && reps.len() > answered + got {
                                    let ret = { seq.set(seq.get() + 1); seq.get() };
                                    let mut r = recs.borrow_mut();
                                    r[idxs[got]].ret = Some(ret);
                                    r[idxs[got]].replies = Some(wire_replies(&group[got], reps[answered + got].clone()));
                                    got += 1;
                                }
                                if got >= group.len() { break; }
                                if st.0.borrow().closed_by_server { return; }
                                st.wait_out(o.len()).await;
                            }
                            answered += group.len();
                            fl.set(false);
                        }
                    });
                }
                let mut cancelled = 0u64;
                let mut guard = 0;
                let clients_done = |s: &Sched| (0..nclients).all(|c| s.is_done(nclients + c));
                while !clients_done(&sched) && guard < 20000 {
                    guard += 1;
                    if cancel_rate > 0 && src.chance(cancel_rate, 60) {
                        let victims: Vec<usize> = (0..nclients).filter(|c| !sched.is_done(nclients + *c) && inflight[*c].get()).collect();
                        if !victims.is_empty() { let v = victims[src.idx(victims.len())]; streams[v].close(); sched.cancel(nclients + v); cancelled += 1; continue; }
                    }
                    if stall_rate > 0 && src.chance(1, 30) { verif_hooks::stall::set_ms(*src.pick(&[3000u64, 100, 10_000])); stalls.set(stalls.get() + 1); }
                    if let rt::Step::Idle = sched.step(src, yield_bias).await { break; }
                }
                let _ = verif_hooks::stall::take_ms();
                for s in &streams { s.close(); }
                for _ in 0..(4 * nclients + 8) { if (0..nclients).all(|c| sched.is_done(c)) { break; } let _ = sched.step(src, 0).await; }
                verif_hooks::clock::clear();
                return (sched.steps, sched.order_fp, cancelled);
            }
            let node: Option<Rc<redis_sim::production::ReplicatedShardedState<SimClock>>> = if repl {
                let mut n = redis_sim::production::ReplicatedShardedState::with_time_source(crate::model::cluster::repl_config(1, redis_sim::replication::ConsistencyLevel::Eventual), clock.clone());
                if repl_wal {
                    use redis_sim::streaming::{spawn_wal_actor, FsyncPolicy, WalConfig};
                    let cfg = WalConfig { enabled: true, wal_dir: "/nonexistent".into(), fsync_policy: FsyncPolicy::Always, max_file_size: 4096, group_commit_max_entries: 4, group_commit_max_wait: std::time::Duration::from_micros(200), truncation_check_interval: std::time::Duration::from_secs(30) };
                    if let Ok((h, _)) = spawn_wal_actor(crate::simkit::disk::SimWalStore::new(crate::simkit::disk::Seq::default()), cfg) { n.set_wal_handle(h); }
                }
                Some(Rc::new(n))
            } else { None };
            let mut perf = PerformanceConfig::default();
            perf.num_shards = nshards; perf.response_pool.capacity = cap; perf.response_pool.prewarm = prewarm;
            let mut scfg = ShardConfig::with_shards(nshards);
            scfg.min_shards = nshards; scfg.max_shards = nshards; scfg.initial_shards = nshards;
            let state = ShardedActorState::with_perf_config_and_time_source(&perf, scfg, clock.clone());
            let mut sched = Sched::new();
            let inflight: Vec<Rc<Cell<bool>>> = (0..nclients).map(|_| Rc::new(Cell::new(false))).collect();
            for (c, plan) in plans.iter().enumerate() {
                let st = state.clone(); let recs = recs.clone(); let seq = seq.clone(); let fl = inflight[c].clone(); let plan = plan.clone();
                let node = node.clone();
                sched.add(format!("client{}", c), async move {
                    for op in plan {
                        let inv = { seq.set(seq.get() + 1); seq.get() };
                        let idx = { let mut r = recs.borrow_mut(); r.push(Rec { client: c, op: op.clone(), inv, ret: None, replies: None }); r.len() - 1 };
                        fl.set(true);
                        let replies = match &node {
                            Some(n) => { let r = match parse_cmd(&wire_op(&op)) { Ok(cmd) => R::from_resp(&n.execute(cmd).await), Err(e) => R::Err(e) }; wire_replies(&op, r) }
                            None => exec_op(&st, &op).await,
                        };
                        fl.set(false);
                        let ret = { seq.set(seq.get() + 1); seq.get() };
                        let mut r = recs.borrow_mut(); r[idx].ret = Some(ret); r[idx].replies = Some(replies);
                    }
                });
            }
            let mut cancelled = 0u64;
            let mut guard = 0;
            while !sched.all_done() && guard < 5000 {
                guard += 1;
                if cancel_rate > 0 && src.chance(cancel_rate, 40) {
                    let victims: Vec<usize> = (0..nclients).filter(|c| !sched.is_done(*c) && inflight[*c].get()).collect();
                    if !victims.is_empty() { let v = victims[src.idx(victims.len())]; sched.cancel(v); cancelled += 1; continue; }
                }
                if stall_rate > 0 && src.chance(1, 30) { verif_hooks::stall::set_ms(*src.pick(&[3000u64, 100, 10_000])); stalls.set(stalls.get() + 1); }
                if let rt::Step::Idle = sched.step(src, yield_bias).await { break; }
            }
            let _ = verif_hooks::stall::take_ms();
            (sched.steps, sched.order_fp, cancelled)
        });
        rep.steps = steps;
        if cancelled > 0 { rep.probe_n("cancel_mid_flight", cancelled); rep.fault(if conn { "connection_dropped_mid_operation" } else { "client_cancelled_mid_operation" }); }
        if conn { rep.probe("connection_level_run"); }
        if repl { rep.probe("replicated_node_run"); if repl_wal { rep.probe("replicated_node_with_wal_group_commit"); } }
        for _ in 0..stalls.get() { rep.fault("shard_stalled"); }
        let recs = recs.borrow().clone();
        if ctx.trace {
            rep.trace.push(format!("shards={} response_pool(capacity={}, prewarm={}) clients={} connection_level={} pipeline_depth={} conn_cfg=(read_buffer_size={}, min_pipeline_buffer={}, batch_threshold={})", nshards, cap, prewarm, nclients, conn, depth, ccfg.read_buffer_size, ccfg.min_pipeline_buffer, ccfg.batch_threshold));
            let mut ev: Vec<(u64, String)> = Vec::new();
            for r in &recs { ev.push((r.inv, format!("seq {} client{} invokes {}", r.inv, r.client, label(&r.op)))); if let (Some(t), Some(rp)) = (r.ret, &r.replies) { ev.push((t, format!("seq {} client{} gets {} for {}", t, r.client, rp.iter().map(|x| x.show()).collect::<Vec<_>>().join(" "), label(&r.op)))); } }
            ev.sort();
            for (_, l) in ev { rep.trace.push(l); }
        }
        // ---- per-key histories
        let mut per_key: BTreeMap<usize, Vec<HOp>> = BTreeMap::new();
        for r in &recs {
            if matches!(r.op, Op::Get(_, 2) | Op::Set(_, _, 2)) { rep.probe("pooled_path_used"); }
            for (j, (k, kop)) in sub_ops(&r.op).into_iter().enumerate() {
                let reply = r.replies.as_ref().and_then(|v| v.get(j).cloned());
                per_key.entry(k).or_default().push(HOp { inv: r.inv, ret: r.ret, op: kop, reply, who: r.client, label: label(&r.op) });
            }
        }
        let mut evals = 0;
        for (k, ops) in &per_key {
            let ops = ops.clone();
            // a history is never cut short (a kept read may have observed a dropped write): one that is
            // too long for the checker, or exhausts its budget, gets no verdict
            if ops.len() > 60 { rep.probe("history_too_long_no_verdict"); continue; }
            // non-triviality: overlapping interval pair with a write
            let is_write = |o: &KOp| !matches!(o, KOp::Get | KOp::Strlen | KOp::Exists);
            for a in 0..ops.len() { for b in (a + 1)..ops.len() {
                let (x, y) = (&ops[a], &ops[b]);
                let overlap = x.inv < y.ret.unwrap_or(u64::MAX) && y.inv < x.ret.unwrap_or(u64::MAX);
                if overlap && x.who != y.who && (is_write(&x.op) || is_write(&y.op)) {
                    rep.probe("overlapping_ops_same_key"); rep.nontrivial = true;
                    if matches!(x.op, KOp::ScriptAppend(_)) || matches!(y.op, KOp::ScriptAppend(_)) { rep.probe("script_overlapped_write"); }
                }
            } }
            evals += 1;
            // attribution: a GET-like reply must be a value some operation could have produced
            let verdict = linearizable_within(&KState::None, &ops, 300_000);
            if verdict.is_none() { rep.probe("checker_budget_exhausted_no_verdict"); }
            if verdict == Some(false) {
                let mut hist: Vec<String> = ops.iter().map(|o| format!("[{}..{}] client{} {} -> {}", o.inv, o.ret.map(|r| r.to_string()).unwrap_or_else(|| "pending".into()), o.who, o.label, o.reply.as_ref().map(|r| r.show()).unwrap_or_else(|| "?".into()))).collect();
                hist.sort();
                let uses_pool = recs.iter().any(|r| matches!(r.op, Op::Get(_, 2) | Op::Set(_, _, 2)));
                let key = if conn { "C02/not-linearizable/connection-level" } else if cancelled > 0 && uses_pool { "C02/not-linearizable/after-cancel-with-pooled-path" } else if ops.iter().any(|o| matches!(o.op, KOp::ScriptAppend(_))) { "C02/not-linearizable/with-script" } else { "C02/not-linearizable" };
                rep.violate(key, format!("key {}: no linearization of {} operations ({} shards): {}", KEYS[*k], ops.len(), nshards, hist.join("; ")));
                break;
            }
        }
        let _ = apply;
        rep.evals = evals.max(1);
        let mut fp = fnv(0, &[nshards as u8, cap as u8, prewarm as u8, conn as u8, depth as u8]);
        for p in &plans { for o in p { fp = fnv(fp, label(o).as_bytes()); } fp = fnv(fp, &[0xff]); }
        rep.fingerprint = fnv(fp, &order_fp.to_le_bytes());
        rep.sample = Some(json!({"connection_level": conn, "pipeline_depth": depth, "shards": nshards, "response_pool": {"capacity": cap, "prewarm": prewarm}, "clients": plans.iter().map(|p| p.iter().map(label).collect::<Vec<_>>()).collect::<Vec<_>>(), "cancelled_clients": cancelled, "scheduler_steps": steps }));
        rep
    }
}
