//! C10 — WAL recovery yields only intact appended entries; truncation keeps newer ones.
//!
//! Real code: WalRotator/WalWriter/WalReader/WalEntry on SimWalStore. One run builds a multi-file
//! WAL with the real writer, then damages the at-rest image (truncation at every length, every
//! single-bit flip, bursts <= 32 bits, file removal) and recovers; then exercises truncate_before.

use crate::simkit::disk::{Image, Seq, SimWalStore};
use crate::simkit::runner::{Property, RunCtx, RunReport, Tier};
use crate::simkit::tape::{fnv, mix, Src};
use redis_sim::redis::SDS;
use redis_sim::replication::lattice::{LamportClock, ReplicaId};
use redis_sim::replication::state::{ReplicatedValue, ReplicationDelta};
use redis_sim::streaming::{WalEntry, WalRotator, WalStore};
use serde_json::json;
use std::collections::BTreeMap;

pub struct C10;

const H_MODE: usize = 0;
const H_KIND: usize = 1;
const H_FILE: usize = 2;
const H_OFF: usize = 3;
const H_ARG: usize = 4;

#[derive(Clone, Debug)]
struct Orig { data: Vec<u8>, ts: u64, crc: u32, start: usize, end: usize }

fn delta(id: u64, ts: u64, payload: &[u8], r: u64) -> ReplicationDelta {
    let rid = ReplicaId::new(r);
    ReplicationDelta::new(format!("k{}", id), ReplicatedValue::with_value(SDS::new(payload.to_vec()), LamportClock { time: ts, replica_id: rid }), rid)
}

#[derive(Clone, Copy, Debug)]
enum Mutation { ZeroTail { file: usize, len: usize, zeros: usize }, Truncate { file: usize, len: usize }, Flip { file: usize, byte: usize, bit: u8 }, Burst { file: usize, byte: usize, pattern: u32 }, Remove { file: usize } }

fn apply(img: &Image, names: &[String], m: Mutation) -> (Image, usize, usize) {
    // returns (mutated image, damaged file index, first damaged byte offset)
    let mut out = img.clone();
    match m {
        Mutation::Truncate { file, len } => { let f = out.get_mut(&names[file]).unwrap(); f.truncate(len); (out, file, len) }
        Mutation::ZeroTail { file, len, zeros } => { let f = out.get_mut(&names[file]).unwrap(); f.truncate(len); f.extend(std::iter::repeat(0u8).take(zeros)); (out, file, len) }
        Mutation::Flip { file, byte, bit } => { let f = out.get_mut(&names[file]).unwrap(); f[byte] ^= 1 << bit; (out, file, byte) }
        Mutation::Burst { file, byte, pattern } => {
            let f = out.get_mut(&names[file]).unwrap();
            let p = pattern | 1; // first bit always flipped
            let mut first = usize::MAX;
            for i in 0..4 { if byte + i < f.len() { let b = ((p >> (8 * i)) & 0xff) as u8; if b != 0 { f[byte + i] ^= b; first = first.min(byte + i); } } }
            (out, file, first.min(byte))
        }
        Mutation::Remove { file } => { out.remove(&names[file]); (out, file, 0) }
    }
}

impl Property for C10 {
    fn id(&self) -> &'static str { "C10" }
    fn level(&self) -> &'static str { "fault_enumeration" }
    fn rule(&self) -> &'static str {
        "per generated multi-file WAL (real writer; entry sizes 1 B-4 KiB, header-looking payloads, non-monotone stamps): at-rest damage = every truncation length, every single-bit flip, sampled bursts <= 32 bits, file removal, zero-filled tails (16-96 zero bytes after every structural cut) (thorough: exhaustive per image; quick: all header/entry-header bits + sampled payload bits and lengths), each followed by recover_all_entries; then truncate_before(T) for every T in stamps±1 with and without an active writer. Non-trivial = mutation lands inside an entry or header of a file that holds >= 1 entry; distinct = (image fingerprint, mutation)"
    }
    fn components_real(&self) -> Vec<&'static str> { vec!["streaming::wal::{WalRotator,WalWriter,WalReader,WalEntry::decode}", "WalRotator::{recover_all_entries,recover_entries_after,truncate_before}"] }
    fn components_stubbed(&self) -> Vec<&'static str> { vec!["WalStore -> SimWalStore (in-memory image, mutated at rest)"] }
    fn assumptions(&self) -> Vec<&'static str> { vec!["an entry counts as intact only if data, timestamp and checksum are bit-identical to what was appended"] }
    fn required_probes(&self) -> Vec<&'static str> { vec!["damage_inside_entry", "truncate_kept_newer", "multi_file_image"] }
    fn runs(&self, tier: Tier) -> u64 { match tier { Tier::Quick => 8000, Tier::Thorough => 60000 } }

    fn run(&self, src: &mut Src, ctx: &RunCtx) -> RunReport {
        let mut rep = RunReport::default();
        let mode = src.below(8); // 1 => single mutation from the header cells (used by retargeted tapes); else enumerate
        let h_kind = src.below(5);
        let h_file = src.below(8);
        let h_off = src.below(1 << 20);
        let h_arg = src.u64_any();
        // ---- build the WAL with the real writer
        let n_entries = 1 + src.below(10) as usize;
        let max_file_size = *src.pick(&[17usize, 120, 300, 1000, 1 << 20]);
        let mut specs = Vec::new();
        for i in 0..n_entries {
            src.begin();
            let ts = match src.below(4) { 0 => 1 + src.below(8), 1 => 1000 + src.below(1000), 2 => u64::MAX - src.below(3), _ => 50 + i as u64 };
            let kind = src.below(6);
            let payload: Vec<u8> = match kind {
                0 => vec![b'a'; 1 + src.below(3) as usize],
                1 => b"RWAL\x01\x00\x00\x00".to_vec(),
                2 => { let mut v = 5u32.to_le_bytes().to_vec(); v.extend_from_slice(&7u64.to_le_bytes()); v.extend_from_slice(&crc32fast::hash(b"hello").to_le_bytes()); v.extend_from_slice(b"hello"); v }
                3 => vec![0u8; src.below(40) as usize],
                4 => (0..(200 + src.below(4000))).map(|j| (j * 31 + i as u64) as u8).collect(),
                _ => (0..src.below(24)).map(|j| (j as u8).wrapping_mul(37)).collect(),
            };
            let r = 1 + src.below(3);
            src.end();
            specs.push((i as u64, ts, payload, r));
        }
        let store = SimWalStore::new(Seq::default());
        let mut rot = match WalRotator::new(store.clone(), max_file_size) { Ok(r) => r, Err(e) => { rep.violate("C10/setup", e.to_string()); return rep; } };
        let mut per_file: BTreeMap<String, Vec<Orig>> = BTreeMap::new();
        // one image in four is written on a disk that now and then rejects an append outright (I/O error or disk full, not a byte
        // written): the rotator carries on with the next entry, and an entry whose append was refused was never appended - no
        // recovery may return it
        let reject_mode = specs.len() >= 2 && fnv(0x10, &[specs.len() as u8, (specs[0].1 & 0xff) as u8, (max_file_size & 0xff) as u8]) % 4 == 0;
        for (ix, (id, ts, payload, r)) in specs.iter().enumerate() {
            if reject_mode && ix + 1 < specs.len() && (ix as u64 + *ts) % 2 == 0 {
                let e = WalEntry::from_delta(&delta(1000 + *id, ts.wrapping_add(500_000), b"never-appended", *r), ts.wrapping_add(500_000)).unwrap();
                let c0 = store.inner.lock().unwrap().calls;
                let f = if ix % 2 == 0 { crate::simkit::disk::WalFault::AppendError } else { crate::simkit::disk::WalFault::DiskFull };
                store.set_plan((c0..c0 + 4).map(|c| (c, f)).collect());
                let res = rot.append(&e);
                store.set_plan(BTreeMap::new());
                match res {
                    Err(_) => { rep.fault(f.name()); rep.probe("append_rejected_while_image_was_written"); }
                    Ok(seqno) => {
                        let name = format!("wal-{:08x}.wal", seqno);
                        let end = store.full_image()[&name].len();
                        per_file.entry(name).or_default().push(Orig { data: e.data.clone(), ts: e.timestamp, crc: e.checksum, start: end - e.disk_size(), end });
                    }
                }
            }
            let e = WalEntry::from_delta(&delta(*id, *ts, payload, *r), *ts).unwrap();
            let seqno = match rot.append(&e) { Ok(s) => s, Err(er) => { rep.violate("C10/setup-append", er.to_string()); return rep; } };
            let name = format!("wal-{:08x}.wal", seqno);
            let full = store.full_image();
            let end = full[&name].len();
            per_file.entry(name).or_default().push(Orig { data: e.data.clone(), ts: e.timestamp, crc: e.checksum, start: end - e.disk_size(), end });
        }
        let _ = rot.sync();
        let img = store.full_image();
        let names: Vec<String> = img.keys().cloned().collect();
        if names.len() >= 2 { rep.probe("multi_file_image"); }
        let mut img_fp = fnv(0, &[names.len() as u8]);
        for (n, b) in &img { img_fp = fnv(img_fp, n.as_bytes()); img_fp = fnv(img_fp, b); }
        rep.log(ctx.trace, || format!("image: {} files {:?}, max_file_size={}", names.len(), img.iter().map(|(n, b)| format!("{}:{}B:{}entries", n, b.len(), per_file.get(n).map(|v| v.len()).unwrap_or(0))).collect::<Vec<_>>(), max_file_size));

        // ---- mutation list
        let mut muts: Vec<Mutation> = Vec::new();
        if mode == 1 {
            let file = (h_file as usize) % names.len();
            let flen = img[&names[file]].len();
            let m = match h_kind {
                1 | 2 if flen == 0 => Mutation::Remove { file }, // (a rejected header write leaves an empty file)
                0 => Mutation::Truncate { file, len: (h_off as usize) % (flen + 1) },
                1 => Mutation::Flip { file, byte: (h_off as usize) % flen.max(1), bit: (h_arg % 8) as u8 },
                2 => Mutation::Burst { file, byte: (h_off as usize) % flen.max(1), pattern: h_arg as u32 },
                4 => Mutation::ZeroTail { file, len: (h_off as usize) % (flen + 1), zeros: 1 + (h_arg as usize) % 96 },
                _ => Mutation::Remove { file },
            };
            muts.push(m);
        } else {
            let thorough = ctx.tier == Tier::Thorough;
            let mut h = mix(img_fp, h_arg);
            for (file, n) in names.iter().enumerate() {
                let data = &img[n];
                let flen = data.len();
                let small = flen <= 600;
                // structural offsets: file header and every entry header
                let mut hot: Vec<usize> = (0..16.min(flen)).collect();
                for o in per_file.get(n).map(|v| v.as_slice()).unwrap_or(&[]) { for b in o.start..(o.start + 16).min(flen) { hot.push(b); } if o.end > 0 { hot.push(o.end - 1); } if o.start + 16 < flen { hot.push(o.start + 16); } }
                for len in 0..=flen {
                    let is_hot = hot.contains(&len) || hot.contains(&(len.wrapping_sub(1)));
                    if thorough && small || is_hot { muts.push(Mutation::Truncate { file, len }); }
                    else { h = mix(h, len as u64); if h % (if thorough { 4 } else { 24 }) == 0 { muts.push(Mutation::Truncate { file, len }); } }
                }
                for byte in 0..flen {
                    let is_hot = hot.contains(&byte);
                    for bit in 0..8u8 {
                        if (thorough && small) || is_hot { muts.push(Mutation::Flip { file, byte, bit }); }
                        else { h = mix(h, (byte * 8 + bit as usize) as u64); if h % (if thorough { 16 } else { 256 }) == 0 { muts.push(Mutation::Flip { file, byte, bit }); } }
                    }
                }
                let bursts = if thorough { 64 } else { 12 };
                for _ in 0..bursts { if flen == 0 { break; } h = mix(h, 7); let byte = (h % flen as u64) as usize; h = mix(h, 9); muts.push(Mutation::Burst { file, byte, pattern: h as u32 }); }
                muts.push(Mutation::Remove { file });
                // a crash can leave a file extended with zero-filled blocks instead of (or after) the torn tail
                for len in hot.iter().copied().chain([flen]) { if len <= flen && len >= 16 { for zeros in [16usize, 17, 48, 96] { muts.push(Mutation::ZeroTail { file, len, zeros }); } } }
            }
        }

        // ---- apply each mutation, recover, compare
        let mut evals = 0u64;
        for m in &muts {
            let (mimg, dfile, doff) = apply(&img, &names, *m);
            evals += 1;
            rep.fault(match m { Mutation::Truncate { .. } => "wal_file_torn_tail", Mutation::ZeroTail { .. } => "wal_file_zero_filled_tail", Mutation::Flip { .. } => "wal_file_bit_flipped", Mutation::Burst { .. } => "wal_file_burst_up_to_32_bits", Mutation::Remove { .. } => "wal_file_lost" });
            let mstore = SimWalStore::from_image(&mimg);
            let rot2 = match WalRotator::new(mstore.clone(), max_file_size) { Ok(r) => r, Err(e) => { rep.violate("C10/recover-setup-error", e.to_string()); break; } };
            let rec = match rot2.recover_all_entries() { Ok(r) => r, Err(e) => { rep.violate("C10/recover-error", format!("{:?}: {}", m, e)); break; } };
            // the read with a stamp threshold sees the same image the same way: exactly the entries of the full
            // read that carry such a stamp (it must not walk through damage it did not have to decode)
            if !rec.is_empty() || !specs.is_empty() {
                let mut stamps: Vec<u64> = specs.iter().map(|s| s.1).collect(); stamps.sort();
                let thr = stamps.get(stamps.len() / 2).copied().unwrap_or(0);
                let want: Vec<u64> = rec.iter().filter(|e| e.timestamp >= thr).map(|e| e.timestamp).collect();
                if let Ok(ds) = rot2.recover_entries_after(thr) {
                    rep.probe("threshold_read_compared");
                    if ds.len() != want.len() {
                        rep.violate("C10/threshold-read-differs-from-full-read", format!("{:?}: recover_entries_after({}) returned {} updates but recover_all_entries() holds {} entries with such a stamp (of {} recovered)", m, thr, ds.len(), want.len(), rec.len()));
                        break;
                    }
                }
            }
            // expected: files in order; undamaged files complete; damaged file a prefix with >= m entries
            let mut pos = 0usize;
            let mut bad: Option<(String, String)> = None;
            let inside = per_file.get(&names[dfile]).map(|v| v.iter().any(|o| doff >= o.start && doff < o.end)).unwrap_or(false);
            if inside || (doff < 16 && per_file.get(&names[dfile]).map(|v| !v.is_empty()).unwrap_or(false)) { rep.probe("damage_inside_entry"); rep.sub_fps.push(fnv(img_fp, format!("{:?}", m).as_bytes())); }
            'files: for (fi, n) in names.iter().enumerate() {
                let orig = per_file.get(n).cloned().unwrap_or_default();
                if fi != dfile {
                    for o in &orig {
                        match rec.get(pos) {
                            Some(e) if e.data == o.data && e.timestamp == o.ts && e.checksum == o.crc => pos += 1,
                            other => { bad = Some(("C10/intact-file-entry-missing".into(), format!("{:?}: entry of undamaged file {} not recovered in order (got {:?})", m, n, other.map(|e| (e.timestamp, e.data.len()))))); break 'files; }
                        }
                    }
                    continue;
                }
                if let Mutation::Remove { .. } = m { continue; }
                let must = if doff < 16 { 0 } else { orig.iter().filter(|o| o.end <= doff).count() };
                let mut k = 0usize;
                while k < orig.len() {
                    let o = &orig[k];
                    match rec.get(pos) {
                        Some(e) if e.data == o.data && e.timestamp == o.ts && e.checksum == o.crc => { pos += 1; k += 1; }
                        Some(e) if e.data == o.data && e.checksum == o.crc && e.timestamp != o.ts => {
                            // accepted although its stamp was altered
                            let key = "C10/altered-entry/timestamp-not-covered-by-crc";
                            if !ctx.known(key) { bad = Some((key.into(), format!("{:?}: entry {} of {} recovered with timestamp {} instead of {}", m, k, n, e.timestamp, o.ts))); break 'files; }
                            rep.violate(key, format!("{:?}: entry {} of {} recovered with timestamp {} instead of {}", m, k, n, e.timestamp, o.ts));
                            pos += 1; k += 1;
                        }
                        _ => break,
                    }
                }
                if k < must {
                    bad = Some(("C10/intact-prefix-lost".into(), format!("{:?}: file {} damaged at byte {}: {} entries lie wholly before it but only {} recovered", m, n, doff, must, k)));
                    break 'files;
                }
                // anything the reader returned for this file beyond k is not an original entry in order
                // (the next file's entries follow; handled by the next iteration comparing from `pos`)
            }
            if bad.is_none() && pos != rec.len() {
                // leftovers: entries that match nothing expected at their position
                let e = &rec[pos];
                bad = Some(("C10/altered-or-phantom-entry".into(), format!("{:?}: recovery returned an entry (ts {}, {} bytes, crc {:08x}) at position {} that is not the next appended entry", m, e.timestamp, e.data.len(), e.checksum, pos)));
            }
            if let Some((key, msg)) = bad {
                let (kind, file, off, arg) = match *m {
                    Mutation::Truncate { file, len } => (0u64, file, len, 0u64),
                    Mutation::Flip { file, byte, bit } => (1, file, byte, bit as u64),
                    Mutation::Burst { file, byte, pattern } => (2, file, byte, pattern as u64),
                    Mutation::Remove { file } => (3, file, 0, 0),
                    Mutation::ZeroTail { file, len, zeros } => (4, file, len, (zeros as u64).saturating_sub(1)),
                };
                rep.retarget = Some(vec![(H_MODE, 1), (H_KIND, kind), (H_FILE, file as u64), (H_OFF, off as u64), (H_ARG, arg)]);
                rep.log(ctx.trace, || format!("mutation {:?} -> {}", m, msg));
                rep.violate(key, msg);
                break;
            }
        }

        // ---- truncation: never removes the active file nor an entry stamped later than T
        if rep.violations.iter().all(|v| ctx.known(&v.key)) {
            let stamps: Vec<u64> = specs.iter().map(|s| s.1).collect();
            let mut ts_set: Vec<u64> = Vec::new();
            for s in &stamps { ts_set.push(*s); ts_set.push(s.saturating_sub(1)); ts_set.push(s.saturating_add(1)); }
            ts_set.push(0); ts_set.sort(); ts_set.dedup();
            for active in [true, false] {
                for t in &ts_set {
                    evals += 1;
                    // now and then the directory also holds a file that is not a WAL file and sorts after them all
                    let stray = fnv(*t, &[active as u8, 9]) % 4 == 0;
                    let st = if stray { let mut im = img.clone(); im.insert("wal.lock".to_string(), b"pid 4711".to_vec()); rep.probe("stray_file_in_wal_directory"); SimWalStore::from_image(&im) } else { SimWalStore::from_image(&img) };
                    // every third time the rotator that truncates is the long-lived one that wrote the files itself (whatever it
                    // remembers about them from writing comes into play); otherwise a rotator opened on the stored image
                    let same_instance = !stray && fnv(*t, &[active as u8, 5]) % 3 == 0;
                    let (st, mut r) = if same_instance {
                        rep.probe("truncation_by_the_rotator_that_wrote_the_files");
                        let st = SimWalStore::new(Seq::default());
                        let mut r = match WalRotator::new(st.clone(), max_file_size) { Ok(r) => r, Err(_) => continue };
                        for (id, ts, payload, rr) in &specs { let e = WalEntry::from_delta(&delta(*id, *ts, payload, *rr), *ts).unwrap(); let _ = r.append(&e); }
                        let _ = r.sync();
                        (st, r)
                    } else { match WalRotator::new(st.clone(), max_file_size) { Ok(r) => (st, r), Err(_) => continue } };
                    let mut active_name = None;
                    let mut extra: Option<(Vec<u8>, u64)> = None;
                    if active {
                        // one more append so that a writer is open
                        let e = WalEntry::from_delta(&delta(999, 3, b"active", 1), 3).unwrap();
                        if let Ok(sq) = r.append(&e) { active_name = Some(format!("wal-{:08x}.wal", sq)); extra = Some((e.data.clone(), 3)); }
                    }
                    let before = match r.recover_all_entries() { Ok(b) => b, Err(_) => continue };
                    // one transient read error while truncation looks at the files: a file it cannot read must stay
                    let flaky = fnv(*t, &[active as u8, 3]) % 3 == 0;
                    if flaky { st.inner.lock().unwrap().fail_open_read_in = Some(fnv(*t, &[7]) % (img.len() as u64 + 1)); }
                    let tr = r.truncate_before(*t);
                    { let mut d = st.inner.lock().unwrap(); if d.read_errors_fired > 0 { d.read_errors_fired = 0; rep.fault("wal_read_error_during_truncation"); rep.probe("truncation_met_unreadable_file"); } d.fail_open_read_in = None; }
                    if let Err(e) = tr { if !flaky { rep.violate("C10/truncate-error", e.to_string()); break; } }
                    let after = match r.recover_all_entries() { Ok(b) => b, Err(e) => { rep.violate("C10/recover-error-after-truncate", e.to_string()); break; } };
                    if let Some(an) = &active_name {
                        if !st.exists(an).unwrap_or(false) { rep.violate("C10/truncate-removed-active-file", format!("truncate_before({}) deleted the active file {}", t, an)); break; }
                    }
                    let mut lost = None;
                    for e in &before {
                        if e.timestamp > *t && !after.iter().any(|a| a.data == e.data && a.timestamp == e.timestamp) { lost = Some((e.timestamp, e.data.len())); break; }
                    }
                    if let Some((ts, len)) = lost {
                        rep.violate("C10/truncate-removed-newer-entry", format!("truncate_before({}) (active writer: {}) removed an entry stamped {} ({} bytes)", t, active, ts, len));
                        break;
                    }
                    if before.iter().any(|e| e.timestamp > *t) && after.len() < before.len() { rep.probe("truncate_kept_newer"); }
                    let _ = &extra;
                }
            }
        }
        rep.evals = evals.max(1);
        rep.nontrivial = !rep.sub_fps.is_empty();
        rep.fingerprint = img_fp;
        rep.sample = Some(json!({
            "files": img.iter().map(|(n, b)| json!({"name": n, "bytes": b.len(), "entries": per_file.get(n).map(|v| v.iter().map(|o| json!({"ts": o.ts, "len": o.data.len()})).collect::<Vec<_>>()).unwrap_or_default()})).collect::<Vec<_>>(),
            "mutations_tried": muts.len(), "first_mutations": muts.iter().take(3).map(|m| format!("{:?}", m)).collect::<Vec<_>>(),
        }));
        rep
    }
}
