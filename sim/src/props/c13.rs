//! C13 — compaction never changes what recovery returns.
//!
//! Real code: Compactor::compact, StreamingPersistence::flush, ManifestManager, RecoveryManager,
//! Segment/Checkpoint writers and readers on a SimStore. A layout (segments of sizes around the
//! compaction target, overlapping stamp ranges, tombstones, several replicas, hashes, optional
//! checkpoint) is produced from a realistic delta stream; then either compaction runs alone
//! (sequential mode) or compaction and a flush run as two processes whose object-store calls are
//! scheduling points (concurrent mode; `derive` enumerates every op-level interleaving).
//! Oracle: fold(recover before [+ flushed]) == fold(recover after), projection by projection, with
//! the single relaxation the property grants: a tombstone older than the TTL may disappear when no
//! older value of the key exists outside the compaction input.

use crate::model::crdt::{fold_impl, proj_s, visible};
use crate::model::stream::{gen_stream, gen_stream_at, StreamCfg};
use crate::simkit::clock::SimClock;
use crate::simkit::rt::{self, Sched};
use crate::simkit::runner::{Property, RunCtx, RunReport, Tier};
use crate::simkit::store::{OpKind, SimStore};
use crate::simkit::tape::{fnv, mix, Src};
use redis_sim::replication::state::{ReplicatedValue, ReplicationDelta};
use redis_sim::streaming::{CheckpointInfo, CheckpointWriter, CompactionConfig, Compactor, Compression, Manifest, ManifestManager, RecoveryManager, SegmentInfo, SegmentWriter, StreamingPersistence, WriteBufferConfig, ObjectStore};
use serde_json::json;
use std::collections::{BTreeMap, HashMap};
use std::sync::Arc;
use std::time::Duration;

pub struct C13;
const PREFIX: &str = "data";
const H_MODE: usize = 0; // 0/1 sequential, 2 concurrent tape-scheduled, 3 concurrent explicit schedule
const H_P: usize = 1; // cells 1..=6: explicit schedule p1..p6

async fn recover_fold(store: &SimStore) -> Result<BTreeMap<String, ReplicatedValue>, String> {
    let st = SimStore::from_objects(&store.objects());
    let rec = RecoveryManager::new(st, PREFIX, 1).recover().await.map_err(|e| e.to_string())?;
    Ok(fold_impl(rec.checkpoint_state.as_ref(), rec.deltas.iter()))
}

fn seg_bytes(deltas: &[ReplicationDelta]) -> Vec<u8> {
    let mut w = SegmentWriter::new(Compression::None);
    for d in deltas { w.write_delta(d).expect("write_delta"); }
    w.finish().expect("finish")
}

impl Property for C13 {
    fn id(&self) -> &'static str { "C13" }
    fn level(&self) -> &'static str { "exploration" }
    fn rule(&self) -> &'static str {
        "layouts from a realistic delta stream (1-3 real ShardReplicaState replicas, strings/tombstones/hashes, equal times on different replicas) cut into 2-7 segments, target size drawn so that some segments are skipped, optional checkpoint over a prefix, tombstone ages on both sides of the TTL under an epoch-millisecond clock. Sequential mode: compact() 1-2 times. Concurrent mode: compact() || flush() with every object-store call a scheduling point; quick samples interleavings from the tape, and derive() enumerates all op-level interleavings of the two call sequences (all if <= 3000, else a deterministic sample). Non-trivial = compaction rewrote >= 2 segments holding >= 1 key written twice, a tombstone or a hash; distinct = (layout, schedule)"
    }
    fn components_real(&self) -> Vec<&'static str> { vec!["streaming::compaction::Compactor::compact", "streaming::persistence::StreamingPersistence::{push,flush}", "streaming::manifest::{Manifest,ManifestManager}", "streaming::recovery::RecoveryManager::recover", "streaming::{segment,checkpoint} writers/readers", "ReplicatedValue::merge (to fold recovered deltas)"] }
    fn components_stubbed(&self) -> Vec<&'static str> { vec!["ObjectStore -> SimStore (each call yields to the scheduler in concurrent mode)", "CompactionWorker/PersistenceWorker timers not run: compact() and flush() are invoked directly as two scheduled processes"] }
    fn assumptions(&self) -> Vec<&'static str> { vec!["a tombstone's age is wall-clock time since the DEL was issued (the harness tracks it); the code only has the Lamport stamp", "absent key == tombstoned key when comparing states after a permitted tombstone drop"] }
    fn required_probes(&self) -> Vec<&'static str> { vec!["compaction_rewrote_segments", "segment_skipped_by_size", "concurrent_flush_overlapped", "tombstone_in_input"] }
    fn runs(&self, tier: Tier) -> u64 { match tier { Tier::Quick => 50000, Tier::Thorough => 3000000 } }

    fn derive(&self, tape: &[u64], rep: &RunReport, tier: Tier) -> Vec<Vec<u64>> {
        if tape.len() < 8 || tape[H_MODE] % 4 != 2 { return vec![]; }
        let s = match &rep.sample { Some(s) => s, None => return vec![] };
        let (m, nf) = (s["compaction_store_ops"].as_u64().unwrap_or(0) as usize, s["flush_store_ops"].as_u64().unwrap_or(0) as usize);
        if m == 0 || nf == 0 || nf > 6 { return vec![]; }
        // all nondecreasing nf-tuples over 0..=m
        let mut all: Vec<Vec<u64>> = Vec::new();
        fn rec(cur: &mut Vec<u64>, lo: u64, m: u64, nf: usize, all: &mut Vec<Vec<u64>>) {
            if cur.len() == nf { all.push(cur.clone()); return; }
            for v in lo..=m { cur.push(v); rec(cur, v, m, nf, all); cur.pop(); if all.len() > 20_000 { return; } }
        }
        rec(&mut Vec::new(), 0, m as u64, nf, &mut all);
        let limit = match tier { Tier::Quick => 40, Tier::Thorough => 3000 };
        let step = (all.len() / limit).max(1);
        let mut out = Vec::new();
        for (i, p) in all.iter().enumerate() {
            if i % step != 0 { continue; }
            let mut t = tape.to_vec();
            t[H_MODE] = 3;
            for (j, v) in p.iter().enumerate() { t[H_P + j] = *v; }
            out.push(t);
        }
        out
    }

    fn run(&self, src: &mut Src, ctx: &RunCtx) -> RunReport {
        let mut rep = RunReport::default();
        let mode = src.below(4);
        let explicit: Vec<u64> = (0..6).map(|_| src.below(64)).collect();
        let concurrent = mode >= 2;
        // ---- layout
        let scfg = StreamCfg { nrep: 1 + src.below(3) as usize, nkeys: 1 + src.below(4) as usize, max_ops: 18, hashes: src.chance(1, 2), type_changes: false, deletes: true, expiry: false };
        let t0 = 1_700_000_000_000u64;
        let (stream, t_end) = gen_stream(src, &scfg, t0);
        if stream.len() < 2 { rep.evals = 1; return rep; }
        // cut into segments
        let mut cuts: Vec<usize> = Vec::new();
        for i in 1..stream.len() { if src.chance(2, 5) { cuts.push(i); } }
        if cuts.is_empty() { cuts.push(stream.len() / 2); }
        cuts.push(stream.len());
        let mut segs: Vec<Vec<ReplicationDelta>> = Vec::new();
        let mut start = 0;
        for c in cuts { if c > start { segs.push(stream[start..c].iter().map(|e| e.delta.clone()).collect()); start = c; } }
        // a segment may be a duplicate of an earlier one (re-flush after an ambiguous put)
        if src.chance(1, 8) && !segs.is_empty() { let d = segs[src.idx(segs.len())].clone(); segs.push(d); }
        let sizes: Vec<usize> = segs.iter().map(|s| seg_bytes(s).len()).collect();
        let target = match src.below(4) { 0 => 1usize << 20, 1 => *sizes.iter().max().unwrap(), 2 => { let mut s = sizes.clone(); s.sort(); s[s.len() / 2] + 1 } _ => *sizes.iter().min().unwrap() + 1 };
        let with_cp = src.chance(1, 3) && segs.len() >= 3;
        let cp_prefix = if with_cp { 1 + src.idx(segs.len() - 2) } else { 0 };
        let max_per = *src.pick(&[10usize, 2, 3]);
        let ttl_ms = *src.pick(&[3_600_000u64, 100, 10_000_000]);
        let compact_delay = *src.pick(&[0u64, 200, 7_200_000]);
        let n_compactions = 1 + src.below(2);
        // a third of the sequential layouts is written by one long-lived StreamingPersistence (push + flush per segment, as the
        // server's persistence worker does), which after the compaction(s) flushes once more: whatever that instance
        // remembers of its earlier flushes meets a manifest the compaction has rewritten. Now and then one of the
        // compaction's deletes of its inputs fails (the object stays behind as an orphan).
        let lifecycle = !concurrent && src.chance(1, 3);
        let delete_fault: Option<u64> = if lifecycle && src.chance(1, 3) { Some(src.below(3)) } else { None };
        let extra: Vec<ReplicationDelta> = if concurrent || lifecycle {
            // the concurrently flushed updates come from the tail of another stream over the same keys
            // the concurrent writer continues the replicas' clocks: no stamp of the first stream (top-level or
            // per hash field) is issued again with a different value
            let base = stream.iter().map(|e| e.delta.value.timestamp.time).max().unwrap_or(0) + 1000;
            let (s2, _) = gen_stream_at(src, &StreamCfg { nrep: scfg.nrep, nkeys: scfg.nkeys, max_ops: 4, hashes: scfg.hashes, type_changes: false, deletes: true, expiry: false }, t_end, base);
            s2.into_iter().map(|e| e.delta).collect()
        } else { vec![] };
        let yield_bias = src.below(8);
        // one transient read error at the flush's first or second store call (its manifest reload)
        let flush_get_fault: Option<u64> = if concurrent && src.chance(1, 5) { Some(src.below(2)) } else { None };
        // one corrupted read (a bit flipped in transit, the stored object intact) of the j-th object the
        // compaction reads: an input segment that cannot be validated must stay where it is
        let compact_corrupt_read: Option<u64> = if src.chance(1, 6) { Some(1 + src.below(5)) } else { None };
        // the compaction's manifest swap takes effect but reports an error (copy-then-delete rename)
        let compact_rename_ambiguous = src.chance(1, 8);
        // or it fails outright (the manifest stays as it was: so must everything it names)
        let compact_rename_fails = !compact_rename_ambiguous && src.chance(1, 8);
        let trace = ctx.trace;
        if trace {
            for e in &stream { rep.trace.push(format!("t+{}ms {} -> {} @({},{})", e.wall_ms - t0, e.op, e.delta.value.crdt_type(), e.delta.value.timestamp.time, e.delta.value.timestamp.replica_id.0)); }
            rep.trace.push(format!("segments: sizes={:?} target_segment_size={} checkpoint_over_first={} max_per_compaction={} ttl_ms={} compact_at=t+{}ms mode={}", sizes, target, cp_prefix, max_per, ttl_ms, t_end - t0 + compact_delay, mode));
        }
        let store = SimStore::new();
        store.set_record(false);
        let seed = src.u64_any();
        let clock = SimClock::new(t_end + compact_delay);
        let stream_info: Vec<(String, u64, u64, bool, u64)> = stream.iter().map(|e| (e.delta.key.clone(), e.delta.value.timestamp.time, e.delta.value.timestamp.replica_id.0, e.delta.value.is_tombstone(), e.wall_ms)).collect();

        struct Out { before: Result<BTreeMap<String, ReplicatedValue>, String>, after: Result<BTreeMap<String, ReplicatedValue>, String>, compact_ok: Vec<bool>, flush_ok: Option<bool>, removed: Vec<u64>, input_keys: Vec<String>, cops: u64, fops: u64, order: Vec<u32>, steps: u64, manifest_before: Option<Manifest>, setup: Option<String> }
        let st = store.clone();
        let segs2 = segs.clone();
        let extra2 = extra.clone();
        let out: Out = rt::block_on(seed, async {
            let mm = ManifestManager::new(st.clone(), PREFIX);
            let mut manifest = Manifest::new(1);
            let mut infos = Vec::new();
            let wcfg_l = WriteBufferConfig { flush_interval: Duration::from_millis(50), max_size_bytes: 1 << 20, max_deltas: 1000, backpressure_threshold_bytes: 1 << 22, compression_enabled: false };
            let mut writer: Option<StreamingPersistence<SimStore, SimClock>> = None;
            if lifecycle {
                let mut p = match StreamingPersistence::with_clock(Arc::new(st.as_actor(2)), PREFIX.to_string(), 1, wcfg_l, clock.clone()).await { Ok(p) => p, Err(e) => return Out { before: Err(e.to_string()), after: Err(String::new()), compact_ok: vec![], flush_ok: None, removed: vec![], input_keys: vec![], cops: 0, fops: 0, order: vec![], steps: 0, manifest_before: None, setup: Some("persistence".into()) } };
                for ds in segs2.iter() {
                    for d in ds { let _ = p.push(d.clone()); }
                    match p.flush().await {
                        Ok(fr) => { if let Some(s) = fr.segment { infos.push(s); } }
                        Err(e) => return Out { before: Err(e.to_string()), after: Err(String::new()), compact_ok: vec![], flush_ok: None, removed: vec![], input_keys: vec![], cops: 0, fops: 0, order: vec![], steps: 0, manifest_before: None, setup: Some("flush".into()) },
                    }
                }
                manifest = match mm.load().await { Ok(m) => m, Err(e) => return Out { before: Err(e.to_string()), after: Err(String::new()), compact_ok: vec![], flush_ok: None, removed: vec![], input_keys: vec![], cops: 0, fops: 0, order: vec![], steps: 0, manifest_before: None, setup: Some("load".into()) } };
                if infos.len() != segs2.len() || infos.iter().enumerate().any(|(i, s)| s.id != i as u64) { return Out { before: Err("segment ids".into()), after: Err(String::new()), compact_ok: vec![], flush_ok: None, removed: vec![], input_keys: vec![], cops: 0, fops: 0, order: vec![], steps: 0, manifest_before: None, setup: Some("ids".into()) }; }
                writer = Some(p);
            }
            for ds in segs2.iter() {
                if lifecycle { break; }
                let id = manifest.allocate_segment_id();
                let key = format!("{}/segments/segment-{:08}.seg", PREFIX, id);
                let bytes = seg_bytes(ds);
                if let Err(e) = st.put(&key, &bytes).await { return Out { before: Err(e.to_string()), after: Err(String::new()), compact_ok: vec![], flush_ok: None, removed: vec![], input_keys: vec![], cops: 0, fops: 0, order: vec![], steps: 0, manifest_before: None, setup: Some("put".into()) }; }
                let info = SegmentInfo { id, key, record_count: ds.len() as u32, size_bytes: bytes.len() as u64, min_timestamp: ds.iter().map(|d| d.value.timestamp.time).min().unwrap_or(0), max_timestamp: ds.iter().map(|d| d.value.timestamp.time).max().unwrap_or(0) };
                manifest.add_segment(info.clone());
                infos.push(info);
            }
            if cp_prefix > 0 {
                let state: HashMap<String, ReplicatedValue> = fold_impl(None, segs2[..cp_prefix].iter().flatten()).into_iter().collect();
                let last_id = infos[cp_prefix - 1].id;
                let bytes = CheckpointWriter::new(Compression::None).write(state.clone(), t0, last_id).expect("checkpoint");
                let key = format!("{}/checkpoints/chk-{:016}.chk", PREFIX, t0);
                let _ = st.put(&key, &bytes).await;
                manifest.compact_segments(CheckpointInfo { key, timestamp_ms: t0, key_count: state.len() as u64, last_segment_id: last_id });
            }
            if let Err(e) = mm.save(&manifest).await { return Out { before: Err(e.to_string()), after: Err(String::new()), compact_ok: vec![], flush_ok: None, removed: vec![], input_keys: vec![], cops: 0, fops: 0, order: vec![], steps: 0, manifest_before: None, setup: Some("save".into()) }; }
            let before = recover_fold(&st).await;
            let ccfg = CompactionConfig { target_segment_size: target, max_segments: 2, min_segments_to_compact: 2, max_segments_per_compaction: max_per, tombstone_ttl: Duration::from_millis(ttl_ms), compression_enabled: false };
            let mut compact_ok = Vec::new();
            let mut removed: Vec<u64> = Vec::new();
            let mut flush_ok = None;
            let (mut cops, mut fops) = (0u64, 0u64);
            let mut order: Vec<u32> = Vec::new();
            let mut steps = 0;
            if !concurrent {
                let st_c = st.as_actor(1);
                if let Some(j) = compact_corrupt_read { st.set_who_plan([((1u32, j), crate::simkit::store::StoreFault::GetCorrupt)].into_iter().collect()); }
                if compact_rename_ambiguous { st.inner.lock().unwrap().next_rename_fault.insert(1, crate::simkit::store::StoreFault::RenameAmbiguous); }
                if compact_rename_fails { st.inner.lock().unwrap().next_rename_fault.insert(1, crate::simkit::store::StoreFault::RenameError); }
                if let Some(k) = delete_fault { st.inner.lock().unwrap().next_delete_fault.insert(1, k); }
                let mut compactor = Compactor::with_time_source(Arc::new(st_c.clone()), PREFIX.to_string(), ManifestManager::new(st_c.clone(), PREFIX), ccfg, clock.clone());
                // every other fault-free layout is compacted the way the background worker does it: compact_if_needed()
                let via_if_needed = compact_corrupt_read.is_none() && !compact_rename_ambiguous && !compact_rename_fails && delete_fault.is_none() && n_compactions % 2 == 0;
                for _ in 0..n_compactions {
                    if via_if_needed {
                        match compactor.compact_if_needed().await { Ok(Some(r)) => { compact_ok.push(true); removed.extend(r.segments_removed.iter().map(|s| s.id)); } Ok(None) => compact_ok.push(false), Err(_) => compact_ok.push(false) }
                    } else {
                        match compactor.compact().await { Ok(r) => { compact_ok.push(true); removed.extend(r.segments_removed.iter().map(|s| s.id)); } Err(_) => compact_ok.push(false) }
                    }
                }
                if let Some(p) = writer.as_mut() {
                    for d in &extra2 { let _ = p.push(d.clone()); }
                    flush_ok = Some(p.flush().await.is_ok());
                }
            } else {
                let wcfg = WriteBufferConfig { flush_interval: Duration::from_millis(50), max_size_bytes: 1 << 20, max_deltas: 1000, backpressure_threshold_bytes: 1 << 22, compression_enabled: false };
                let st_c = st.as_actor(1);
                let st_f = st.as_actor(2);
                let mut p = match StreamingPersistence::with_clock(Arc::new(st_f.clone()), PREFIX.to_string(), 1, wcfg, clock.clone()).await { Ok(p) => p, Err(e) => return Out { before, after: Err(e.to_string()), compact_ok, flush_ok, removed, input_keys: vec![], cops, fops, order, steps, manifest_before: Some(manifest), setup: Some("persistence".into()) } };
                for d in &extra2 { let _ = p.push(d.clone()); }
                let mut compactor = Compactor::with_time_source(Arc::new(st_c.clone()), PREFIX.to_string(), ManifestManager::new(st_c.clone(), PREFIX), ccfg, clock.clone());
                {
                    let mut plan: BTreeMap<(u32, u64), crate::simkit::store::StoreFault> = BTreeMap::new();
                    if let Some(j) = flush_get_fault {
                        let done = st.inner.lock().unwrap().who_ops.get(&2).copied().unwrap_or(0);
                        plan.insert((2u32, done + j), crate::simkit::store::StoreFault::GetError);
                    }
                    if let Some(j) = compact_corrupt_read { plan.insert((1u32, j), crate::simkit::store::StoreFault::GetCorrupt); }
                    if !plan.is_empty() { st.set_who_plan(plan); }
                    if compact_rename_ambiguous { st.inner.lock().unwrap().next_rename_fault.insert(1, crate::simkit::store::StoreFault::RenameAmbiguous); }
                    if compact_rename_fails { st.inner.lock().unwrap().next_rename_fault.insert(1, crate::simkit::store::StoreFault::RenameError); }
                }
                st.set_yield(true);
                let ops0 = st.ops();
                let c_res = std::cell::RefCell::new(None);
                let f_res = std::cell::RefCell::new(None);
                {
                    let mut sched = Sched::new();
                    let ci = sched.add("compact", async { let r = compactor.compact().await; *c_res.borrow_mut() = Some(r); });
                    let fi = sched.add("flush", async { let r = p.flush().await; *f_res.borrow_mut() = Some(r.is_ok()); });
                    if mode == 3 {
                        // explicit: flush op j may run once compaction has completed explicit[j] ops
                        let count = |who: u32| st.inner.lock().unwrap().events.iter().filter(|e| e.op >= ops0 && e.who == who).count() as u64;
                        let mut guard = 0;
                        while !sched.all_done() && guard < 500 {
                            guard += 1;
                            let (c, f) = (count(1), count(2));
                            let want_flush = !sched.is_done(fi) && (sched.is_done(ci) || c >= explicit.get(f as usize).copied().unwrap_or(0));
                            let i = if want_flush { fi } else if !sched.is_done(ci) { ci } else { fi };
                            sched.poll(i);
                        }
                    } else {
                        sched.run_all(src, yield_bias, 2000).await;
                    }
                    steps = sched.steps;
                }
                st.set_yield(false);
                let ev = st.inner.lock().unwrap().events.clone();
                for e in ev.iter().filter(|e| e.op >= ops0) { order.push(e.who); if e.who == 1 { cops += 1; } else if e.who == 2 { fops += 1; } }
                if let Some(r) = c_res.into_inner() { match r { Ok(r) => { compact_ok.push(true); removed.extend(r.segments_removed.iter().map(|s| s.id)); } Err(_) => compact_ok.push(false) } }
                flush_ok = f_res.into_inner();
            }
            let after = recover_fold(&st).await;
            let input_keys: Vec<String> = infos.iter().filter(|i| removed.contains(&i.id)).map(|i| i.key.clone()).collect();
            Out { before, after, compact_ok, flush_ok, removed, input_keys, cops, fops, order, steps, manifest_before: Some(manifest), setup: None }
        });
        rep.steps = out.steps;
        if trace {
            for e in store.inner.lock().unwrap().events.iter() { rep.trace.push(format!("store op={} who={} {} {} ok={}", e.op, match e.who { 1 => "compact", 2 => "flush", _ => "setup/recover" }, e.kind.name(), e.key, e.ok)); }
            rep.trace.push(format!("compact results {:?}, flush result {:?}, segments removed {:?}", out.compact_ok, out.flush_ok, out.removed));
        }
        let _ = OpKind::Put;
        for e in store.inner.lock().unwrap().events.iter() { if let Some(f) = e.fault { rep.fault(f.name()); rep.probe(if e.who == 2 { "flush_reload_failed_transiently" } else if matches!(f, crate::simkit::store::StoreFault::RenameAmbiguous) { "compaction_manifest_swap_ambiguous" } else if matches!(f, crate::simkit::store::StoreFault::DeleteError) { "compaction_input_delete_failed" } else if matches!(f, crate::simkit::store::StoreFault::RenameError) { "compaction_manifest_swap_failed" } else { "compaction_read_corrupted" }); } }
        if out.setup.is_some() { if lifecycle { rep.probe("lifecycle_setup_abandoned"); } rep.evals = 1; return rep; }
        if lifecycle { rep.probe("segments_written_and_later_flush_by_one_long_lived_writer"); }
        let before = match out.before { Ok(b) => b, Err(e) => { rep.violate("C13/recover-before-failed", e); return rep; } };
        // the recorded race needs the two operations to be in progress at the same time: their spans of store
        // calls intersect. A flush that runs entirely before or entirely after the compaction must be safe.
        let span = |who: u32| out.order.iter().position(|w| *w == who).zip(out.order.iter().rposition(|w| *w == who));
        let overlapped = concurrent && match (span(1), span(2)) { (Some((c0, c1)), Some((f0, f1))) => f0 < c1 && c0 < f1, _ => false };
        if concurrent && !overlapped && span(1).is_some() && span(2).is_some() { rep.probe("flush_strictly_beside_compaction"); }
        let after = match out.after { Ok(a) => a, Err(e) => {
            let key = if overlapped { "C13/concurrent-flush/recovery-fails-after" } else if concurrent || lifecycle { "C13/flush-beside-compaction/recovery-fails-after" } else { "C13/recovery-fails-after-compaction" };
            rep.violate(key, format!("recovery succeeded before compaction but fails after: {}", e)); rep.evals = 1; return rep; } };
        // expected = before (+ the concurrently flushed updates if the flush was confirmed)
        let mut expected = before.clone();
        if out.flush_ok == Some(true) {
            for d in &extra { let m = match expected.get(&d.key) { Some(c) => c.merge(&d.value), None => d.value.clone() }; expected.insert(d.key.clone(), m); }
        }
        // probes
        let removed_idx: Vec<usize> = out.manifest_before.as_ref().map(|_| (0..segs.len()).filter(|i| out.removed.contains(&(*i as u64))).collect()).unwrap_or_default();
        if removed_idx.len() >= 2 { rep.probe("compaction_rewrote_segments"); }
        if out.manifest_before.as_ref().map(|m| m.segments.iter().any(|s| s.size_bytes >= target as u64)).unwrap_or(false) && !out.removed.is_empty() { rep.probe("segment_skipped_by_size"); }
        let input_deltas: Vec<&ReplicationDelta> = removed_idx.iter().flat_map(|i| segs[*i].iter()).collect();
        if input_deltas.iter().any(|d| d.value.is_tombstone()) { rep.probe("tombstone_in_input"); }
        if concurrent {
            // overlapped = some flush op happened strictly between two compaction ops
            let first_c = out.order.iter().position(|w| *w == 1); let last_c = out.order.iter().rposition(|w| *w == 1);
            if let (Some(a), Some(b)) = (first_c, last_c) { if out.order[a..=b].iter().any(|w| *w == 2) { rep.probe("concurrent_flush_overlapped"); } }
        }
        let interesting = removed_idx.len() >= 2 && {
            let mut seen: BTreeMap<&str, u32> = BTreeMap::new();
            for d in &input_deltas { *seen.entry(d.key.as_str()).or_insert(0) += 1; }
            seen.values().any(|c| *c >= 2) || input_deltas.iter().any(|d| d.value.is_tombstone() || d.value.is_hash())
        };
        // ---- compare
        rep.evals = 1;
        let now = clock.now();
        let all_keys: std::collections::BTreeSet<&String> = expected.keys().chain(after.keys()).collect();
        for k in all_keys {
            let (e, a) = (expected.get(k), after.get(k));
            if e.map(proj_s) == a.map(proj_s) { continue; }
            // permitted: tombstone older than TTL dropped, nothing older outside the input
            let e_vis = e.map(visible); let a_vis = a.map(visible);
            let e_dead = e.map(|v| v.is_tombstone() || (v.is_hash() && v.get_hash().map(|h| h.values().all(|l| l.get().is_none())).unwrap_or(false))).unwrap_or(true);
            let ts_of_latest_del = stream_info.iter().filter(|(key, _, _, tomb, _)| key == k && *tomb).map(|x| x.4).max();
            let age_ok = ts_of_latest_del.map(|w| now.saturating_sub(w) >= ttl_ms).unwrap_or(false);
            let older_outside = {
                // any delta of k in a segment that was not compaction input, or in the checkpoint
                let in_cp = cp_prefix > 0 && segs[..cp_prefix].iter().flatten().any(|d| &d.key == k);
                let in_other = (0..segs.len()).filter(|i| *i >= cp_prefix && !removed_idx.contains(i)).any(|i| segs[i].iter().any(|d| &d.key == k));
                in_cp || in_other
            };
            let key;
            let msg;
            if overlapped {
                let lost = out.flush_ok == Some(true) && extra.iter().any(|d| &d.key == k) && before.get(k).map(proj_s) == a.map(proj_s);
                key = if lost { "C13/concurrent-flush/confirmed-flush-lost" } else { "C13/concurrent-flush/state-changed" };
                msg = format!("key {}: store calls of a flush interleaved inside compaction (order {:?}); expected {} got {}", k, out.order, e.map(proj_s).unwrap_or_default(), a.map(proj_s).unwrap_or_default());
            } else if a.is_none() && e_dead && e.map(|v| v.is_tombstone()).unwrap_or(false) {
                if age_ok && !older_outside { continue; }
                if !age_ok { key = "C13/tombstone-dropped-before-ttl"; msg = format!("key {}: tombstone issued {} ms before the compaction (TTL {} ms) was dropped", k, ts_of_latest_del.map(|w| now.saturating_sub(w)).unwrap_or(0), ttl_ms); }
                else { continue; } // dropped, old enough; resurfacing would show as a live value below
            } else if e_dead && a.map(|v| !v.is_tombstone()).unwrap_or(false) && a_vis != e_vis {
                key = "C13/tombstone-dropped-older-value-resurfaces";
                msg = format!("key {}: deleted before compaction, but afterwards recovery returns {} (an older value from a segment or checkpoint outside the compaction input)", k, a_vis.clone().unwrap_or_default());
            } else if (concurrent || lifecycle) && (out.flush_ok == Some(true)) && extra.iter().any(|d| &d.key == k) && before.get(k).map(proj_s) == a.map(proj_s) {
                key = "C13/flush-beside-compaction/confirmed-flush-lost";
                msg = format!("key {}: a flush that returned Ok (store calls strictly before or after the compaction's, order {:?}) is not in the recovered state: expected {} got {}", k, out.order, e.map(proj_s).unwrap_or_default(), a.map(proj_s).unwrap_or_default());
            } else if input_deltas.iter().any(|d| &d.key == k && d.value.is_hash()) {
                key = "C13/state-changed/hash";
                msg = format!("key {}: before {} after {}", k, e.map(proj_s).unwrap_or_default(), a.map(proj_s).unwrap_or_default());
            } else {
                let tie = { let ds: Vec<&&ReplicationDelta> = input_deltas.iter().filter(|d| &d.key == k).collect(); ds.iter().any(|x| ds.iter().any(|y| x.value.timestamp.time == y.value.timestamp.time && x.value.timestamp.replica_id != y.value.timestamp.replica_id)) };
                key = if tie { "C13/state-changed/equal-time-different-replica" } else { "C13/state-changed/string" };
                msg = format!("key {}: before {} after {}", k, e.map(proj_s).unwrap_or_default(), a.map(proj_s).unwrap_or_default());
            }
            rep.violate(key, msg);
            break;
        }
        rep.nontrivial = interesting;
        let mut fp = fnv(0, format!("{:?}{:?}{}{}{}{}", sizes, stream_info, target, cp_prefix, max_per, ttl_ms).as_bytes());
        for w in &out.order { fp = fnv(fp, &[*w as u8]); }
        rep.fingerprint = mix(fp, mode + 16 * lifecycle as u64);
        rep.sample = Some(json!({
            "mode": if concurrent { "compact || flush" } else if lifecycle { "one long-lived writer: flushes, compaction, flush" } else { "compact alone" },
            "stream": stream.iter().take(8).map(|e| e.op.clone()).collect::<Vec<_>>(),
            "segment_sizes": sizes, "target_segment_size": target, "checkpoint_over_first_segments": cp_prefix,
            "segments_removed": out.removed, "compaction_store_ops": out.cops, "flush_store_ops": out.fops,
            "store_op_order(1=compact,2=flush)": out.order,
        }));
        rep
    }
}
