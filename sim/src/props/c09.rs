//! C09 — always-fsync WAL: a write reported durable survives a crash at any instant.
//!
//! Real code: `spawn_wal_actor` (WalActor, WalRotator, WalWriter, WalEntry) on a `SimWalStore`.
//! One run = one workload (concurrent writers) + one schedule + one fault plan (0–2 faults at I/O
//! call indices). `derive` enumerates every single-fault placement over the pilot's I/O calls.
//! Oracle: for every durable image that ever existed (one per successful fsync / create), all
//! writes whose `write_durable` had returned Ok before the image was superseded are recovered by
//! `WalRotator::recover_all_entries` from that image.

use crate::simkit::disk::{Image, IoKind, Seq, SimWalStore, WalFault};
use crate::simkit::rt::{self, Sched};
use crate::simkit::runner::{Property, RunCtx, RunReport, Tier};
use crate::simkit::tape::{fnv, Src};
use redis_sim::redis::SDS;
use redis_sim::replication::lattice::{LamportClock, ReplicaId};
use redis_sim::replication::state::{ReplicatedValue, ReplicationDelta};
use redis_sim::streaming::{spawn_wal_actor, FsyncPolicy, WalConfig, WalRotator};
use serde_json::json;
use crate::model::cluster::repl_config;
use crate::model::wire::{parse_cmd, R};
use crate::simkit::clock::SimClock;
use redis_sim::production::ReplicatedShardedState;
use redis_sim::replication::ConsistencyLevel;
use std::cell::RefCell;
use std::collections::{BTreeMap, BTreeSet};
use std::rc::Rc;
use std::sync::Arc;
use std::time::Duration;

pub struct C09;

pub const HEADER_CELLS: usize = 5;
const KINDS: u64 = 9;

fn kind_of(k: u64) -> WalFault {
    match k % KINDS {
        0 => WalFault::AppendError,
        1 => WalFault::AppendPartial(100),
        2 => WalFault::AppendPartial(500),
        3 => WalFault::AppendPartial(950),
        4 => WalFault::SyncError,
        5 => WalFault::DiskFull,
        6 => WalFault::CreateError,
        7 => WalFault::AppendTornIo(120),
        _ => WalFault::AppendTornIo(700),
    }
}

pub fn make_delta(id: u64, ts: u64, pad: usize) -> ReplicationDelta {
    let r = ReplicaId::new(1 + (id % 3));
    let clock = LamportClock { time: ts, replica_id: r };
    let mut v = format!("v{}-", id);
    if v.len() < pad { let n = pad - v.len(); v.extend(std::iter::repeat('x').take(n)); }
    ReplicationDelta::new(format!("w{}", id), ReplicatedValue::with_value(SDS::from_str(&v), clock), r)
}

pub fn recover_ids(img: &Image, max_file_size: usize) -> Result<BTreeSet<String>, String> {
    let store = SimWalStore::from_image(img);
    let rot = WalRotator::new(store, max_file_size).map_err(|e| format!("rotator: {}", e))?;
    let entries = rot.recover_all_entries().map_err(|e| format!("recover: {}", e))?;
    let mut ids = BTreeSet::new();
    for e in entries {
        if let Ok(d) = e.to_delta() { ids.insert(d.key); }
    }
    Ok(ids)
}

#[derive(Debug, Clone)]
struct Done { id: u64, ok: bool, seq: u64, err: String }

impl Property for C09 {
    fn id(&self) -> &'static str { "C09" }
    fn level(&self) -> &'static str { "fault_enumeration" }
    fn rule(&self) -> &'static str {
        "per generated workload (1-8 concurrent writers, swarm-drawn rotation threshold and group-commit limits) a fault-free pilot run, then one run per (I/O call index, applicable fault kind) plus sampled double faults; inside each run every durable image that ever existed (crash instant) is recovered and compared with the writes acknowledged before it was superseded. Non-trivial = at least one crash image taken after >=1 acknowledged write while unsynced bytes existed or a fault had fired; distinct = fingerprint of (workload, config, fired faults, realised poll order)"
    }
    fn components_real(&self) -> Vec<&'static str> {
        vec!["streaming::wal_actor::WalActor (spawn_wal_actor, run_always_mode, group commit)", "production::ReplicatedShardedState::execute with set_wal_handle (every fifth workload, fault-free: a client reply implies the delta is durable)", "streaming::wal::{WalRotator,WalWriter,WalReader,WalEntry}", "WalActorHandle::write_durable", "tokio mpsc/oneshot/timeout on a paused clock"]
    }
    fn components_stubbed(&self) -> Vec<&'static str> {
        vec!["WalStore -> SimWalStore (in-memory files, fsync = advance durable prefix of that one file, faults by call index)", "writers are harness futures, not connections"]
    }
    fn assumptions(&self) -> Vec<&'static str> {
        vec!["crash model of the property: bytes not covered by a successful fsync of their file are lost; file creation/deletion is durable at once", "a failed fsync makes nothing durable"]
    }
    fn required_probes(&self) -> Vec<&'static str> { vec!["batch_straddled_rotation", "crash_image_with_unsynced_bytes", "glue_reply_after_durable_write", "janitor_messages_between_writes"] }
    fn runs(&self, tier: Tier) -> u64 { match tier { Tier::Quick => 5000, Tier::Thorough => 100000 } }

    fn derive(&self, tape: &[u64], rep: &RunReport, tier: Tier) -> Vec<Vec<u64>> {
        // Only pilots that were fault-free are expanded.
        if tape.len() < HEADER_CELLS || tape[0] % 3 != 0 { return vec![]; }
        // glue-mode pilots are judged fault-free only (the glue documents best effort under WAL faults)
        if rep.sample.as_ref().map(|s| s["glue"].as_bool().unwrap_or(false)).unwrap_or(false) { return vec![]; }
        // pilots whose entries exceed 1 MiB are not expanded either (every placement would recover megabytes per crash image)
        if rep.sample.as_ref().map(|s| s["big_entries"].as_bool().unwrap_or(false)).unwrap_or(false) { return vec![]; }
        let mut out = Vec::new();
        let kinds_for = |k: &str| -> Vec<u64> {
            match k { "append" => vec![0, 1, 2, 3, 5, 7, 8], "sync" => vec![4], "create" => vec![6], _ => vec![] }
        };
        let calls: Vec<String> = rep.sample.as_ref().and_then(|s| s["io_calls"].as_array().cloned()).unwrap_or_default()
            .iter().filter_map(|x| x.as_str().map(|s| s.to_string())).collect();
        let n = calls.len();
        let stride = match tier { Tier::Quick => (n / 24).max(1), Tier::Thorough => 1 };
        for (i, k) in calls.iter().enumerate() {
            if i % stride != 0 && i + 1 != n { continue; }
            for kind in kinds_for(k) {
                let mut t = tape.to_vec();
                t[0] = 1; t[1] = i as u64; t[2] = kind;
                out.push(t);
            }
        }
        // sampled double faults (deterministic choice from the tape's own content)
        let pairs = match tier { Tier::Quick => 4, Tier::Thorough => 24 };
        let mut h = fnv(0, &tape.iter().flat_map(|v| v.to_le_bytes()).collect::<Vec<u8>>());
        for _ in 0..pairs {
            if n < 2 { break; }
            h = crate::simkit::tape::mix(h, 1);
            let i = (h % n as u64) as usize;
            h = crate::simkit::tape::mix(h, 2);
            let j = (h % n as u64) as usize;
            let ki = kinds_for(&calls[i]); let kj = kinds_for(&calls[j]);
            if ki.is_empty() || kj.is_empty() { continue; }
            let mut t = tape.to_vec();
            t[0] = 2; t[1] = i as u64; t[2] = ki[(h >> 8) as usize % ki.len()]; t[3] = j as u64; t[4] = kj[(h >> 16) as usize % kj.len()];
            out.push(t);
        }
        out
    }

    fn run(&self, src: &mut Src, ctx: &RunCtx) -> RunReport {
        let mut rep = RunReport::default();
        // ---- fault header (fixed cells so that `derive` can overwrite them)
        let nf = src.below(3);
        let f1 = (src.below(128), src.below(KINDS));
        let f2 = (src.below(128), src.below(KINDS));
        let mut plan = BTreeMap::new();
        if nf >= 1 { plan.insert(f1.0, kind_of(f1.1)); }
        if nf >= 2 { plan.insert(f2.0, kind_of(f2.1)); }
        // ---- swarm configuration
        let pad = *src.pick(&[0usize, 0, 40, 300]);
        // now and then every entry is larger than 1 MiB (a size cap in one of writer/reader only)
        // (and one time in eight of those larger than 16 MiB: a string value may be up to 512 MB, so no "plausible" bound is one)
        let pad = if src.chance(1, 300) { if src.chance(1, 8) { 17_000_000 + 9_000_000 * src.below(3) as usize } else { 1_100_000 } } else { pad };
        if pad > 1_000_000 { rep.probe("entries_over_1mib"); }
        if pad > 16_000_000 { rep.probe("entries_over_16mib"); }
        let entry_size = {
            let e = redis_sim::streaming::WalEntry::from_delta(&make_delta(10, 10, pad), 10).unwrap();
            e.disk_size()
        };
        let size_opt = src.below(6);
        let max_file_size = match size_opt {
            0 => 1 << 20,
            1 => 17,                       // every entry in its own file
            2 => 16 + entry_size,          // 1 entry then rotate
            3 => 16 + 2 * entry_size,
            4 => 16 + 3 * entry_size + 1,
            _ => 16 + 5 * entry_size,
        };
        let gmax = *src.pick(&[64usize, 1, 2, 3, 8]);
        let gwait = *src.pick(&[200u64, 0, 50, 5000]);
        let yield_bias = src.below(8);
        let nwriters = 1 + src.below(8) as usize;
        let mut next_id = 0u64;
        let mut plans: Vec<Vec<(u64, u64)>> = Vec::new();
        for _ in 0..nwriters {
            let ws = src.list(4, 3, 4, |s| { let ts = 1 + s.below(50); ts });
            let mut v = Vec::new();
            for ts in ws { v.push((next_id, ts)); next_id += 1; }
            if v.is_empty() { v.push((next_id, 1)); next_id += 1; }
            plans.push(v);
        }
        if pad > 16_000_000 {
            // keep such a run small: at most two writers with one write each
            plans.truncate(2);
            next_id = 0;
            for p in plans.iter_mut() { p.truncate(1); p[0].0 = next_id; next_id += 1; }
        }
        let nwriters = plans.len();
        let total_writes = next_id;
        // mode B: the production glue (ReplicatedShardedState::execute with a WAL handle) issues the
        // durable writes; a reply to the client stands for "write_durable returned". Fault-free only.
        let glue = src.below(5) == 0;
        if glue { plan.clear(); }
        // a third of the other workloads has a janitor beside the writers: the actor's remaining messages
        // (truncation up to a stamp, writes nobody waits for, sync ticks, and now and then an early shutdown)
        // arrive between the durable writes. (kind, argument): 0 truncate(T) 1 fire-and-forget write 2 tick 3 shutdown
        let janitor: Vec<(u64, u64)> = if !glue && src.chance(1, 3) { src.list(6, 3, 4, |s| (s.weighted(&[3, 3, 1, 1]) as u64, 1 + s.below(50))) } else { Vec::new() };
        let max_trunc: u64 = janitor.iter().filter(|(k, _)| *k == 0).map(|(_, t)| *t).max().unwrap_or(0);
        let janitor_shuts_down = janitor.iter().any(|(k, _)| *k == 3);
        let ts_of: std::collections::BTreeMap<u64, u64> = plans.iter().flatten().map(|(id, ts)| (*id, *ts)).collect();
        let trace_on = ctx.trace;
        rep.log(trace_on, || format!("config: glue={} writers={} writes={} max_file_size={} entry_size={} group_commit_max_entries={} wait_us={} faults={:?}", glue, nwriters, total_writes, max_file_size, entry_size, gmax, gwait, plan));

        let seq = Seq::default();
        let store = SimWalStore::new(seq.clone());
        store.set_plan(plan.clone());
        let done: Rc<RefCell<Vec<Done>>> = Rc::new(RefCell::new(Vec::new()));
        let cfg = WalConfig {
            enabled: true,
            wal_dir: "/nonexistent".into(),
            fsync_policy: FsyncPolicy::Always,
            max_file_size,
            group_commit_max_entries: gmax,
            group_commit_max_wait: Duration::from_micros(gwait),
            truncation_check_interval: Duration::from_secs(30),
        };
        let seed = src.u64_any();
        let store2 = store.clone();
        let (finished, steps, order_fp) = rt::block_on(seed, async {
            let (handle, _task) = match spawn_wal_actor(store2, cfg) {
                Ok(x) => x,
                Err(_) => return (true, 0, 0),
            };
            let mut sched = Sched::new();
            let node = if glue {
                let clock = SimClock::new(1_700_000_000_000);
                let mut st = ReplicatedShardedState::with_time_source(repl_config(1, ConsistencyLevel::Eventual), clock);
                st.set_wal_handle(handle.clone());
                Some(Rc::new(st))
            } else { None };
            for (w, plan) in plans.iter().enumerate() {
                if let Some(node) = node.clone() {
                    let done = done.clone();
                    let seq = seq.clone();
                    let plan = plan.clone();
                    sched.add(format!("client{}", w), async move {
                        for (id, ts) in plan {
                            let k = format!("w{}", id).into_bytes();
                            let v = format!("v{}", id).into_bytes();
                            let args: Vec<Vec<u8>> = match ts % 5 {
                                0 => vec![b"INCR".to_vec(), k],
                                1 => vec![b"HSET".to_vec(), k, b"f".to_vec(), v],
                                2 => vec![b"APPEND".to_vec(), k, v],
                                3 => vec![b"SET".to_vec(), k, v, b"PX".to_vec(), b"100000".to_vec()],
                                _ => vec![b"SET".to_vec(), k, v],
                            };
                            let r = match parse_cmd(&args) { Ok(c) => R::from_resp(&node.execute(c).await), Err(e) => R::Err(e) };
                            let s = seq.next();
                            let ok = !matches!(r, R::Err(_));
                            done.borrow_mut().push(Done { id, ok, seq: s, err: if ok { String::new() } else { format!("{:?}", r) } });
                        }
                    });
                    continue;
                }
                let h = handle.clone();
                let done = done.clone();
                let seq = seq.clone();
                let plan = plan.clone();
                sched.add(format!("writer{}", w), async move {
                    for (id, ts) in plan {
                        let d = Arc::new(make_delta(id, ts, pad));
                        let r = h.write_durable(d, ts).await;
                        let s = seq.next();
                        done.borrow_mut().push(Done { id, ok: r.is_ok(), seq: s, err: r.err().map(|e| e.to_string()).unwrap_or_default() });
                    }
                });
            }
            if !janitor.is_empty() {
                let h = handle.clone();
                let acts = janitor.clone();
                sched.add("janitor".to_string(), async move {
                    for (i, (kind, arg)) in acts.into_iter().enumerate() {
                        match kind {
                            0 => h.truncate(arg),
                            1 => h.write_fire_and_forget(Arc::new(make_delta(100_000 + i as u64, arg, pad)), arg),
                            2 => h.sync_tick(),
                            _ => { h.shutdown().await; }
                        }
                        tokio::task::yield_now().await;
                    }
                });
            }
            let fin = sched.run_all(src, yield_bias, 20_000).await;
            (fin, sched.steps, sched.order_fp)
        });
        rep.steps = steps;
        rep.sim_ms = 0;

        // ---- collect
        let d = store.inner.lock().unwrap();
        let events = d.events.clone();
        let images = d.images.clone();
        let vol = d.volatile_images.clone();
        let fired = d.fired.clone();
        drop(d);
        for (_, f) in &fired { rep.fault(f.name()); }
        let done = done.borrow().clone();
        if trace_on {
            for e in &events { rep.trace.push(format!("io seq={} call={} {:?} {} len={} fault={:?}", e.seq, e.call, e.kind, e.file, e.len, e.fault)); }
            for x in &done { rep.trace.push(format!("return seq={} write w{} -> {}", x.seq, x.id, if x.ok { "Ok".to_string() } else { format!("Err({})", x.err) })); }
        }
        let io_calls: Vec<&'static str> = events.iter().filter(|e| matches!(e.kind, IoKind::Create | IoKind::Append | IoKind::Sync))
            .map(|e| match e.kind { IoKind::Create => "create", IoKind::Append => "append", _ => "sync" }).collect();

        // probes: a rotation happened while an appended entry was still waiting for its ack
        for e in events.iter().filter(|e| e.kind == IoKind::Create) {
            let straddle = events.iter().any(|a| a.kind == IoKind::Append && a.fault.is_none() && a.len > 16 && a.seq < e.seq && {
                match redis_sim::streaming::WalEntry::decode(&a.data).and_then(|(en, _)| en.to_delta().ok()) {
                    Some(d) => done.iter().any(|x| format!("w{}", x.id) == d.key && x.seq > e.seq),
                    None => false,
                }
            });
            if straddle { rep.probe("batch_straddled_rotation"); }
        }
        if glue && done.iter().any(|x| x.ok) { rep.probe("glue_reply_after_durable_write"); }
        if fired.iter().any(|(_, f)| matches!(f, WalFault::AppendError | WalFault::AppendPartial(_) | WalFault::AppendTornIo(_) | WalFault::DiskFull)) { rep.probe("append_failed"); }

        // ---- liveness (fault-free runs only): every call resolves Ok
        if !janitor.is_empty() { rep.probe("janitor_messages_between_writes"); if max_trunc > 0 { rep.fault("wal_truncated_up_to_a_stamp"); } if janitor_shuts_down { rep.fault("wal_actor_shut_down_early"); } }
        if fired.is_empty() && plan.is_empty() && !janitor_shuts_down {
            if !finished {
                rep.violate("C09/liveness/writers-not-finished", format!("fault-free run: {} of {} writes resolved within the step budget", done.len(), total_writes));
            }
            for x in &done {
                if !x.ok { rep.violate("C09/liveness/fault-free-write-failed", format!("write w{} failed without any injected fault: {}", x.id, x.err)); break; }
            }
        }

        // ---- durability oracle over every crash image
        let mut evals = 0u64;
        let mut nontrivial = false;
        for (k, (s_k, img)) in images.iter().enumerate() {
            let s_next = images.get(k + 1).map(|x| x.0).unwrap_or(u64::MAX);
            let acked: Vec<&Done> = done.iter().filter(|x| x.ok && x.seq < s_next && ts_of.get(&x.id).copied().unwrap_or(u64::MAX) > max_trunc).collect();
            if acked.is_empty() { continue; }
            evals += 1;
            rep.fault("crash_dropping_unsynced_bytes");
            // was there any unsynced byte while this image was current?
            let unsynced = vol.iter().any(|(s, v)| *s >= *s_k && *s < s_next && v.values().any(|(d, sy)| d.len() > *sy));
            if unsynced { rep.probe("crash_image_with_unsynced_bytes"); nontrivial = true; }
            if !fired.is_empty() { nontrivial = true; }
            match recover_ids(img, max_file_size) {
                Ok(ids) => {
                    for a in &acked {
                        if !ids.contains(&format!("w{}", a.id)) {
                            let straddle = events.iter().filter(|e| e.kind == IoKind::Create).count() > 1;
                            let after_fault = !fired.is_empty();
                            let key = if after_fault { "C09/acked-lost/after-io-fault" } else if straddle { "C09/acked-lost/unsynced-file-after-rotation" } else { "C09/acked-lost/single-file" };
                            rep.violate(key, format!("write w{} returned Ok at seq {} but a crash while durable image #{} (current from seq {} until seq {}) was on disk recovers only {:?}", a.id, a.seq, k, s_k, s_next, ids));
                            break;
                        }
                    }
                }
                Err(e) => { rep.violate("C09/recovery-error", e); }
            }
            if !rep.violations.is_empty() { break; }
        }
        // lenient images: synced prefix plus a tape-chosen prefix of the unsynced tail
        if rep.violations.is_empty() {
            for (s, v) in vol.iter() {
                let acked: Vec<&Done> = done.iter().filter(|x| x.ok && x.seq <= *s && ts_of.get(&x.id).copied().unwrap_or(u64::MAX) > max_trunc).collect();
                if acked.is_empty() { continue; }
                if !v.values().any(|(d, sy)| d.len() > *sy) { continue; }
                evals += 1;
                let mut img = Image::new();
                let mut h = fnv(*s, &[1]);
                for (n, (data, sy)) in v {
                    h = crate::simkit::tape::mix(h, data.len() as u64);
                    let extra = if data.len() > *sy { (h % (data.len() - sy + 1) as u64) as usize } else { 0 };
                    img.insert(n.clone(), data[..sy + extra].to_vec());
                }
                if let Ok(ids) = recover_ids(&img, max_file_size) {
                    for a in &acked {
                        if !ids.contains(&format!("w{}", a.id)) {
                            rep.violate("C09/acked-lost/torn-tail-image", format!("write w{} acked at seq {} missing from a crash image at seq {} that keeps a prefix of the unsynced tail; recovered {:?}", a.id, a.seq, s, ids));
                            break;
                        }
                    }
                }
                if !rep.violations.is_empty() { break; }
            }
        }
        rep.evals = evals.max(1);
        rep.nontrivial = nontrivial;
        let mut fp = fnv(fnv(glue as u64, format!("{:?}", janitor).as_bytes()), &[nwriters as u8, size_opt as u8, gmax as u8, (gwait % 251) as u8, pad as u8]);
        for p in &plans { for (id, ts) in p { fp = fnv(fp, &[*id as u8, *ts as u8]); } fp = fnv(fp, &[0xff]); }
        for (c, f) in &fired { fp = fnv(fp, &c.to_le_bytes()); fp = fnv(fp, f.name().as_bytes()); }
        fp = fnv(fp, &order_fp.to_le_bytes());
        rep.fingerprint = fp;
        rep.sample = Some(json!({
            "writers": plans.iter().map(|p| p.iter().map(|(id, ts)| format!("w{}@{}", id, ts)).collect::<Vec<_>>()).collect::<Vec<_>>(),
            "max_file_size": max_file_size, "group_commit_max_entries": gmax, "group_commit_max_wait_us": gwait,
            "glue": glue, "big_entries": pad > 1_000_000,
            "janitor": janitor.iter().map(|(k, a)| match k { 0 => format!("truncate({})", a), 1 => format!("fire-and-forget@{}", a), 2 => "sync_tick".to_string(), _ => "shutdown".to_string() }).collect::<Vec<_>>(),
            "faults_planned": plan.iter().map(|(c, f)| format!("call{}:{}", c, f.name())).collect::<Vec<_>>(),
            "faults_fired": fired.iter().map(|(c, f)| format!("call{}:{}", c, f.name())).collect::<Vec<_>>(),
            "io_calls": io_calls,
            "acks": done.iter().map(|x| format!("w{}:{}@{}", x.id, if x.ok { "ok" } else { "err" }, x.seq)).collect::<Vec<_>>(),
            "crash_images_checked": evals,
        }));
        rep
    }
}
