//! C05 — MULTI/EXEC is all-or-nothing and equals sequential run; WATCH aborts on change.
//!
//! Two production connection handlers (hook H1) A and B share one real ShardedActorState. A runs
//! `[WATCH k…] MULTI body EXEC|DISCARD`; B's commands land in tape-chosen gaps (mode 1: each issued
//! and answered between two of A's commands; mode 2: one of B's commands is in flight while A's
//! EXEC is in flight, handler polls interleaved by the tape). Oracle: a twin state that receives
//! B's commands in the realised order and, at the EXEC position, A's body as plain commands iff
//! the property says the transaction applies; after every step both keyspaces must be equal.

use crate::model::cmdgen::{gen_cmd, Cmd, Fam, GenCfg};
use crate::model::wire::{decode_all, encode_cmd, parse_cmd, show_cmd, R};
use crate::props::c04::new_state;
use crate::simkit::clock::SimClock;
use crate::simkit::rt::{self, Sched, Step};
use crate::simkit::runner::{Property, RunCtx, RunReport, Tier};
use crate::simkit::stream::StreamHandle;
use crate::simkit::tape::{fnv, Src};
use redis_sim::production::verif_hooks;
use redis_sim::production::{ConnectionConfig, ShardedActorState};
use serde_json::json;
use std::collections::BTreeMap;

pub struct C05;

type Dump = BTreeMap<Vec<u8>, String>;

async fn exec(state: &ShardedActorState, c: &Cmd) -> R {
    match parse_cmd(c) { Ok(cmd) => R::from_resp(&state.execute(&cmd).await), Err(e) => R::Err(e) }
}

/// Value-only dump (type + content, no TTL) used for the WATCH decision, and a full dump incl. TTL.
async fn dump(state: &ShardedActorState, with_ttl: bool) -> Dump {
    let mut out = Dump::new();
    let b = |s: &str| s.as_bytes().to_vec();
    let R::Arr(Some(keys)) = exec(state, &vec![b("KEYS"), b("*")]).await else { return out };
    for k in keys {
        let R::Bulk(Some(k)) = k else { continue };
        let ty = exec(state, &vec![b("TYPE"), k.clone()]).await;
        let t = if let R::Simple(s) = &ty { s.clone() } else { ty.show() };
        let sortarr = |r: R| match r { R::Arr(Some(mut v)) => { v.sort(); R::Arr(Some(v)) } o => o };
        let v = match t.as_str() {
            "string" => exec(state, &vec![b("GET"), k.clone()]).await,
            "list" => exec(state, &vec![b("LRANGE"), k.clone(), b("0"), b("-1")]).await,
            "set" => sortarr(exec(state, &vec![b("SMEMBERS"), k.clone()]).await),
            "hash" => { match exec(state, &vec![b("HGETALL"), k.clone()]).await { R::Arr(Some(xs)) if xs.len() % 2 == 0 => { let mut p: Vec<(R, R)> = xs.chunks(2).map(|c| (c[0].clone(), c[1].clone())).collect(); p.sort(); R::Arr(Some(p.into_iter().flat_map(|(a, b)| [a, b]).collect())) } o => o } }
            "zset" => exec(state, &vec![b("ZRANGE"), k.clone(), b("0"), b("-1"), b("WITHSCORES")]).await,
            _ => R::Simple("?".into()),
        };
        let ttl = if with_ttl { format!(" pttl={}", exec(state, &vec![b("PTTL"), k.clone()]).await.show()) } else { String::new() };
        out.insert(k, format!("{} {}{}", t, v.show(), ttl));
    }
    out
}

struct Twin { state: ShardedActorState, history: Vec<Cmd>, shards: usize }
impl Twin {
    fn new(shards: usize) -> Twin { Twin { state: new_state(shards), history: Vec::new(), shards } }
    async fn run(&mut self, c: &Cmd) -> R { self.history.push(c.clone()); exec(&self.state, c).await }
    /// A fresh twin that has seen the same commands.
    async fn fork(&self) -> Twin { let mut t = Twin::new(self.shards); for c in &self.history { let _ = exec(&t.state, c).await; } t.history = self.history.clone(); t }
}

#[derive(Debug, Clone)]
enum AStep { Watch(Vec<Vec<u8>>), Unwatch, Multi, Body(Cmd), BadQueued(Cmd), Nested(Cmd), Exec, Discard, Plain(Cmd) }

fn a_cmd(s: &AStep) -> Cmd {
    let b = |x: &str| x.as_bytes().to_vec();
    match s {
        AStep::Watch(ks) => { let mut v = vec![b("WATCH")]; v.extend(ks.iter().cloned()); v }
        AStep::Unwatch => vec![b("UNWATCH")], AStep::Multi => vec![b("MULTI")], AStep::Exec => vec![b("EXEC")], AStep::Discard => vec![b("DISCARD")],
        AStep::Body(c) | AStep::BadQueued(c) | AStep::Nested(c) | AStep::Plain(c) => c.clone(),
    }
}

/// Drive one command through a handler: deliver, then step the scheduler until the reply is complete.
async fn roundtrip(sched: &mut Sched<'_>, src: &mut Src, stream: &StreamHandle, c: &Cmd, have: &mut usize) -> Option<R> {
    stream.deliver(&encode_cmd(c));
    for _ in 0..10_000 {
        let (reps, _, err) = decode_all(&stream.out());
        if err.is_some() { return None; }
        if reps.len() > *have { *have += 1; return Some(reps[*have - 1].clone()); }
        if let Step::Idle = sched.step(src, 0).await { return None; }
    }
    None
}

impl Property for C05 {
    fn id(&self) -> &'static str { "C05" }
    fn level(&self) -> &'static str { "exploration" }
    fn rule(&self) -> &'static str {
        "client A: optional WATCH of 1-2 keys (of any type), sometimes a second WATCH naming the same or other keys, MULTI, 0-5 body commands from all data families incl. ones that fail at run time, plus unknown/wrong-arity commands (queue-time errors), nested MULTI, WATCH inside MULTI, then EXEC or DISCARD, optionally followed by a second transaction on the same connection; client B: 0-4 commands (value-changing, value-preserving, delete-and-recreate, type-changing, expiry) placed in tape-chosen gaps between A's commands (mode 1) or in flight together with A's EXEC with handler polls interleaved by the tape (mode 2). 1 or 4 shards. Non-trivial = B wrote a watched or body key between WATCH and EXEC; distinct = (A's script, B's commands and positions, schedule)"
    }
    fn components_real(&self) -> Vec<&'static str> { vec!["production::connection_optimized::OptimizedConnectionHandler transaction state machine (MULTI/EXEC/DISCARD/WATCH/UNWATCH, queueing, EXECABORT, watch comparison) through hook H1", "ShardedActorState + shard actors + CommandExecutor for every queued and plain command"] }
    fn components_stubbed(&self) -> Vec<&'static str> { vec!["TCP -> SimStream, one command per read", "the oracle twin executes plain commands through ShardedActorState::execute on a second state (it has no transaction logic of its own)"] }
    fn assumptions(&self) -> Vec<&'static str> { vec!["'value of a watched key' = type and content, not TTL", "nested MULTI and WATCH inside MULTI answer an error without aborting the transaction (Redis behaviour)", "SPOP not generated"] }
    fn required_probes(&self) -> Vec<&'static str> { vec!["foreign_write_between_watch_and_exec", "exec_applied", "exec_aborted_by_watch", "execabort", "discard", "overlapping_exec", "executor_level_run", "stray_exec_or_discard_outside_multi", "connection_closed_inside_multi"] }
    fn runs(&self, tier: Tier) -> u64 { match tier { Tier::Quick => 150000, Tier::Thorough => 3000000 } }

    fn run(&self, src: &mut Src, ctx: &RunCtx) -> RunReport {
        let mut rep = RunReport::default();
        let b = |x: &str| x.as_bytes().to_vec();
        let shards = *src.pick(&[1usize, 4]);
        let overlap_mode = src.chance(1, 4);
        let mut g = GenCfg::swarm(src, &[Fam::Str, Fam::Counter, Fam::Key, Fam::Expire, Fam::List, Fam::Set, Fam::Hash, Fam::Zset], 3);
        g.expiry = false; // the clock stands still; TTL-setting commands stay deterministic but TTL readings are compared with ttl anyway
        let gen1 = |s: &mut Src, g: &mut GenCfg| { let mut c = gen_cmd(s, g); if String::from_utf8_lossy(&c[0]).to_uppercase() == "SPOP" { c = vec![b"SCARD".to_vec(), c[1].clone()]; } c };
        // setup commands (sequential, before anything)
        let mut setup: Vec<Cmd> = src.list(5, 3, 4, |s| gen1(s, &mut g));
        // now and then one key holds a collection of 100 elements, and the other client's writes touch its far
        // end without changing its size (a watched key is its whole value, however large)
        let big: Option<(Vec<u8>, bool)> = if src.chance(1, 6) { Some((g.key(src), src.chance(1, 2))) } else { None };
        if let Some((k, zset)) = &big {
            let mut c = vec![b(if *zset { "ZADD" } else { "RPUSH" }), k.clone()];
            for i in 0..100 { if *zset { c.push(b(&format!("{}", i))); } c.push(b(&format!("m{:03}", i))); }
            setup.push(vec![b("DEL"), k.clone()]);
            setup.push(c);
        }
        // A's script
        let mut a: Vec<AStep> = Vec::new();
        let n_tx = 1 + src.below(2);
        for _ in 0..n_tx {
            if src.chance(2, 3) { let mut ks = vec![g.key(src)]; if src.chance(1, 3) { ks.push(g.key(src)); } a.push(AStep::Watch(ks)); }
            // a second WATCH, often naming a key that is already watched (the first snapshot keeps counting)
            if src.chance(1, 4) { let mut ks = vec![g.key(src)]; if src.chance(1, 2) { ks.push(g.key(src)); } a.push(AStep::Watch(ks)); }
            if src.chance(1, 10) { a.push(AStep::Unwatch); }
            if src.chance(1, 6) { a.push(AStep::Plain(gen1(src, &mut g))); }
            a.push(AStep::Multi);
            let body = src.list(5, 3, 4, |s| s.below(12));
            for kind in body {
                match kind {
                    0 => a.push(AStep::BadQueued(vec![b("NOSUCHCMD"), b("x")])),
                    1 => a.push(AStep::BadQueued(vec![b("GET")])), // wrong arity
                    2 => a.push(AStep::Nested(vec![b("MULTI")])),
                    3 => a.push(AStep::Nested(vec![b("WATCH"), g.key(src)])),
                    4 if src.chance(1, 3) => a.push(AStep::Body(vec![b("UNWATCH")])), // queued like any other command
                    // commands without a key are queued like any other (a shortcut that answers them at once skips the queue)
                    5 if src.chance(1, 2) => a.push(AStep::Body(match src.below(4) { 0 => vec![b("PING")], 1 => vec![b("PING"), b("hello")], 2 => vec![b("ECHO"), b("x")], _ => vec![b("DBSIZE")] })),
                    _ => a.push(AStep::Body(gen1(src, &mut g))),
                }
            }
            a.push(if src.chance(5, 6) { AStep::Exec } else { AStep::Discard });
        }
        // one run in five: the other client changes a watched string key and changes it back to exactly what it was, with
        // a second WATCH of the same key before, between or after the two writes (or none) - what a repeated WATCH saw
        // must keep counting whatever comes after it
        let mut restore_b: Vec<(usize, Cmd)> = Vec::new();
        if src.chance(1, 5) {
            let w = a.iter().position(|s| matches!(s, AStep::Watch(_)));
            if let Some(w) = w {
                let kx = match &a[w] { AStep::Watch(ks) => ks[0].clone(), _ => unreachable!() };
                if let Some(m) = a.iter().enumerate().position(|(i, s)| i > w && matches!(s, AStep::Multi)) {
                    // one in four of these on a sorted set whose only score goes from 0 over 1 to -0: numerically where it was, but
                    // another stored score (ZSCORE prints -0) - a change like any other
                    let zero_sign = src.chance(1, 4);
                    if zero_sign { rep.probe("watched_zset_score_from_zero_to_negative_zero"); }
                    setup.push(if zero_sign { vec![b("DEL"), kx.clone()] } else { vec![b("SET"), kx.clone(), b("A0")] });
                    if zero_sign { setup.push(vec![b("ZADD"), kx.clone(), b("0"), b("d")]); }
                    let change = if zero_sign { vec![b("ZADD"), kx.clone(), b("1"), b("d")] } else { vec![b("SET"), kx.clone(), b("B1")] };
                    let restore = if zero_sign { vec![b("ZADD"), kx.clone(), b("-0"), b("d")] } else { vec![b("SET"), kx.clone(), b("A0")] };
                    match src.below(4) {
                        0 => { restore_b.push((m, change)); restore_b.push((m, restore)); }                                                   // no second WATCH
                        1 => { a.insert(m, AStep::Watch(vec![kx.clone()])); restore_b.push((m, change)); restore_b.push((m + 1, restore)); }   // WATCH between the two
                        2 => { a.insert(m, AStep::Watch(vec![kx.clone()])); restore_b.push((m, change)); restore_b.push((m, restore)); }       // WATCH after both
                        _ => { a.insert(w + 1, AStep::Watch(vec![kx.clone()])); restore_b.push((m + 1, change)); restore_b.push((m + 1, restore)); } // WATCH before both
                    }
                    rep.probe("watched_key_changed_and_restored");
                }
            }
        }
        // B's commands and their gap positions (gap i = before A's step i; a.len() = after the last)
        let mut bcmds: Vec<(usize, Cmd)> = src.list(4, 3, 4, |s| {
            let pos = s.idx(a.len() + 1);
            let c = match &big {
                Some((k, zset)) if s.chance(1, 2) => { let i = 64 + s.below(36); if *zset { vec![b("ZADD"), k.clone(), b("XX"), b(&format!("{}.5", i)), b(&format!("m{:03}", i))] } else { vec![b("LSET"), k.clone(), b(&format!("{}", i)), b("changed")] } }
                // the other client wipes the keyspace: a watched key that existed is gone, the transaction must abort
                _ if s.chance(1, 8) => vec![b(if s.chance(1, 2) { "FLUSHALL" } else { "FLUSHDB" })],
                _ => gen1(s, &mut g),
            };
            (pos, c)
        });
        bcmds.extend(restore_b);
        bcmds.sort_by_key(|x| x.0);
        let overlap_cmd: Option<Cmd> = if overlap_mode { Some(gen1(src, &mut g)) } else { None };
        // every sixth run drives the simulation-path implementation instead: the executor's own MULTI/EXEC/
        // WATCH state (one executor = one client; the "other client" writes through the same executor while no
        // transaction is open), with stray EXEC/DISCARD outside MULTI thrown in
        if src.below(6) == 0 { let mut r = self.run_executor_mode(src, ctx, &setup, &a, &bcmds); for (k, v) in &rep.probes { r.probe_n(k, *v); } return r; }
        let yield_bias = 1 + src.below(7);
        // fault: A's connection is closed (by the peer, possibly in the middle of a frame) while a transaction is open
        let cut: Option<(usize, bool)> = if src.chance(1, 8) { Some((src.idx(a.len()), src.chance(1, 2))) } else { None };
        let seed = src.u64_any();
        let trace = ctx.trace;
        let clock = SimClock::new(1_700_000_000_000);
        clock.publish();
        let cfg = ConnectionConfig::default();
        let (setup2, a2, b2, oc2) = (setup.clone(), a.clone(), bcmds.clone(), overlap_cmd.clone());
        struct Out { viol: Option<(String, String)>, log: Vec<String>, probes: Vec<&'static str>, evals: u64 }
        let out: Out = rt::block_on(seed, async move {
            let mut o = Out { viol: None, log: vec![], probes: vec![], evals: 0 };
            let real = new_state(shards);
            let mut twin = Twin::new(shards);
            for c in &setup2 { let r1 = exec(&real, c).await; let _ = twin.run(c).await; if trace { o.log.push(format!("setup {} -> {}", show_cmd(c), r1.show())); } }
            let (sa, sb) = (StreamHandle::new(), StreamHandle::new());
            let mut sched = Sched::new();
            sched.idle_limit_ms = 30_000;
            sched.add("handlerA", verif_hooks::connection(sa.server_end(), real.clone(), cfg.clone()));
            sched.add("handlerB", verif_hooks::connection(sb.server_end(), real.clone(), cfg.clone()));
            let (mut have_a, mut have_b) = (0usize, 0usize);
            // model of A's connection state
            let mut in_multi = false; let mut queued: Vec<Cmd> = Vec::new(); let mut dirty = false;
            let mut watched: Vec<(Vec<u8>, Option<String>)> = Vec::new();
            let mut bi = 0usize;
            let mut b_wrote_since_watch = false;
            for (i, step) in a2.iter().enumerate() {
                // B's commands landing in gap i
                while bi < b2.len() && b2[bi].0 == i {
                    let c = &b2[bi].1; bi += 1;
                    let Some(rb) = roundtrip(&mut sched, src, &sb, c, &mut have_b).await else { o.viol = Some(("C05/no-reply".into(), format!("B's {} got no reply", show_cmd(c)))); return o };
                    let rt_ = twin.run(c).await;
                    if trace { o.log.push(format!("B: {} -> {}", show_cmd(c), rb.show())); }
                    if !watched.is_empty() || in_multi { b_wrote_since_watch = true; }
                    if !rb.eq_unordered(&rt_) { o.viol = Some(("C05/foreign-command-reply-differs".into(), format!("B's {} replied {} but on the sequential twin {}", show_cmd(c), rb.show(), rt_.show()))); return o; }
                }
                let c = a_cmd(step);
                if let Some((ci, mid_frame)) = cut {
                    if ci == i && in_multi {
                        o.probes.push("connection_closed_inside_multi");
                        if mid_frame { let bytes = encode_cmd(&c); sa.deliver(&bytes[..bytes.len() / 2]); }
                        sa.close();
                        for _ in 0..200 { if let Step::Idle = sched.step(src, 0).await { break; } }
                        let (dr, dt) = (dump(&real, true).await, dump(&twin.state, true).await);
                        if dr != dt {
                            let k = dr.keys().chain(dt.keys()).find(|k| dr.get(*k) != dt.get(*k)).cloned().unwrap_or_default();
                            o.viol = Some(("C05/disconnect-inside-multi-changed-keyspace".into(), format!("A's connection closed after {} queued command(s), before EXEC: key {:?} is {:?} on the server but {:?} on the sequential twin", queued.len(), String::from_utf8_lossy(&k), dr.get(&k), dt.get(&k))));
                            return o;
                        }
                        if trace { o.log.push(format!("A: connection closed inside MULTI with {} queued", queued.len())); }
                        break;
                    }
                }
                let is_exec = matches!(step, AStep::Exec);
                // mode 2: one foreign command in flight together with the first EXEC
                let mut overlapped: Option<(Cmd, R)> = None;
                let ra = if is_exec && oc2.is_some() && !o.probes.contains(&"overlapping_exec") {
                    o.probes.push("overlapping_exec");
                    let oc = oc2.clone().unwrap();
                    sa.deliver(&encode_cmd(&c)); sb.deliver(&encode_cmd(&oc));
                    let mut ra = None; let mut rb = None;
                    for _ in 0..20_000 {
                        if ra.is_none() { let (reps, _, _) = decode_all(&sa.out()); if reps.len() > have_a { have_a += 1; ra = Some(reps[have_a - 1].clone()); } }
                        if rb.is_none() { let (reps, _, _) = decode_all(&sb.out()); if reps.len() > have_b { have_b += 1; rb = Some(reps[have_b - 1].clone()); } }
                        if ra.is_some() && rb.is_some() { break; }
                        if let Step::Idle = sched.step(src, yield_bias).await { break; }
                    }
                    let (Some(ra), Some(rb)) = (ra, rb) else { o.viol = Some(("C05/no-reply".into(), "EXEC or the overlapping foreign command got no reply".into())); return o };
                    overlapped = Some((oc, rb));
                    ra
                } else {
                    match roundtrip(&mut sched, src, &sa, &c, &mut have_a).await { Some(r) => r, None => { o.viol = Some(("C05/no-reply".into(), format!("A's {} got no reply", show_cmd(&c)))); return o } }
                };
                if trace { o.log.push(format!("A: {} -> {}", show_cmd(&c), ra.show())); if let Some((oc, rb)) = &overlapped { o.log.push(format!("B (in flight with EXEC): {} -> {}", show_cmd(oc), rb.show())); } }
                o.evals += 1;
                // ---- expected behaviour
                match step {
                    AStep::Watch(ks) if !in_multi => {
                        let d = dump(&twin.state, false).await;
                        for k in ks { watched.push((k.clone(), d.get(k).cloned())); }
                        b_wrote_since_watch = false;
                        if ra != R::ok() { o.viol = Some(("C05/watch-reply".into(), format!("WATCH replied {}", ra.show()))); return o; }
                    }
                    AStep::Unwatch if !in_multi => { watched.clear(); }
                    AStep::Plain(pc) if !in_multi => { let rt_ = twin.run(pc).await; if !ra.eq_unordered(&rt_) { o.viol = Some(("C05/plain-command-reply-differs".into(), format!("{} replied {} vs twin {}", show_cmd(pc), ra.show(), rt_.show()))); return o; } }
                    AStep::Multi => { in_multi = true; queued.clear(); dirty = false; if ra != R::ok() { o.viol = Some(("C05/multi-reply".into(), format!("MULTI replied {}", ra.show()))); return o; } }
                    AStep::Body(bc) => { queued.push(bc.clone()); if ra != R::Simple("QUEUED".into()) {
                        // a command the parser rejects is a queue-time error too
                        if ra.is_err() && parse_cmd(bc).is_err() { dirty = true; queued.pop(); } else { o.viol = Some(("C05/queued-command-had-result".into(), format!("{} inside MULTI replied {} instead of +QUEUED", show_cmd(bc), ra.show()))); return o; } } }
                    AStep::BadQueued(_) => { dirty = true; if !ra.is_err() { o.viol = Some(("C05/queue-time-error-not-reported".into(), format!("{} inside MULTI replied {}", show_cmd(&c), ra.show()))); return o; } }
                    AStep::Nested(_) => { if !ra.is_err() { o.viol = Some(("C05/nested-not-rejected".into(), format!("{} inside MULTI replied {}", show_cmd(&c), ra.show()))); return o; } }
                    AStep::Discard => {
                        in_multi = false; queued.clear(); watched.clear(); o.probes.push("discard");
                        if ra != R::ok() { o.viol = Some(("C05/discard-reply".into(), format!("DISCARD replied {}", ra.show()))); return o; }
                    }
                    AStep::Exec => {
                        in_multi = false;
                        let cur = dump(&twin.state, false).await;
                        let changed: Vec<&(Vec<u8>, Option<String>)> = watched.iter().filter(|(k, v)| cur.get(k).cloned() != *v).collect();
                        let body = std::mem::take(&mut queued);
                        // a watched key that had already changed before EXEC was sent must abort it, whatever runs concurrently
                        if overlapped.is_none() && !dirty && !changed.is_empty() && ra != R::Arr(None) {
                            let (k, v) = changed[0];
                            let nonstring = !v.as_deref().map(|s| s.starts_with("string ")).unwrap_or(true) || !cur.get(k).map(|s| s.starts_with("string ")).unwrap_or(true);
                            let key = if nonstring { "C05/watch/non-string-key-change-not-detected" } else { "C05/watch/change-not-detected" };
                            o.viol = Some((key.into(), format!("watched key {:?} was {:?} at WATCH and is {:?} at EXEC, but EXEC replied {} instead of nil", String::from_utf8_lossy(k), v, cur.get(k), ra.show())));
                            return o;
                        }
                        if let Some((oc, rb)) = overlapped {
                            // strong model: the foreign command entirely before (pos 0) or entirely after
                            // (pos len+1) the transaction; weak model: between two queued commands
                            let d_real = dump(&real, true).await;
                            let mut strong: Option<usize> = None; let mut weak = false;
                            for pos in 0..=(body.len() + 1) {
                                let mut t2 = twin.fork().await;
                                let mut rb2 = None;
                                let mut results = Vec::new();
                                if pos == 0 { rb2 = Some(t2.run(&oc).await); }
                                let curx = dump(&t2.state, false).await;
                                let watch_fail = watched.iter().any(|(k, v)| curx.get(k).cloned() != *v);
                                let aborted = dirty || watch_fail;
                                if !aborted { for (j, qc) in body.iter().enumerate() { if pos == j + 1 { rb2 = Some(t2.run(&oc).await); } results.push(t2.run(qc).await); } }
                                if rb2.is_none() { rb2 = Some(t2.run(&oc).await); }
                                let a_ok = if dirty { ra.err_code() == Some("EXECABORT") } else if watch_fail { ra == R::Arr(None) } else { exec_reply_eq(&R::Arr(Some(results)), &ra) };
                                if a_ok && rb2.as_ref().map(|x| x.eq_unordered(&rb)).unwrap_or(false) && d_real == dump(&t2.state, true).await {
                                    if pos == 0 || pos == body.len() + 1 || aborted || body.is_empty() { if strong.is_none() { strong = Some(pos); } } else { weak = true; }
                                }
                            }
                            // weak model, watch phase: the watch check is one round trip per watched key, so the foreign
                            // command can land after the first j keys have been compared and before the rest
                            if strong.is_none() && !dirty && watched.len() >= 2 {
                                let cur0 = dump(&twin.state, false).await;
                                for j in 1..watched.len() {
                                    let mut t2 = twin.fork().await;
                                    let first_ok = watched[..j].iter().all(|(k, v)| cur0.get(k).cloned() == *v);
                                    let rb2 = t2.run(&oc).await;
                                    let cur1 = dump(&t2.state, false).await;
                                    let rest_ok = watched[j..].iter().all(|(k, v)| cur1.get(k).cloned() == *v);
                                    let passes = first_ok && rest_ok;
                                    let mut results = Vec::new();
                                    if passes { for qc in body.iter() { results.push(t2.run(qc).await); } }
                                    let a_ok = if passes { exec_reply_eq(&R::Arr(Some(results)), &ra) } else { ra == R::Arr(None) };
                                    if a_ok && rb2.eq_unordered(&rb) && d_real == dump(&t2.state, true).await { weak = true; }
                                }
                            }
                            let Some(pos) = strong else {
                                // a watched non-string key that had changed before EXEC: the recorded WATCH finding, not an isolation question
                                let nonstring_changed = changed.iter().any(|(k, v)| !v.as_deref().map(|s| s.starts_with("string ")).unwrap_or(true) || !cur.get(k).map(|s| s.starts_with("string ")).unwrap_or(true));
                                // with several shards a multi-key command (in the body or the foreign one) is itself a set of
                                // per-shard round trips: the foreign command can land between them, which the placements above
                                // (whole commands only) cannot express — the same missing isolation
                                let fans_out = |c: &Cmd| { let n = String::from_utf8_lossy(&c[0]).to_uppercase(); matches!(n.as_str(), "KEYS" | "DBSIZE" | "SCAN" | "FLUSHDB" | "FLUSHALL") || (matches!(n.as_str(), "DEL" | "EXISTS" | "MGET" | "MSET") && c.len() > 2) };
                                // (the watch check is one round trip per watched key, so a foreign fan-out command can also land
                                // between the checks of two watched keys)
                                let split_across_shards = shards > 1 && (fans_out(&oc) && (body.iter().any(|c| c.len() > 1) || watched.len() >= 2) || body.iter().any(|c| fans_out(c)));
                                // (the missing isolation explains more than the WATCH finding does, so it is asked first: with a fan-out
                                // command in flight a watched key can change and change back around its own check)
                                let key = if weak || split_across_shards { "C05/exec/not-isolated" } else if nonstring_changed && ra != R::Arr(None) { "C05/watch/non-string-key-change-not-detected" } else { "C05/exec/overlap-unexplained" };
                                o.viol = Some((key.into(), format!("EXEC of {:?} with {} in flight: EXEC -> {}, foreign -> {}; no placement of the foreign command before or after the whole transaction explains replies and final state{}", body.iter().map(|c| show_cmd(c)).collect::<Vec<_>>(), show_cmd(&oc), ra.show(), rb.show(), if weak { " (placing it between two queued commands does)" } else { "" })));
                                return o;
                            };
                            // bring the twin along in the order that matched
                            if pos == 0 { let _ = twin.run(&oc).await; }
                            let curx = dump(&twin.state, false).await;
                            let wf = watched.iter().any(|(k, v)| curx.get(k).cloned() != *v);
                            if !(dirty || wf) { for qc in &body { let _ = twin.run(qc).await; } }
                            if pos != 0 { let _ = twin.run(&oc).await; }
                            watched.clear();
                        } else if dirty {
                            o.probes.push("execabort");
                            if ra.err_code() != Some("EXECABORT") { o.viol = Some(("C05/exec-after-queue-time-error-not-aborted".into(), format!("EXEC after a queue-time error replied {}", ra.show()))); return o; }
                            watched.clear();
                        } else if !changed.is_empty() {
                            o.probes.push("exec_aborted_by_watch");
                            if b_wrote_since_watch { o.probes.push("foreign_write_between_watch_and_exec"); }
                            if ra != R::Arr(None) {
                                let (k, v) = changed[0];
                                let nonstring = !v.as_deref().map(|s| s.starts_with("string ")).unwrap_or(true) || !cur.get(k).map(|s| s.starts_with("string ")).unwrap_or(true);
                                let key = if nonstring { "C05/watch/non-string-key-change-not-detected" } else { "C05/watch/change-not-detected" };
                                o.viol = Some((key.into(), format!("watched key {:?} was {:?} at WATCH and is {:?} at EXEC, but EXEC replied {} instead of nil", String::from_utf8_lossy(k), v, cur.get(k), ra.show())));
                                return o;
                            }
                            watched.clear();
                        } else {
                            o.probes.push("exec_applied");
                            if b_wrote_since_watch && !watched.is_empty() { o.probes.push("foreign_write_between_watch_and_exec"); }
                            let mut results = Vec::new();
                            for qc in &body { results.push(twin.run(qc).await); }
                            if !exec_reply_eq(&R::Arr(Some(results.clone())), &ra) {
                                o.viol = Some(("C05/exec-result-differs-from-sequential".into(), format!("EXEC of {:?} replied {} but the same commands run consecutively reply {}", body.iter().map(|c| show_cmd(c)).collect::<Vec<_>>(), ra.show(), R::Arr(Some(results)).show())));
                                return o;
                            }
                            watched.clear();
                        }
                    }
                    _ => {}
                }
                // history for rebuilding twins (plain commands that took effect on the twin, in order)
                // (recorded inside the log with a marker so that o_history can find them)
                // ---- keyspace equality after every step
                let (dr, dt) = (dump(&real, true).await, dump(&twin.state, true).await);
                if dr != dt {
                    let k = dr.keys().chain(dt.keys()).find(|k| dr.get(*k) != dt.get(*k)).cloned().unwrap_or_default();
                    let key = match step { AStep::Body(_) | AStep::BadQueued(_) | AStep::Nested(_) => "C05/queued-command-took-effect", AStep::Discard => "C05/discard-changed-keyspace", AStep::Exec => "C05/exec-keyspace-differs-from-sequential", _ => "C05/keyspace-differs" };
                    o.viol = Some((key.into(), format!("after A's {}: key {:?} is {:?} on the server but {:?} on the sequential twin", show_cmd(&c), String::from_utf8_lossy(&k), dr.get(&k), dt.get(&k))));
                    return o;
                }
            }
            sa.close(); sb.close();
            for _ in 0..20 { if sched.all_done() { break; } let _ = sched.step(src, 0).await; }
            o
        });
        redis_sim::production::verif_hooks::clock::clear();
        let _ = verif_hooks::probe::take();
        rep.trace = out.log.clone();
        if let Some((k, m)) = out.viol { rep.violate(k, m); }
        for p in &out.probes { rep.probe(p); }
        rep.evals = out.evals.max(1);
        if out.probes.contains(&"connection_closed_inside_multi") { rep.fault("connection_closed_inside_multi"); }
        rep.nontrivial = out.probes.contains(&"foreign_write_between_watch_and_exec") || out.probes.contains(&"overlapping_exec") || out.probes.contains(&"connection_closed_inside_multi");
        let mut fp = fnv(0, &[shards as u8, overlap_mode as u8, cut.map(|c| c.0 as u8 + 1).unwrap_or(0)]);
        for s in &a { for x in a_cmd(s) { fp = fnv(fp, &x); fp = fnv(fp, &[0]); } }
        for (p, c) in &bcmds { fp = fnv(fp, &[*p as u8]); for x in c { fp = fnv(fp, x); } }
        rep.fingerprint = fp;
        rep.sample = Some(json!({"shards": shards, "setup": setup.iter().map(|c| show_cmd(c)).collect::<Vec<_>>(), "A": a.iter().map(|s| show_cmd(&a_cmd(s))).collect::<Vec<_>>(), "B": bcmds.iter().map(|(p, c)| format!("before A#{}: {}", p, show_cmd(c))).collect::<Vec<_>>(), "B_in_flight_with_EXEC": overlap_cmd.as_ref().map(|c| show_cmd(c)) }));
        rep
    }
}

/// EXEC replies hold the queued commands' replies; unordered members inside are compared as multisets.
impl C05 {
    fn run_executor_mode(&self, src: &mut Src, ctx: &RunCtx, setup: &[Cmd], a: &[AStep], bcmds: &[(usize, Cmd)]) -> RunReport {
        use crate::props::c17::snapshot;
        use redis_sim::redis::CommandExecutor;
        let mut rep = RunReport::default();
        rep.probe("executor_level_run");
        let b = |x: &str| x.as_bytes().to_vec();
        let mut real = CommandExecutor::new();
        let mut twin = CommandExecutor::new();
        let run = |ex: &mut CommandExecutor, c: &Cmd| -> R { match parse_cmd(c) { Ok(cmd) => R::from_resp(&ex.execute(&cmd)), Err(e) => R::Err(e) } };
        let strip = |m: std::collections::BTreeMap<String, String>| -> std::collections::BTreeMap<String, String> { m.into_iter().map(|(k, v)| { let v2 = v.split(" pttl=").next().unwrap_or("").to_string(); (k, v2) }).collect() };
        for c in setup { let _ = run(&mut real, c); let _ = run(&mut twin, c); }
        let stray: Vec<u64> = (0..a.len()).map(|_| src.below(10)).collect();
        let mut in_multi = false;
        let mut queued: Vec<Cmd> = Vec::new();
        let mut watched: Vec<(String, Option<String>)> = Vec::new();
        let mut fp = fnv(0xE0, &[a.len() as u8]);
        macro_rules! fail { ($k:expr, $m:expr) => {{ rep.violate($k, $m); rep.evals = rep.evals.max(1); rep.fingerprint = fp; return rep; }} }
        for (i, step) in a.iter().enumerate() {
            // the other client's writes land in the gaps where no transaction is open
            for (pos, c) in bcmds.iter().filter(|(p, _)| *p == i) {
                let _ = pos;
                if in_multi { continue; }
                let (ra, rt) = (run(&mut real, c), run(&mut twin, c));
                rep.log(ctx.trace, || format!("B: {} -> {}", show_cmd(c), ra.show()));
                if !ra.eq_unordered(&rt) { fail!("C05/executor/plain-reply-differs", format!("{} replied {} on the executor that had seen WATCH/MULTI traffic and {} on a fresh twin", show_cmd(c), ra.show(), rt.show())); }
                if !watched.is_empty() { rep.probe("foreign_write_between_watch_and_exec"); }
            }
            // a stray EXEC or DISCARD outside MULTI: an error, and the watches stay in force
            if !in_multi && matches!(step, AStep::Multi) && stray[i] < 2 {
                let c = vec![b(if stray[i] == 0 { "EXEC" } else { "DISCARD" })];
                let r = run(&mut real, &c);
                rep.log(ctx.trace, || format!("A: {} (outside MULTI) -> {}", show_cmd(&c), r.show()));
                rep.probe("stray_exec_or_discard_outside_multi");
                if !r.is_err() { fail!("C05/executor/stray-exec-accepted", format!("{} outside MULTI replied {}", show_cmd(&c), r.show())); }
            }
            let c = a_cmd(step);
            fp = fnv(fp, show_cmd(&c).as_bytes());
            match step {
                AStep::BadQueued(_) => continue, // rejected by the parser: never reaches an executor
                AStep::Watch(ks) if !in_multi => {
                    let r = run(&mut real, &c);
                    rep.log(ctx.trace, || format!("A: {} -> {}", show_cmd(&c), r.show()));
                    if r != R::ok() { fail!("C05/executor/watch-reply", format!("{} replied {}", show_cmd(&c), r.show())); }
                    let cur = strip(snapshot(&mut twin));
                    for k in ks { let k = String::from_utf8_lossy(k).into_owned(); watched.push((k.clone(), cur.get(&k).cloned())); }
                }
                AStep::Unwatch if !in_multi => { let _ = run(&mut real, &c); watched.clear(); }
                AStep::Multi => {
                    let r = run(&mut real, &c);
                    rep.log(ctx.trace, || format!("A: MULTI -> {}", r.show()));
                    if in_multi { if !r.is_err() { fail!("C05/executor/nested-multi-accepted", format!("MULTI inside MULTI replied {}", r.show())); } }
                    else { if r != R::ok() { fail!("C05/executor/multi-reply", format!("MULTI replied {}", r.show())); } in_multi = true; queued.clear(); }
                }
                AStep::Nested(_) | AStep::Watch(_) | AStep::Unwatch if in_multi => {
                    let r = run(&mut real, &c);
                    rep.log(ctx.trace, || format!("A: {} (inside MULTI) -> {}", show_cmd(&c), r.show()));
                    let name = String::from_utf8_lossy(&c[0]).to_uppercase();
                    if name == "UNWATCH" { if r == R::Simple("QUEUED".into()) { queued.push(c.clone()); } }
                    else if !r.is_err() { fail!("C05/executor/nested-accepted", format!("{} inside MULTI replied {}", show_cmd(&c), r.show())); }
                }
                AStep::Body(_) | AStep::Plain(_) | AStep::Nested(_) | AStep::Watch(_) | AStep::Unwatch => {
                    if in_multi {
                        if parse_cmd(&c).is_err() { continue; } // rejected by the parser: never reaches the executor
                        let r = run(&mut real, &c);
                        rep.log(ctx.trace, || format!("A: {} -> {}", show_cmd(&c), r.show()));
                        if r != R::Simple("QUEUED".into()) { fail!("C05/executor/queued-command-answered", format!("{} inside MULTI replied {} instead of QUEUED", show_cmd(&c), r.show())); }
                        queued.push(c.clone());
                    } else {
                        let (ra, rt) = (run(&mut real, &c), run(&mut twin, &c));
                        rep.log(ctx.trace, || format!("A: {} -> {}", show_cmd(&c), ra.show()));
                        if !ra.eq_unordered(&rt) { fail!("C05/executor/plain-reply-differs", format!("{} replied {} but {} on the twin", show_cmd(&c), ra.show(), rt.show())); }
                    }
                }
                AStep::Discard => {
                    let r = run(&mut real, &c);
                    rep.log(ctx.trace, || format!("A: DISCARD -> {}", r.show()));
                    if in_multi { if r != R::ok() { fail!("C05/executor/discard-reply", format!("DISCARD replied {}", r.show())); } in_multi = false; queued.clear(); watched.clear(); rep.probe("discard"); }
                    else if !r.is_err() { fail!("C05/executor/stray-exec-accepted", format!("DISCARD outside MULTI replied {}", r.show())); }
                }
                AStep::Exec => {
                    let r = run(&mut real, &c);
                    rep.log(ctx.trace, || format!("A: EXEC -> {}", r.show()));
                    rep.evals += 1;
                    if !in_multi { if !r.is_err() { fail!("C05/executor/stray-exec-accepted", format!("EXEC outside MULTI replied {}", r.show())); } continue; }
                    in_multi = false;
                    let cur = strip(snapshot(&mut twin));
                    let changed: Vec<&(String, Option<String>)> = watched.iter().filter(|(k, v)| cur.get(k).cloned() != *v).collect();
                    let body = std::mem::take(&mut queued);
                    if !changed.is_empty() {
                        rep.probe("exec_aborted_by_watch");
                        let (k, v) = changed[0];
                        if !matches!(r, R::Bulk(None) | R::Arr(None)) { fail!("C05/executor/watch-change-not-detected", format!("watched key {:?} was {:?} at WATCH and is {:?} at EXEC, but EXEC replied {} instead of nil", k, v, cur.get(k), r.show())); }
                    } else {
                        rep.probe("exec_applied");
                        let results: Vec<R> = body.iter().map(|qc| run(&mut twin, qc)).collect();
                        if !exec_reply_eq(&R::Arr(Some(results.clone())), &r) { fail!("C05/executor/exec-result-differs-from-sequential", format!("EXEC of {:?} replied {} but the same commands run consecutively reply {}", body.iter().map(|c| show_cmd(c)).collect::<Vec<_>>(), r.show(), R::Arr(Some(results)).show())); }
                    }
                    watched.clear();
                }
            }
            if !in_multi {
                let (sr, st) = (strip(snapshot(&mut real)), strip(snapshot(&mut twin)));
                if sr != st {
                    let k = sr.keys().chain(st.keys()).find(|k| sr.get(*k) != st.get(*k)).cloned().unwrap_or_default();
                    fail!("C05/executor/state-differs-from-sequential", format!("after {}: key {:?} is {:?} but {:?} when the same commands run without MULTI", show_cmd(&c), k, sr.get(&k), st.get(&k)));
                }
            }
        }
        rep.evals = rep.evals.max(1);
        rep.nontrivial = rep.probes.contains_key("foreign_write_between_watch_and_exec");
        rep.fingerprint = fp;
        rep.sample = Some(json!({"mode": "executor-level", "script": a.iter().map(|s| show_cmd(&a_cmd(s))).collect::<Vec<_>>()}));
        rep
    }
}

fn exec_reply_eq(expect: &R, got: &R) -> bool {
    match (expect, got) {
        (R::Arr(Some(a)), R::Arr(Some(b))) => a.len() == b.len() && a.iter().zip(b.iter()).all(|(x, y)| x.eq_unordered(y)),
        _ => expect == got,
    }
}

