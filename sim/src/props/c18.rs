//! C18 — anti-entropy: equal digests iff equal states; a sync leaves both sides merged.
//!
//! Real code: StateDigest::from_state / differs_from / divergent_buckets, KeyDigest, MerkleNode,
//! AntiEntropyManager::get_keys_in_buckets and the repo's own MultiNodeSimulation::
//! run_anti_entropy_sync. States are built independently: the same multiset of deltas reaches two
//! ShardReplicaStates (each with its own fresh HashMap, hence its own iteration order) in different
//! orders; unequal pairs come from withholding deltas from one side.

use crate::model::crdt::proj_s;
use crate::simkit::runner::{Property, RunCtx, RunReport, Tier};
use crate::simkit::tape::{fnv, Src};
use redis_sim::redis::SDS;
use redis_sim::replication::anti_entropy::{AntiEntropyConfig, AntiEntropyManager, KeyDigest, StateDigest};
use redis_sim::replication::lattice::ReplicaId;
use redis_sim::replication::state::{ReplicatedValue, ReplicationDelta, ShardReplicaState};
use redis_sim::replication::ConsistencyLevel;
use redis_sim::simulator::multi_node::MultiNodeSimulation;
use serde_json::json;
use std::collections::{BTreeMap, BTreeSet, HashMap};

pub struct C18;

fn proj_state(m: &HashMap<String, ReplicatedValue>) -> BTreeMap<String, String> { m.iter().map(|(k, v)| (k.clone(), proj_s(v))).collect() }

impl Property for C18 {
    fn id(&self) -> &'static str { "C18" }
    fn level(&self) -> &'static str { "exploration" }
    fn rule(&self) -> &'static str {
        "1-400 keys (so that buckets at depth 2/4/8 hold several keys) written by 2-3 real ShardReplicaState replicas (strings, hashes with disjoint fields from different replicas, tombstones, expiry); the full multiset of deltas is applied to two fresh replica states in different tape-chosen orders (equal pair) and, with tape-chosen deltas withheld from one side, gives unequal pairs; digests are compared with the projections' equality. Then the two states are loaded into the repo's MultiNodeSimulation and run_anti_entropy_sync is repeated with max_keys_per_sync in {1,2,5,1000}. Non-trivial = some bucket holds >= 2 keys; distinct = (delta multiset, orders, withheld set)"
    }
    fn components_real(&self) -> Vec<&'static str> { vec!["replication::anti_entropy::{StateDigest::from_state, differs_from, divergent_buckets, KeyDigest::new, MerkleNode}", "AntiEntropyManager::get_keys_in_buckets", "simulator::multi_node::MultiNodeSimulation::run_anti_entropy_sync (the repo's own sync routine)", "ShardReplicaState::apply_remote_delta"] }
    fn components_stubbed(&self) -> Vec<&'static str> { vec!["no network: digests and deltas are handed over in memory, as the repo's routine does"] }
    fn assumptions(&self) -> Vec<&'static str> { vec!["'equal digests => equal states' is checked up to 64-bit hash collision, which cannot occur by chance at these sizes; 'equal states => equal digests' is exact"] }
    fn required_probes(&self) -> Vec<&'static str> { vec!["bucket_with_2plus_keys", "equal_pair_checked", "unequal_pair_checked", "crosswise_pair_checked", "sync_needed_multiple_rounds", "both_sides_lack_updates", "manager_driven_exchange"] }
    fn runs(&self, tier: Tier) -> u64 { match tier { Tier::Quick => 18000, Tier::Thorough => 1000000 } }

    fn run(&self, src: &mut Src, ctx: &RunCtx) -> RunReport {
        let mut rep = RunReport::default();
        let nkeys = *src.pick(&[2usize, 1, 5, 40, 400, 12]);
        let depth = *src.pick(&[8usize, 2, 4]);
        // now and then a tree deeper than any plausible built-in cap
        let depth = if src.chance(1, 12) { 14 } else { depth };
        if depth > 12 { rep.probe("merkle_depth_over_12"); }
        let nrep = 2 + src.below(2) as usize;
        let mut writers: Vec<ShardReplicaState> = (0..nrep).map(|i| ShardReplicaState::new(ReplicaId::new(i as u64 + 1), ConsistencyLevel::Eventual)).collect();
        let mut deltas: Vec<ReplicationDelta> = Vec::new();
        // every key gets one write; extra tape-chosen ops add overwrites, hashes, deletes
        for k in 0..nkeys { let r = k % nrep; deltas.push(writers[r].record_write(format!("key:{}", k), SDS::from_str(&format!("v{}", k)), None)); }
        let extra = src.list(24, 11, 12, |s| (s.below(6), s.idx(nrep), s.idx(nkeys), s.below(3)));
        let mut u = 0u64;
        for (op, r, k, a) in extra {
            u += 1;
            let key = format!("key:{}", k);
            let hkey = format!("hash:{}", k % 7);
            let d = match op {
                0 => Some(writers[r].record_write(key, SDS::from_str(&format!("w{}", u)), None)),
                1 => writers[r].record_delete(key),
                2 | 3 => Some(writers[r].record_hash_write(hkey, vec![(format!("f{}", a + r as u64 * 3), SDS::from_str(&format!("h{}", u)))])),
                4 => writers[r].record_hash_delete(hkey, vec![format!("f{}", a + r as u64 * 3)]),
                _ => Some(writers[r].record_write(key, SDS::from_str(&format!("e{}", u)), Some(1_000_000 + u))),
            };
            if let Some(d) = d { deltas.push(d); }
        }
        let n = deltas.len();
        // two independent builds of the same content
        let mut order_b: Vec<usize> = (0..n).collect();
        for i in (1..n).rev() { if i < 64 || src.chance(1, 4) { let j = src.idx(i + 1); order_b.swap(i, j); } }
        let mut a = ShardReplicaState::new(ReplicaId::new(8), ConsistencyLevel::Eventual);
        let mut b = ShardReplicaState::new(ReplicaId::new(9), ConsistencyLevel::Eventual);
        for d in &deltas { a.apply_remote_delta(d.clone()); }
        for i in &order_b { b.apply_remote_delta(deltas[*i].clone()); }
        let da = StateDigest::from_state(&a.replicated_keys, a.replica_id, 0, depth);
        let db = StateDigest::from_state(&b.replicated_keys, b.replica_id, 0, depth);
        // bucket population
        let mut pop: BTreeMap<usize, usize> = BTreeMap::new();
        for (k, v) in &a.replicated_keys { *pop.entry(KeyDigest::new(k, v).bucket(depth)).or_insert(0) += 1; }
        let crowded = pop.values().any(|c| *c >= 2);
        if crowded { rep.probe("bucket_with_2plus_keys"); }
        let (pa, pb) = (proj_state(&a.replicated_keys), proj_state(&b.replicated_keys));
        rep.evals = 1;
        rep.log(ctx.trace, || format!("{} keys, depth {}, {} deltas, {} buckets hold >= 2 keys", a.replicated_keys.len(), depth, n, pop.values().filter(|c| **c >= 2).count()));
        if pa == pb {
            rep.probe("equal_pair_checked");
            if da.differs_from(&db) || !da.divergent_buckets(&db).is_empty() {
                let bk = da.divergent_buckets(&db);
                let multi = bk.iter().any(|x| pop.get(x).copied().unwrap_or(0) >= 2);
                rep.violate(if multi { "C18/equal-states-differ/bucket-fold-order" } else { "C18/equal-states-differ/other" },
                    format!("two replicas built from the same {} deltas in different orders hold equal states ({} keys) but differs_from() = {} and divergent_buckets() = {:?} (keys per such bucket: {:?})", n, pa.len(), da.differs_from(&db), bk, bk.iter().map(|x| pop.get(x).copied().unwrap_or(0)).collect::<Vec<_>>()));
            }
        }
        // unequal pair of another kind: two writers set the same two keys to their own value at the same logical time (a
        // shard has a clock of its own, so one replica does issue one stamp for keys of different shards); one replica has
        // heard of key x from writer 1 and of key y from writer 2, the other the other way round. Same keys, the same
        // multiset of stamped values, held crosswise: the states differ, so must the digests
        if rep.violations.is_empty() && a.replicated_keys.len() >= 2 && src.chance(1, 3) {
            let names: Vec<&String> = { let mut v: Vec<&String> = a.replicated_keys.keys().collect(); v.sort(); v };
            // prefer two keys of one bucket
            let mut by_bucket: BTreeMap<usize, Vec<&String>> = BTreeMap::new();
            for k in &names { by_bucket.entry(KeyDigest::new(k, &a.replicated_keys[*k]).bucket(depth)).or_default().push(k); }
            let pair: Option<(&String, &String)> = by_bucket.values().find(|v| v.len() >= 2).map(|v| (v[0], v[1])).or_else(|| Some((names[0], names[1])));
            if let Some((kx, ky)) = pair {
                let t = 1_000_000 + src.below(1000);
                let mk = |k: &String, val: &str, r: u64| ReplicationDelta::new(k.clone(), redis_sim::replication::state::ReplicatedValue::with_value(SDS::from_str(val), redis_sim::replication::lattice::LamportClock { time: t, replica_id: ReplicaId::new(r) }), ReplicaId::new(r));
                let mut x = ShardReplicaState::new(ReplicaId::new(11), ConsistencyLevel::Eventual);
                let mut y = ShardReplicaState::new(ReplicaId::new(12), ConsistencyLevel::Eventual);
                for d in &deltas { x.apply_remote_delta(d.clone()); y.apply_remote_delta(d.clone()); }
                x.apply_remote_delta(mk(kx, "on", 1)); x.apply_remote_delta(mk(ky, "off", 2));
                y.apply_remote_delta(mk(kx, "off", 2)); y.apply_remote_delta(mk(ky, "on", 1));
                let (dx, dy) = (StateDigest::from_state(&x.replicated_keys, x.replica_id, 0, depth), StateDigest::from_state(&y.replicated_keys, y.replica_id, 0, depth));
                rep.evals += 1;
                rep.probe("crosswise_pair_checked");
                if proj_state(&x.replicated_keys) != proj_state(&y.replicated_keys) && !dx.differs_from(&dy) {
                    rep.violate("C18/false-in-sync/values-held-crosswise", format!("replica x holds {}=on@({},r1) {}=off@({},r2), replica y holds them the other way round (everything else equal, depth {}): the states differ but the digests are equal: a false 'in sync'", kx, t, ky, t, depth));
                }
            }
        }
        // unequal pair: withhold tape-chosen deltas from c
        let withheld: BTreeSet<usize> = src.list(3, 3, 4, |s| s.idx(n)).into_iter().collect();
        let mut c = ShardReplicaState::new(ReplicaId::new(10), ConsistencyLevel::Eventual);
        for (i, d) in deltas.iter().enumerate() { if !withheld.contains(&i) { c.apply_remote_delta(d.clone()); } }
        let dc = StateDigest::from_state(&c.replicated_keys, c.replica_id, 0, depth);
        let pc = proj_state(&c.replicated_keys);
        rep.evals += 1;
        let differing: Vec<&String> = pa.keys().chain(pc.keys()).collect::<BTreeSet<_>>().into_iter().filter(|k| pa.get(*k) != pc.get(*k)).collect();
        if !differing.is_empty() {
            rep.probe("unequal_pair_checked");
            let known_order = ctx.known("C18/equal-states-differ/bucket-fold-order");
            if !da.differs_from(&dc) {
                let k = differing[0];
                let is_hash = a.replicated_keys.get(k).map(|v| v.is_hash()).unwrap_or(false) || c.replicated_keys.get(k).map(|v| v.is_hash()).unwrap_or(false);
                rep.violate(if is_hash { "C18/false-in-sync/hash-fields-not-hashed" } else { "C18/false-in-sync/other" },
                    format!("states differ on {:?} (e.g. {}: {} vs {}) but the digests are equal: a false 'in sync'", differing, k, pa.get(k).cloned().unwrap_or_default(), pc.get(k).cloned().unwrap_or_default()));
            } else if !known_order {
                let bk: BTreeSet<usize> = da.divergent_buckets(&dc).into_iter().collect();
                for k in &differing {
                    let v = a.replicated_keys.get(*k).or_else(|| c.replicated_keys.get(*k)).unwrap();
                    let bu = KeyDigest::new(k, v).bucket(depth);
                    if !bk.contains(&bu) {
                        let is_hash = v.is_hash();
                        rep.violate(if is_hash { "C18/divergent-bucket-missed/hash-fields-not-hashed" } else { "C18/divergent-bucket-missed/other" }, format!("key {} differs ({} vs {}) but its bucket {} is not among divergent_buckets() {:?}", k, pa.get(*k).cloned().unwrap_or_default(), pc.get(*k).cloned().unwrap_or_default(), bu, bk));
                        break;
                    }
                }
            }
        }
        // ---- sync through the repo's own routine
        if rep.violations.iter().all(|v| ctx.known(&v.key)) && !differing.is_empty() {
            let limit = *src.pick(&[1000usize, 1, 2, 5]);
            let mut sim = MultiNodeSimulation::new_without_anti_entropy(2, 7);
            for node in sim.nodes.iter_mut() { node.anti_entropy.config.max_keys_per_sync = limit; node.anti_entropy.config.merkle_tree_depth = depth; }
            // both sides may lack something the other holds (a healed split brain), not only node 1
            let withheld0: BTreeSet<usize> = if src.chance(1, 2) { src.list(3, 3, 4, |s| s.idx(n)).into_iter().filter(|i| !withheld.contains(i)).collect() } else { BTreeSet::new() };
            if !withheld0.is_empty() { rep.probe("both_sides_lack_updates"); }
            sim.nodes[0].apply_remote_deltas(deltas.iter().enumerate().filter(|(i, _)| !withheld0.contains(i)).map(|(_, d)| d.clone()).collect());
            sim.nodes[1].apply_remote_deltas(deltas.iter().enumerate().filter(|(i, _)| !withheld.contains(i)).map(|(_, d)| d.clone()).collect());
            // expected: per key merge of both prior states
            let mut want: BTreeMap<String, String> = BTreeMap::new();
            let (s0, s1) = (sim.nodes[0].replica_state.replicated_keys.clone(), sim.nodes[1].replica_state.replicated_keys.clone());
            for k in s0.keys().chain(s1.keys()) { let m = match (s0.get(k), s1.get(k)) { (Some(x), Some(y)) => x.merge(y), (Some(x), None) => x.clone(), (None, Some(y)) => y.clone(), _ => unreachable!() }; want.insert(k.clone(), proj_s(&m)); }
            // keys that live in divergent buckets
            let d0 = sim.nodes[0].generate_digest(); let d1 = sim.nodes[1].generate_digest();
            let bk: BTreeSet<usize> = d0.divergent_buckets(&d1).into_iter().collect();
            let in_div = |k: &String, v: &ReplicatedValue| bk.contains(&KeyDigest::new(k, v).bucket(depth));
            let keys_in_div: usize = s0.iter().filter(|(k, v)| in_div(k, v)).count().max(s1.iter().filter(|(k, v)| in_div(k, v)).count());
            // when the per-round limit does not bind, ONE exchange must leave both sides with the merge
            let rounds_allowed = if keys_in_div <= limit { 1 } else { keys_in_div.div_ceil(limit).max(bk.len()) + 2 };
            if keys_in_div > limit { rep.probe("sync_needed_multiple_rounds"); }
            let mut rounds = 0;
            let mut synced = false;
            while rounds < rounds_allowed {
                rounds += 1;
                sim.run_anti_entropy_sync(0, 1);
                let (x, y) = (proj_state(&sim.nodes[0].replica_state.replicated_keys), proj_state(&sim.nodes[1].replica_state.replicated_keys));
                if x == y { synced = true; break; }
            }
            rep.evals += 1;
            let (x, y) = (proj_state(&sim.nodes[0].replica_state.replicated_keys), proj_state(&sim.nodes[1].replica_state.replicated_keys));
            if !synced {
                let stuck: Vec<&String> = x.keys().chain(y.keys()).collect::<BTreeSet<_>>().into_iter().filter(|k| x.get(*k) != y.get(*k)).collect();
                let key = if keys_in_div > limit { "C18/sync-never-completes/per-round-limit-takes-same-keys" } else { "C18/sync-incomplete" };
                rep.violate(key, format!("after {} rounds of run_anti_entropy_sync (max_keys_per_sync = {}, {} keys in divergent buckets) the nodes still differ on {:?}", rounds, limit, keys_in_div, stuck.iter().take(5).collect::<Vec<_>>()));
            } else {
                for (k, w) in &want {
                    if x.get(k) != Some(w) {
                        rep.violate("C18/sync-result-not-merge", format!("after sync key {} is {} but the merge of the prior states is {}", k, x.get(k).cloned().unwrap_or_default(), w));
                        break;
                    }
                }
                let (e0, e1) = (sim.nodes[0].generate_digest(), sim.nodes[1].generate_digest());
                if e0.differs_from(&e1) && !ctx.known("C18/equal-states-differ/bucket-fold-order") {
                    rep.violate("C18/equal-states-differ/after-sync", "states are equal after sync but digests still differ: perpetual false 'divergent'".to_string());
                }
            }
        }
        // ---- the manager-driven exchange (digest -> sync request -> sync response), in both directions per
        // round, across a restart of one peer: a fresh manager (generation back at 0), part of its state lost,
        // one new write. Both sides must end with the merge of what they held, in finitely many rounds.
        if rep.violations.iter().all(|v| ctx.known(&v.key)) && !differing.is_empty() {
            let limit = *src.pick(&[1000usize, 1, 2, 5]);
            let restart = src.chance(1, 2);
            let cfg = AntiEntropyConfig { max_keys_per_sync: limit, merkle_tree_depth: depth, ..AntiEntropyConfig::default() };
            let (ra, rb) = (ReplicaId::new(8), ReplicaId::new(9));
            let mut sa = ShardReplicaState::new(ra, ConsistencyLevel::Eventual);
            let mut sb = ShardReplicaState::new(rb, ConsistencyLevel::Eventual);
            for d in &deltas { sa.apply_remote_delta(d.clone()); }
            for (i, d) in deltas.iter().enumerate() { if !withheld.contains(&i) { sb.apply_remote_delta(d.clone()); } }
            let mut ma = AntiEntropyManager::new(ra, cfg.clone());
            let mut mb = AntiEntropyManager::new(rb, cfg.clone());
            for _ in 0..(1 + src.below(4)) { mb.on_local_write(); }
            let mut now = 0u64;
            let mut phase = 0;
            loop {
                let want: BTreeMap<String, String> = { let mut w = BTreeMap::new(); for k in sa.replicated_keys.keys().chain(sb.replicated_keys.keys()) { let m = match (sa.replicated_keys.get(k), sb.replicated_keys.get(k)) { (Some(x), Some(y)) => x.merge(y), (Some(x), None) => x.clone(), (None, Some(y)) => y.clone(), _ => unreachable!() }; w.insert(k.clone(), proj_s(&m)); } w };
                let nk = sa.replicated_keys.len().max(sb.replicated_keys.len());
                let rounds_allowed = nk.div_ceil(limit.max(1)) * 2 + (1usize << depth.min(8)) + 4;
                let mut rounds = 0; let mut synced = false;
                while rounds < rounds_allowed {
                    rounds += 1; now += 1000;
                    for dir in 0..2 {
                        let (ms, ss, mo, so) = if dir == 0 { (&mut ma, &mut sa, &mut mb, &sb) } else { (&mut mb, &mut sb, &mut ma, &sa) };
                        let mine = ms.generate_digest(&ss.replicated_keys);
                        let theirs = mo.generate_digest(&so.replicated_keys);
                        let peer = theirs.replica_id;
                        if let Some(buckets) = ms.process_peer_digest(theirs, &mine) {
                            let req = ms.create_sync_request(peer, mine, Some(buckets), now);
                            let resp = mo.handle_sync_request(req, &so.replicated_keys);
                            for d in resp.deltas { ss.apply_remote_delta(d); }
                        } else if proj_state(&ss.replicated_keys) != proj_state(&so.replicated_keys) {
                            rep.violate("C18/manager/false-in-sync", format!("{} compares its digest with {}'s and sees no divergence although the states differ ({} vs {} keys; peer restarted: {})", if dir == 0 { "r8" } else { "r9" }, if dir == 0 { "r9" } else { "r8" }, ss.replicated_keys.len(), so.replicated_keys.len(), phase == 1));
                        }
                    }
                    if !rep.violations.iter().all(|v| ctx.known(&v.key)) { break; }
                    if proj_state(&sa.replicated_keys) == proj_state(&sb.replicated_keys) { synced = true; break; }
                }
                rep.evals += 1;
                rep.probe("manager_driven_exchange");
                if !rep.violations.iter().all(|v| ctx.known(&v.key)) { break; }
                let (x, y) = (proj_state(&sa.replicated_keys), proj_state(&sb.replicated_keys));
                if !synced {
                    let stuck: Vec<&String> = x.keys().chain(y.keys()).collect::<BTreeSet<_>>().into_iter().filter(|k| x.get(*k) != y.get(*k)).collect();
                    rep.violate("C18/manager/sync-never-completes", format!("after {} request/response rounds in both directions (max_keys_per_sync = {}, depth {}) the two replicas still differ on {:?}", rounds, limit, depth, stuck.iter().take(5).collect::<Vec<_>>()));
                    break;
                }
                if x != want { let k = want.keys().find(|k| x.get(*k) != want.get(*k)).cloned().unwrap_or_default(); rep.violate("C18/manager/sync-result-not-merge", format!("after the exchange key {} is {} but the merge of the prior states is {}", k, x.get(&k).cloned().unwrap_or_default(), want.get(&k).cloned().unwrap_or_default())); break; }
                if phase == 1 || !restart { break; }
                // ---- r9 restarts: new manager, some of its keys gone, one new local write
                phase = 1;
                rep.fault("peer_restarted_with_partial_state");
                let keep: Vec<(String, ReplicatedValue)> = { let mut ks: Vec<(String, ReplicatedValue)> = sb.replicated_keys.iter().map(|(k, v)| (k.clone(), v.clone())).collect(); ks.sort_by(|a, b| a.0.cmp(&b.0)); ks.into_iter().enumerate().filter(|(i, _)| i % 3 != 1).map(|(_, kv)| kv).collect() };
                sb = ShardReplicaState::new(rb, ConsistencyLevel::Eventual);
                for (k, v) in keep { sb.apply_remote_delta(ReplicationDelta::new(k, v, rb)); }
                let _ = sb.record_write("fresh-after-restart".to_string(), SDS::from_str("new"), None);
                mb = AntiEntropyManager::new(rb, cfg.clone());
            }
        }
        rep.nontrivial = crowded;
        let mut fp = fnv(0, &[nkeys as u8, (nkeys >> 8) as u8, depth as u8, nrep as u8]);
        for d in &deltas { fp = fnv(fp, d.key.as_bytes()); fp = fnv(fp, &d.value.timestamp.time.to_le_bytes()); }
        for i in order_b.iter().take(64) { fp = fnv(fp, &[*i as u8]); }
        for w in &withheld { fp = fnv(fp, &[*w as u8, 0xee]); }
        rep.fingerprint = fp;
        rep.sample = Some(json!({"keys": nkeys, "depth": depth, "deltas": n, "withheld_from_second_replica": withheld, "buckets_with_2plus_keys": pop.values().filter(|c| **c >= 2).count(), "first_deltas": deltas.iter().take(4).map(|d| format!("{} @({},{})", d.key, d.value.timestamp.time, d.value.timestamp.replica_id.0)).collect::<Vec<_>>() }));
        rep
    }
}
