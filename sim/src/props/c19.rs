//! C19 — key placement is a function of membership; selective gossip reaches every owner.
//!
//! Cluster simulation in partitioned mode. Every node of a pool of 1-9 replica ids owns its *own*
//! real `HashRing` (never shared) and its own real `GossipRouter`, built one of three ways:
//! inside a real `GossipState` via `GossipRouter::new` (+ `set_router` on membership change),
//! stand-alone via `new` + `update_peer`/`remove_peer`, or via `GossipRouter::from_config`.
//! Membership events (join / leave, incl. leave-then-rejoin and redundant events) are issued
//! globally and delivered to each node in a *different, tape-chosen order* (only events about the
//! same id keep their relative order, so that all views converge at the end); between deliveries
//! nodes route batches of updates with `GossipState::queue_deltas`/`drain_outbound` or
//! `GossipRouter::route_deltas`/`route_with_stats`; the resulting `TargetedDelta` messages are
//! serialised, reordered, delayed and duplicated by a simulated network, and deserialised at the
//! target.
//!
//! Oracles (nothing about *which* node owns a key is assumed — no reference hash):
//!  * after every membership delivery at node i: for every key, `get_replicas` on i's ring (built
//!    by i's own add/remove history) equals `get_replicas` on a fresh ring built by
//!    `HashRing::new(sorted view_i)`; length == min(RF, |view_i|); members distinct and inside
//!    view_i; same with a per-run RF override through `get_replicas_with_rf`;
//!    `get_gossip_targets(k, s)` == `get_replicas(k)` minus s;
//!  * on add/remove of X at node i: a key whose list changed must contain X afterwards (add) /
//!    must have contained X before (remove);
//!  * for every routed batch from sender s: the set of targets that were handed delta d equals
//!    `get_replicas(d.key)` on s's own ring minus s — exactly; no broadcast message in selective mode;
//!    envelope target == message target, message source == s;
//!  * end of run, after all views converged and every node routed every key once more and the
//!    network drained: every update was received by exactly the owners (other than the sender) that
//!    the sender's ring named when it was routed; updates routed after convergence are accepted as
//!    "mine" by the receiver's own ring (`is_responsible`).

use crate::simkit::runner::{Property, RunCtx, RunReport, Tier};
use crate::simkit::tape::{fnv, Src};
use redis_sim::redis::SDS;
use redis_sim::replication::{
    GossipMessage, GossipRouter, GossipState, HashRing, LamportClock, ReplicaId, ReplicatedValue, ReplicationConfig, ReplicationDelta,
};
use serde_json::json;
use std::collections::hash_map::DefaultHasher;
use std::collections::{BTreeMap, BTreeSet, HashMap};
use std::hash::{Hash, Hasher};
use std::sync::{Arc, RwLock};

pub struct C19;

const K_ORDER: &str = "C19/placement/depends-on-join-order";
const K_LEN: &str = "C19/placement/length-not-min-rf-size";
const K_DUP: &str = "C19/placement/duplicate-member";
const K_NONMEMBER: &str = "C19/placement/non-member-in-list";
const K_RF_ORDER: &str = "C19/placement-rf-override/depends-on-join-order";
const K_RF_LEN: &str = "C19/placement-rf-override/length-not-min-rf-size";
const K_RF_DUP: &str = "C19/placement-rf-override/duplicate-member";
const K_TARGETS: &str = "C19/targets/not-replicas-minus-sender";
const K_DISR_ADD: &str = "C19/disruption/add-changed-key-that-did-not-gain-node";
const K_DISR_REM: &str = "C19/disruption/remove-changed-key-that-did-not-hold-node";
const K_STARVED_FC_NEXT: &str = "C19/route/owner-starved/from-config-skips-next-id";
const K_STARVED_FC_OTHER: &str = "C19/route/owner-starved/from-config-no-address";
const K_STARVED_NOADDR: &str = "C19/route/owner-starved/peer-address-lost";
const K_STARVED: &str = "C19/route/owner-starved/has-address";
const K_TO_SENDER: &str = "C19/route/sent-to-sender";
const K_NON_OWNER: &str = "C19/route/non-owner-target";
const K_BROADCAST: &str = "C19/route/broadcast-in-selective-mode";
const K_FIELDS: &str = "C19/route/message-fields-mismatch";
const K_NOT_SELECTIVE: &str = "C19/route/router-not-selective";
const K_UNDECODABLE: &str = "C19/delivery/message-undecodable";
const K_OWNER_MISSING: &str = "C19/delivery/owner-never-received-update";
const K_NON_OWNER_RECV: &str = "C19/delivery/non-owner-received-update";
const K_RECV_NOT_RESP: &str = "C19/delivery/receiver-ring-disowns-update-after-convergence";

/// Replica ids used when the pool is not 1..n: small, adjacent, byte/word boundaries, extremes.
const ID_TABLE: [u64; 15] = [7, 0, 1, 2, 3, 255, 256, 65_535, 65_536, 1 << 32, (1 << 32) + 1, u64::MAX, u64::MAX - 1, 1_000_003, 42];
const VNODES: [u32; 10] = [1, 2, 3, 5, 8, 16, 40, 100, 150, 200];

// Replica of the ring's position hashes (std DefaultHasher). Used ONLY to choose interesting input
// keys and to count the `key_beyond_last_vnode` probe — never to predict an owner.
fn vpos(id: u64, i: u32) -> u64 { let mut h = DefaultHasher::new(); id.hash(&mut h); i.hash(&mut h); h.finish() }
fn kpos(key: &str) -> u64 { let mut h = DefaultHasher::new(); key.hash(&mut h); h.finish() }

/// Keys are shown in messages in full up to 48 bytes, longer ones as prefix + length.
fn kd(k: &str) -> String { if k.len() <= 48 { format!("{:?}", k) } else { let mut e = 24; while !k.is_char_boundary(e) { e -= 1; } format!("{:?}…(len {})", &k[..e], k.len()) } }
fn addr(id: u64) -> String { format!("node-{}.cluster:7000", id) }
fn ids(v: &[ReplicaId]) -> Vec<u64> { v.iter().map(|r| r.0).collect() }

#[derive(Clone, Copy, PartialEq, Eq, Debug)]
enum Mode { StateNew, Standalone, FromConfig }

#[derive(Clone, Copy, Debug)]
struct MEv { add: bool, id: u64 }

struct Node {
    id: u64,
    ring: Arc<RwLock<HashRing>>,
    view: BTreeSet<u64>,
    /// how this node's ring came to be: initial `new([..])` order, then adds/removes
    init_order: Vec<u64>,
    hist: Vec<MEv>,
    mode: Mode,
    /// router was built by from_config and not yet replaced
    fc_active: bool,
    gs: Option<GossipState>,
    router: Option<GossipRouter>,
    pending: Vec<usize>,
    removed_once: BTreeSet<u64>,
    /// peers whose address this node's stand-alone router has lost (connection down) while they stay on the ring
    addr_dropped: BTreeSet<u64>,
}

struct Flight { from: u64, to: u64, bytes: Vec<u8>, converged: bool }

struct Upd { key: String, sender: u64, expect: BTreeSet<u64>, owners: Vec<u64>, sender_view: Vec<u64> }

struct World {
    rf: usize,
    vnodes: u32,
    rf2: usize,
    self_in_peers: bool,
    keys: Vec<String>,
    wrap_keys: BTreeSet<String>,
    nodes: Vec<Node>,
    pool: Vec<u64>,
    fresh: BTreeMap<Vec<u64>, HashRing>,
    flights: Vec<Flight>,
    upds: BTreeMap<u64, Upd>,
    received: BTreeMap<u64, BTreeSet<u64>>,
    next_uid: u64,
    fp: u64,
    stop: bool,
    seen_keys: BTreeSet<String>,
    fp_ring_n: u32,
    fp_route_n: u32,
    /// this run routes some batches while another OS thread holds the ring's write lock
    lock_probe: bool,
    /// (heartbeats queued before a batch, heartbeats between its two halves) when this run lets gossip pile up
    backlog: Option<(usize, usize)>,
}

impl World {
    fn viol(&mut self, rep: &mut RunReport, ctx: &RunCtx, key: &str, msg: String) {
        if !ctx.known(key) { self.stop = true; }
        if self.seen_keys.insert(key.to_string()) {
            rep.log(ctx.trace, || format!("!! {}: {}", key, msg));
            rep.violate(key, msg);
        }
    }

    fn cfg_line(&self) -> String { format!("RF={} vnodes/node={}", self.rf, self.vnodes) }

    fn describe_ring(&self, n: usize) -> String {
        let nd = &self.nodes[n];
        let mut s = format!("HashRing::new({:?}, {}, {})", nd.init_order, self.vnodes, self.rf);
        for e in &nd.hist { s.push_str(&format!(".{}({})", if e.add { "add_node" } else { "remove_node" }, e.id)); }
        s
    }

    fn peers_map(&self, n: usize) -> HashMap<ReplicaId, String> {
        let nd = &self.nodes[n];
        nd.view.iter().filter(|x| **x != nd.id || self.self_in_peers).map(|x| (ReplicaId::new(*x), addr(*x))).collect()
    }

    fn config_for(&self, n: usize) -> ReplicationConfig {
        let nd = &self.nodes[n];
        // peers in id order, self excluded: the convention MultiNodeSimulation::new_partitioned uses and
        // GossipRouter::from_config documents ("sequential starting from 1, excluding self")
        let peers: Vec<String> = nd.view.iter().filter(|x| **x != nd.id).map(|x| addr(*x)).collect();
        ReplicationConfig::new_partitioned_cluster(nd.id, peers, self.rf).with_virtual_nodes(self.vnodes)
    }

    fn fresh_for(&mut self, view: &BTreeSet<u64>) -> &HashRing {
        let k: Vec<u64> = view.iter().copied().collect();
        let (vn, rf) = (self.vnodes, self.rf);
        self.fresh.entry(k.clone()).or_insert_with(|| HashRing::new(k.iter().map(|x| ReplicaId::new(*x)).collect(), vn, rf))
    }

    /// Placement invariants of node n's ring against a fresh ring of the same membership.
    fn check_ring(&mut self, n: usize, rep: &mut RunReport, ctx: &RunCtx) {
        let view = self.nodes[n].view.clone();
        let size = view.len();
        let ring_arc = self.nodes[n].ring.clone();
        let me = self.nodes[n].id;
        let other = self.pool.iter().copied().find(|x| *x != me).unwrap_or(me);
        let (rf, rf2) = (self.rf, self.rf2);
        let keys = self.keys.clone();
        let canonical = self.nodes[n].hist.is_empty() && self.nodes[n].init_order.windows(2).all(|w| w[0] < w[1]);
        if !canonical && size >= 2 {
            rep.probe("ring_history_differs_from_sorted_build");
            let mut h = fnv(0, format!("{}|{}|{:?}|", rf, self.vnodes, self.nodes[n].init_order).as_bytes());
            for e in &self.nodes[n].hist { h = fnv(h, &[e.add as u8]); h = fnv(h, &e.id.to_le_bytes()); }
            if self.fp_ring_n < 5 { self.fp_ring_n += 1; rep.sub_fps.push(h); }
        }
        if rf > size && size >= 1 { rep.probe("rf_exceeds_cluster_size"); }
        if size == 0 { rep.probe("empty_membership"); }
        // how many other nodes currently hold the same membership through a different history
        let same = (0..self.nodes.len()).filter(|j| *j != n && self.nodes[*j].view == view && (self.nodes[*j].init_order != self.nodes[n].init_order || self.nodes[*j].hist.len() != self.nodes[n].hist.len())).count();
        if same > 0 && size >= 2 { rep.probe_n("node_pairs_same_membership_different_history", same as u64); }
        let mut found: Vec<(&'static str, String)> = Vec::new();
        {
            let _ = self.fresh_for(&view);
            let fresh = &self.fresh[&view.iter().copied().collect::<Vec<u64>>()];
            let ring = ring_arc.read().expect("ring lock");
            for key in &keys {
                rep.evals += 1;
                let got = ids(&ring.get_replicas(key));
                let want = ids(&fresh.get_replicas(key));
                if size >= 1 && self.wrap_keys.contains(key) { rep.probe("key_beyond_last_vnode"); }
                let exp_len = rf.min(size);
                let uniq: BTreeSet<u64> = got.iter().copied().collect();
                if got.len() != exp_len {
                    found.push((K_LEN, format!("key {}: get_replicas = {:?} has {} members, expected min(RF {}, cluster size {}) = {}", kd(key), got, got.len(), rf, size, exp_len)));
                } else if uniq.len() != got.len() {
                    found.push((K_DUP, format!("key {}: get_replicas = {:?} repeats a node", kd(key), got)));
                } else if !uniq.is_subset(&view) {
                    found.push((K_NONMEMBER, format!("key {}: get_replicas = {:?} names a node outside the membership {:?}", kd(key), got, view)));
                } else if got != want {
                    found.push((K_ORDER, format!("key {}: same membership {:?}, same configuration, different replica lists: {:?} on the ring built by history vs {:?} on HashRing::new(sorted membership)", kd(key), view, got, want)));
                }
                let got2 = ids(&ring.get_replicas_with_rf(key, rf2));
                let want2 = ids(&fresh.get_replicas_with_rf(key, rf2));
                let uniq2: BTreeSet<u64> = got2.iter().copied().collect();
                if got2.len() != rf2.min(size) {
                    found.push((K_RF_LEN, format!("key {}: get_replicas_with_rf(_, {}) = {:?}, expected min({}, {}) members", kd(key), rf2, got2, rf2, size)));
                } else if uniq2.len() != got2.len() {
                    found.push((K_RF_DUP, format!("key {}: get_replicas_with_rf(_, {}) = {:?} repeats a node", kd(key), rf2, got2)));
                } else if got2 != want2 {
                    found.push((K_RF_ORDER, format!("key {}: get_replicas_with_rf(_, {}) = {:?} on the ring built by history vs {:?} on a fresh ring of the same membership {:?}", kd(key), rf2, got2, want2, view)));
                }
                for s in [me, other] {
                    let t = ids(&ring.get_gossip_targets(key, ReplicaId::new(s)));
                    let exp: Vec<u64> = got.iter().copied().filter(|x| *x != s).collect();
                    if t != exp {
                        found.push((K_TARGETS, format!("key {}: get_gossip_targets(_, sender {}) = {:?} but get_replicas = {:?} (expected {:?})", kd(key), s, t, got, exp)));
                    }
                }
                if !found.is_empty() { break; }
            }
        }
        for (k, m) in found {
            let m = format!("{} [{}; ring of node {} = {}]", m, self.cfg_line(), me, self.describe_ring(n));
            self.viol(rep, ctx, k, m);
        }
    }

    /// Deliver membership event `e` to node n: mutate its real ring and router, then check.
    fn apply_member(&mut self, n: usize, e: MEv, rep: &mut RunReport, ctx: &RunCtx) {
        let x = ReplicaId::new(e.id);
        let keys = self.keys.clone();
        let before: Vec<Vec<u64>> = { let r = self.nodes[n].ring.read().expect("ring lock"); keys.iter().map(|k| ids(&r.get_replicas(k))).collect() };
        {
            let mut r = self.nodes[n].ring.write().expect("ring lock");
            if e.add { r.add_node(x); } else { r.remove_node(x); }
        }
        let nd = &mut self.nodes[n];
        let was_member = nd.view.contains(&e.id);
        if e.add { nd.view.insert(e.id); if nd.removed_once.contains(&e.id) { rep.probe("node_rejoined_after_leave"); } } else { nd.view.remove(&e.id); nd.removed_once.insert(e.id); }
        if was_member == e.add { rep.probe("redundant_membership_event"); }
        nd.hist.push(e);
        let id = nd.id;
        self.fp = fnv(self.fp, format!("m{}:{}{}", id, if e.add { '+' } else { '-' }, e.id).as_bytes());
        rep.log(ctx.trace, || format!("node {} applies {} {} -> view {:?}", id, if e.add { "JOIN" } else { "LEAVE" }, e.id, self.nodes[n].view));
        // the router follows the membership: address of a joined node becomes known, of a left node is dropped
        match self.nodes[n].mode {
            Mode::Standalone => {
                let skip = e.id == id && !self.self_in_peers;
                let r = self.nodes[n].router.as_mut().expect("standalone router");
                if e.add { if !skip { r.update_peer(x, addr(e.id)); } } else { r.remove_peer(x); }
                self.nodes[n].addr_dropped.remove(&e.id);
            }
            Mode::StateNew | Mode::FromConfig => {
                let peers = self.peers_map(n);
                let router = GossipRouter::new(self.nodes[n].ring.clone(), ReplicaId::new(id), peers, true);
                self.nodes[n].gs.as_mut().expect("gossip state").set_router(router);
                self.nodes[n].fc_active = false;
            }
        }
        let after: Vec<Vec<u64>> = { let r = self.nodes[n].ring.read().expect("ring lock"); keys.iter().map(|k| ids(&r.get_replicas(k))).collect() };
        let mut changed = 0u64;
        for (i, key) in keys.iter().enumerate() {
            rep.evals += 1;
            if before[i] == after[i] { continue; }
            changed += 1;
            let holder = if e.add { &after[i] } else { &before[i] };
            if !holder.contains(&e.id) {
                let same_set = before[i].iter().collect::<BTreeSet<_>>() == after[i].iter().collect::<BTreeSet<_>>();
                let m = format!("node {}: {}({}) changed the placement of key {} from {:?} to {:?} ({}) although the key {} that node [{}; ring before the call = {} minus the last step]",
                    id, if e.add { "add_node" } else { "remove_node" }, e.id, kd(key), before[i], after[i], if same_set { "same owners, different order" } else { "different owners" },
                    if e.add { "did not gain" } else { "was not held by" }, self.cfg_line(), self.describe_ring(n));
                self.viol(rep, ctx, if e.add { K_DISR_ADD } else { K_DISR_REM }, m);
                break;
            }
        }
        if changed > 0 { rep.probe("membership_change_moved_keys"); }
        if changed < keys.len() as u64 && was_member != e.add && self.nodes[n].view.len() >= 2 { rep.probe("membership_change_left_some_keys_alone"); }
        if !self.stop { self.check_ring(n, rep, ctx); }
    }

    /// Node n routes a batch of fresh updates for `batch` (indices into keys).
    fn route(&mut self, n: usize, batch: &[usize], converged: bool, rep: &mut RunReport, ctx: &RunCtx) {
        let me = self.nodes[n].id;
        let mut deltas = Vec::new();
        let mut uids = Vec::new();
        for ki in batch {
            self.next_uid += 1;
            let uid = self.next_uid;
            // one update in six was first written on another replica and is passed on by this node (relayed or replayed
            // state): it names that replica as its source; the sender is still this node, and every owner but this node is due it
            let origin = if uid % 6 == 5 && self.pool.len() > 1 { let o = self.pool[(uid as usize / 6) % self.pool.len()]; if o != me { rep.probe("routed_update_first_written_elsewhere"); } o } else { me };
            let rid = ReplicaId::new(origin);
            let v = ReplicatedValue::with_value(SDS::from_str(&format!("u{}", uid)), LamportClock { time: uid, replica_id: rid });
            deltas.push(ReplicationDelta::new(self.keys[*ki].clone(), v, rid));
            uids.push(uid);
        }
        let sender_view: Vec<u64> = self.nodes[n].view.iter().copied().collect();
        let diverged = self.nodes.iter().any(|o| o.view != self.nodes[n].view);
        if diverged && !converged { rep.probe("routed_while_views_diverged"); }
        // expected: owners on the sender's OWN ring, minus the sender
        let mut total_expected = 0usize;
        {
            let ring = self.nodes[n].ring.read().expect("ring lock");
            for (d, uid) in deltas.iter().zip(&uids) {
                let owners = ids(&ring.get_replicas(&d.key));
                // an owner the sender has lost its connection to cannot be handed anything until it is back
                let expect: BTreeSet<u64> = owners.iter().copied().filter(|x| *x != me && !self.nodes[n].addr_dropped.contains(x)).collect();
                if owners.contains(&me) { rep.probe("sender_is_owner"); } else if !owners.is_empty() { rep.probe("sender_is_not_owner"); }
                total_expected += expect.len();
                self.upds.insert(*uid, Upd { key: d.key.clone(), sender: me, expect, owners, sender_view: sender_view.clone() });
            }
        }
        self.fp = fnv(self.fp, format!("r{}:{:?}", me, batch).as_bytes());
        if total_expected > 0 {
            rep.probe("routed_batch_with_targets");
            if self.fp_route_n < 5 { self.fp_route_n += 1; rep.sub_fps.push(fnv(fnv(0, format!("{}|{}|{:?}|{}|{:?}", self.rf, self.vnodes, sender_view, me, batch.iter().map(|k| &self.keys[*k]).collect::<Vec<_>>()).as_bytes()), &[self.nodes[n].mode as u8, self.nodes[n].fc_active as u8])); }
        }
        // ---- real routing
        let mut out: Vec<(u64, GossipMessage)> = Vec::new(); // (envelope target, message)
        let mut problems: Vec<(&'static str, String)> = Vec::new();
        let how;
        match self.nodes[n].mode {
            Mode::Standalone => {
                let r = self.nodes[n].router.as_ref().expect("standalone router");
                if !r.is_selective() { problems.push((K_NOT_SELECTIVE, format!("router of node {} built with selective_mode = true reports is_selective() = false", me))); }
                let table = if self.lock_probe && self.next_uid % 7 == 3 {
                    // the membership task holds the ring's write lock (mid add_node) while the gossip task routes:
                    // a real second thread takes the lock first; routing has to wait for it, whatever that takes
                    how = "GossipRouter::route_deltas while another thread holds the ring write lock";
                    rep.probe("routed_while_ring_write_locked"); rep.fault("ring_write_lock_held_by_other_thread");
                    let ring = self.nodes[n].ring.clone();
                    let ds = deltas.clone();
                    std::thread::scope(|sc| {
                        let (tx_locked, rx_locked) = std::sync::mpsc::channel::<()>();
                        let (tx_rel, rx_rel) = std::sync::mpsc::channel::<()>();
                        sc.spawn(move || { let g = ring.write().expect("ring lock"); let _ = tx_locked.send(()); let _ = rx_rel.recv(); drop(g); });
                        let _ = rx_locked.recv();
                        let (tx_res, rx_res) = std::sync::mpsc::channel();
                        sc.spawn(move || { let t = r.route_deltas(ds); let _ = tx_res.send(t); });
                        // a grace period in real time: long enough for a router that does not wait to come back;
                        // a router that waits is released right after and gives the same table as always
                        let early = rx_res.recv_timeout(std::time::Duration::from_millis(15));
                        let _ = tx_rel.send(());
                        match early { Ok(t) => t, Err(_) => rx_res.recv().expect("router thread") }
                    })
                } else if self.next_uid % 2 == 0 { how = "GossipRouter::route_deltas"; r.route_deltas(deltas.clone()) } else { how = "GossipRouter::route_with_stats"; r.route_with_stats(deltas.clone()).0 };
                let mut t: Vec<(u64, Vec<ReplicationDelta>)> = table.into_iter().map(|(k, v)| (k.0, v)).collect();
                t.sort_by_key(|(k, _)| *k);
                for (target, ds) in t {
                    if ds.is_empty() { continue; }
                    out.push((target, GossipMessage::new_targeted_delta(ReplicaId::new(me), ReplicaId::new(target), ds, 0)));
                }
            }
            Mode::StateNew | Mode::FromConfig => {
                how = if self.nodes[n].fc_active { "GossipState::queue_deltas (router from GossipRouter::from_config)" } else { "GossipState::queue_deltas (router from GossipRouter::new)" };
                let gs = self.nodes[n].gs.as_mut().expect("gossip state");
                if !gs.is_selective() { problems.push((K_NOT_SELECTIVE, format!("GossipState of node {} with a partitioned+selective config reports is_selective() = false", me))); }
                match self.backlog {
                    Some((h1, h2)) if deltas.len() >= 2 && self.next_uid % 3 == 0 => {
                        rep.probe("routed_behind_a_backlog_at_queue_capacity"); rep.fault("gossip_loop_stalled_queue_at_capacity");
                        for _ in 0..h1 { gs.queue_heartbeat(); }
                        let mid = deltas.len() / 2;
                        gs.queue_deltas(deltas[..mid].to_vec());
                        for _ in 0..h2 { gs.queue_heartbeat(); }
                        gs.queue_deltas(deltas[mid..].to_vec());
                    }
                    _ => gs.queue_deltas(deltas.clone()),
                }
                let mut msgs = gs.drain_outbound();
                msgs.retain(|m| !(m.target.is_none() && matches!(m.message, GossipMessage::Heartbeat { .. })));
                // queue order follows HashMap iteration inside the router; canonicalise before it can influence anything
                msgs.sort_by_key(|m| m.target.map(|t| t.0 as u128).unwrap_or(u128::MAX));
                for m in msgs {
                    match m.target {
                        None => problems.push((K_BROADCAST, format!("node {} in selective mode queued a broadcast message carrying {:?}", me, m.message.clone().into_deltas().map(|d| d.iter().map(|x| x.key.clone()).collect::<Vec<_>>())))),
                        Some(t) => out.push((t.0, m.message)),
                    }
                }
            }
        }
        // ---- observed hand-over per update
        let mut got: BTreeMap<u64, BTreeSet<u64>> = BTreeMap::new();
        for (target, msg) in &out {
            match msg {
                GossipMessage::TargetedDelta { source_replica, target_replica, deltas: ds, .. } => {
                    if target_replica.0 != *target || source_replica.0 != me {
                        problems.push((K_FIELDS, format!("node {}: message queued for target {} says source {} target {}", me, target, source_replica.0, target_replica.0)));
                    }
                    for d in ds { got.entry(d.value.timestamp.time).or_default().insert(*target); }
                }
                other => problems.push((K_FIELDS, format!("node {}: selective routing produced a non-targeted message for {}: {:?}", me, target, other.source_replica()))),
            }
        }
        for uid in &uids {
            rep.evals += 1;
            let u = &self.upds[uid];
            let g = got.get(uid).cloned().unwrap_or_default();
            let missing: Vec<u64> = u.expect.difference(&g).copied().collect();
            let extra: Vec<u64> = g.difference(&u.expect).copied().collect();
            let ctxline = format!("sender {} (view {:?}, {}) routed key {} via {}: owners on its ring = {:?}, handed to {:?}, expected exactly {:?}", me, u.sender_view, self.cfg_line(), kd(&u.key), how, u.owners, g, u.expect);
            let mut relax: Vec<u64> = Vec::new();
            for t in &missing {
                let has_addr = match self.nodes[n].mode {
                    Mode::Standalone => self.nodes[n].router.as_ref().and_then(|r| r.get_peer_address(ReplicaId::new(*t))).is_some(),
                    _ => self.nodes[n].gs.as_ref().and_then(|g| g.router()).and_then(|r| r.get_peer_address(ReplicaId::new(*t))).is_some(),
                };
                let key = if has_addr { K_STARVED }
                    else if self.nodes[n].fc_active { if *t == me.wrapping_add(1) { K_STARVED_FC_NEXT } else { K_STARVED_FC_OTHER } }
                    else { K_STARVED_NOADDR };
                let cfgp = if self.nodes[n].fc_active { format!("; config.replica_id = {}, config.peers = {:?}; router.peer_ids() = {:?}", me, self.config_for(n).peers, { let mut p: Vec<u64> = self.nodes[n].gs.as_ref().and_then(|g| g.router()).map(|r| r.peer_ids().map(|x| x.0).collect()).unwrap_or_default(); p.sort(); p }) } else { String::new() };
                problems.push((key, format!("owner {} was not handed the update ({}) — {}{}", t, if has_addr { "router knows its address" } else { "router has no address for it" }, ctxline, cfgp)));
                if ctx.known(key) { relax.push(*t); }
            }
            for t in &extra {
                let key = if *t == me { K_TO_SENDER } else { K_NON_OWNER };
                problems.push((key, format!("{} {} was handed the update — {}", if *t == me { "the sender itself" } else { "non-owner" }, t, ctxline)));
            }
            if !relax.is_empty() {
                // known finding: from here on the run expects exactly the deviant hand-over, so anything else is still caught
                let u = self.upds.get_mut(uid).expect("upd");
                for t in relax { u.expect.remove(&t); }
            }
        }
        rep.log(ctx.trace, || format!("node {} routes {:?} via {} -> (target, deltas) {:?}", me, batch.iter().map(|k| kd(&self.keys[*k])).collect::<Vec<_>>(), how, out.iter().map(|(t, m)| (*t, m.clone().into_deltas().map(|d| d.len()).unwrap_or(0))).collect::<Vec<_>>()));
        for (k, m) in problems { self.viol(rep, ctx, k, m); }
        // ---- hand to the network
        for (target, msg) in out {
            match msg.serialize() {
                Ok(bytes) => self.flights.push(Flight { from: me, to: target, bytes, converged }),
                Err(e) => self.viol(rep, ctx, K_UNDECODABLE, format!("message from {} to {} cannot be serialised: {}", me, target, e)),
            }
        }
    }

    fn deliver(&mut self, i: usize, dup: bool, rep: &mut RunReport, ctx: &RunCtx) {
        let f = if dup { let f = &self.flights[i]; Flight { from: f.from, to: f.to, bytes: f.bytes.clone(), converged: f.converged } } else { self.flights.remove(i) };
        if dup { rep.fault("gossip_duplicated"); } else if i > 0 { rep.fault("gossip_reordered"); }
        self.fp = fnv(self.fp, format!("d{}>{}:{}", f.from, f.to, dup).as_bytes());
        let msg = match GossipMessage::deserialize(&f.bytes) {
            Ok(m) => m,
            Err(e) => { self.viol(rep, ctx, K_UNDECODABLE, format!("message from {} to {} ({} bytes) does not deserialise: {}", f.from, f.to, f.bytes.len(), e)); return; }
        };
        let Some(ds) = msg.into_deltas() else { return };
        let recv = self.nodes.iter().position(|n| n.id == f.to);
        rep.log(ctx.trace, || format!("net delivers {} -> {}: {} deltas{}", f.from, f.to, ds.len(), if dup { " (duplicate, original stays in flight)" } else { "" }));
        for d in ds {
            let uid = d.value.timestamp.time;
            self.received.entry(uid).or_default().insert(f.to);
            if f.converged {
                if let Some(r) = recv {
                    rep.evals += 1;
                    let ok = self.nodes[r].ring.read().expect("ring lock").is_responsible(&d.key, ReplicaId::new(f.to));
                    if !ok {
                        let m = format!("after every node reached membership {:?} ({}), sender {} handed key {} to node {}, whose own ring says it is not responsible for it (its get_replicas = {:?}; its ring = {})",
                            self.nodes[r].view, self.cfg_line(), f.from, kd(&d.key), f.to, ids(&self.nodes[r].ring.read().expect("ring lock").get_replicas(&d.key)), self.describe_ring(r));
                        self.viol(rep, ctx, K_RECV_NOT_RESP, m);
                    }
                }
            }
        }
    }
}

impl Property for C19 {
    fn id(&self) -> &'static str { "C19" }
    fn level(&self) -> &'static str { "exploration" }
    fn rule(&self) -> &'static str {
        "per run: pool of 1-9 replica ids (1..n or sparse/extreme ids), RF 1-5, 1-200 virtual nodes, 6-16 keys (plain, empty, long, unicode, and keys searched to hash beyond the last virtual node); every node owns its own real HashRing built in a tape-chosen join order and a real router (GossipState+GossipRouter::new / stand-alone router with update_peer+remove_peer / GossipRouter::from_config); up to 28 tape-chosen events: global join/leave (incl. rejoin, redundant), delivery of one pending membership event to one node (any order across ids), a routed batch of 1-4 updates from any node, delivery/duplication of any in-flight gossip message; then convergence, one batch of every key from every node, drain. evaluation = one (ring state, key) placement comparison, one (membership step, key) disruption comparison, one routed update, or one post-convergence receipt. Non-trivial sub-case = a ring with >= 2 members whose add/remove history differs from a sorted one-shot build (fingerprint: configuration + history), or a routed batch with >= 1 expected target (fingerprint: configuration + sender view + sender + keys + router kind); at most the first 5 of each kind per run are fingerprinted"
    }
    fn components_real(&self) -> Vec<&'static str> {
        vec![
            "replication::hash_ring::HashRing::{new,add_node,remove_node,get_replicas,get_replicas_with_rf,get_gossip_targets,is_responsible}",
            "replication::gossip_router::GossipRouter::{new,from_config,route_deltas,route_with_stats,update_peer,remove_peer,get_peer_address,peer_ids}",
            "replication::gossip::GossipState::{with_router,new,set_router,queue_deltas,drain_outbound,is_selective}",
            "replication::gossip::GossipMessage::{new_targeted_delta,serialize,deserialize,into_deltas}",
            "replication::config::ReplicationConfig::new_partitioned_cluster",
        ]
    }
    fn components_stubbed(&self) -> Vec<&'static str> {
        vec![
            "membership protocol: the tree has none (no code calls add_node/remove_node/update_peer outside tests); join/leave events and their per-node delivery order come from the simulator",
            "network: in-memory queue of serialised GossipMessages with tape-chosen delivery order and duplication (no loss: a lost message starves an owner by definition and is anti-entropy's business, C18)",
            "receiver: records which updates arrived and asks its own ring is_responsible; deltas are not applied to a store (C06 does that)",
            "production::gossip_actor::GossipActor (a mailbox around GossipState) and GossipManager (TCP) are not run",
        ]
    }
    fn assumptions(&self) -> Vec<&'static str> {
        vec![
            "transport tier, selective mode: GossipState::queue_deltas walks a std HashMap keyed by target, so the order of one tick's targeted messages (and the step count of the run) is not a function of the tape; the oracle judges only order-independent facts, and a replay of such a run may need more than one attempt",
            "'responsible replicas' of an update are get_replicas(key) on the sender's own ring at the moment it routes (the only definition the code offers); the per-delta ReplicatedValue.replication_factor override is left None because no routing code reads it",
            "a node's router is told the address of every member of that node's view (join carries the address, leave drops it), so ring members without an address are a router fault, not a harness choice",
            "from_config is given what its doc comment asks for: ids 1..n, config.peers = the other nodes' addresses in id order",
            "virtual-node count >= 1 and RF >= 1 (RF override 0-7 through get_replicas_with_rf); 64-bit position collisions between virtual nodes are not constructed",
            "ring-end wrap keys are selected with a copy of the ring's std DefaultHasher position function; the copy chooses inputs and feeds a probe only, never an expected owner",
        ]
    }
    fn required_probes(&self) -> Vec<&'static str> {
        vec!["ring_history_differs_from_sorted_build", "node_pairs_same_membership_different_history", "rf_exceeds_cluster_size", "key_beyond_last_vnode", "membership_change_moved_keys",
             "membership_change_left_some_keys_alone", "node_rejoined_after_leave", "routed_while_views_diverged", "routed_batch_with_targets", "sender_is_owner", "sender_is_not_owner",
             "from_config_router_routed", "post_convergence_receipt_checked"]
    }
    fn runs(&self, tier: Tier) -> u64 { match tier { Tier::Quick => 60_000, Tier::Thorough => 1_200_000 } }

    fn run(&self, src: &mut Src, ctx: &RunCtx) -> RunReport {
        let mut rep = RunReport::default();
        // one run in 30: the transport tier (the real GossipManager on the simulated network, c19_mgr.rs)
        if src.chance(1, 30) {
            super::c19_mgr::run(src, ctx, &mut rep);
            rep.evals = rep.evals.max(1);
            return rep;
        }
        // ---- configuration (0 on the tape = simplest)
        let np = 1 + src.below(9) as usize;
        let sparse_ids = src.chance(1, 3);
        let rf = 1 + src.below(5) as usize;
        let vnodes = VNODES[src.idx(VNODES.len())];
        let rf2 = src.below(8) as usize;
        let self_in_peers = src.chance(1, 4);
        let pool: Vec<u64> = if !sparse_ids { (1..=np as u64).collect() } else {
            let mut rest: Vec<u64> = ID_TABLE.to_vec();
            (0..np).map(|_| { let i = src.idx(rest.len()); rest.remove(i) }).collect()
        };
        let all_members = !src.chance(1, 3);
        let mut m0: Vec<u64> = Vec::new();
        for id in &pool { if all_members || !src.chance(1, 3) { m0.push(*id); } }
        let fc_ok = !sparse_ids && all_members;
        // ---- keys
        let nkeys = 6 + src.below(11) as usize;
        let salt = src.below(1000);
        let mut keys: Vec<String> = Vec::new();
        let specials = ["", "a", "{user:1}:profile", "ключ-κλειδί-鍵", "key with spaces\r\n", "\u{0}"];
        for i in 0..nkeys {
            let k = match i {
                0 => format!("key{}", salt),
                1 => format!("key{}", salt + 1),
                2 => specials[(salt as usize) % specials.len()].to_string(),
                3 => "x".repeat(300 + salt as usize),
                _ => format!("user:{}:{}", salt, i),
            };
            keys.push(k);
        }
        // keys beyond the last virtual node of the whole pool wrap to ring index 0 in every non-empty view
        let mut maxpos = 0u64;
        for id in &pool { for i in 0..vnodes { maxpos = maxpos.max(vpos(*id, i)); } }
        let mut wrap_keys = BTreeSet::new();
        for n in 0..2048u64 {
            if wrap_keys.len() >= 2 { break; }
            let k = format!("w{}:{}", salt, n);
            if kpos(&k) > maxpos { wrap_keys.insert(k.clone()); keys.push(k); }
        }
        let mut w = World {
            rf, vnodes, rf2, self_in_peers, keys, wrap_keys, nodes: Vec::new(), pool: pool.clone(), fresh: BTreeMap::new(), flights: Vec::new(),
            upds: BTreeMap::new(), received: BTreeMap::new(), next_uid: 0, fp: 0, stop: false, seen_keys: BTreeSet::new(), fp_ring_n: 0, fp_route_n: 0, lock_probe: false, backlog: None,
        };
        w.fp = fnv(0, format!("{:?}|{}|{}|{}|{}|{:?}|{:?}", pool, rf, vnodes, rf2, self_in_peers, m0, w.keys).as_bytes());
        // one run in 48 (decided by the run's own content, no extra draw)
        w.lock_probe = w.fp % 48 == 0;
        // one run in 24: the gossip loop is stalled, heartbeats pile up to the queue's capacity (10 000) and a batch is
        // queued in two halves around the overflow; only heartbeats are old enough to be dropped, so every update still
        // has to come out for exactly its owners
        if (w.fp >> 8) % 24 == 0 { w.backlog = Some((9_975 + ((w.fp >> 16) % 26) as usize, ((w.fp >> 24) % 14) as usize)); }
        // ---- nodes: own ring in own join order, own router
        for (n, id) in pool.iter().enumerate() {
            src.begin();
            let mode = match src.below(3) { 0 => Mode::StateNew, 1 => Mode::Standalone, _ => if fc_ok { Mode::FromConfig } else { Mode::StateNew } };
            let mut order = m0.clone();
            for i in (1..order.len()).rev() { let j = i - src.idx(i + 1); order.swap(i, j); }
            src.end();
            let ring = Arc::new(RwLock::new(HashRing::new(order.iter().map(|x| ReplicaId::new(*x)).collect(), vnodes, rf)));
            w.nodes.push(Node { id: *id, ring, view: m0.iter().copied().collect(), init_order: order, hist: Vec::new(), mode, fc_active: mode == Mode::FromConfig, gs: None, router: None, pending: Vec::new(), removed_once: BTreeSet::new(), addr_dropped: BTreeSet::new() });
            let cfg = w.config_for(n);
            let peers = w.peers_map(n);
            let ring = w.nodes[n].ring.clone();
            match mode {
                Mode::StateNew => { w.nodes[n].gs = Some(GossipState::with_router(cfg, GossipRouter::new(ring, ReplicaId::new(*id), peers, true))); }
                Mode::Standalone => { w.nodes[n].router = Some(GossipRouter::new(ring, ReplicaId::new(*id), peers, true)); }
                Mode::FromConfig => { let mut gs = GossipState::new(cfg.clone()); gs.set_router(GossipRouter::from_config(&cfg, ring)); w.nodes[n].gs = Some(gs); }
            }
            w.fp = fnv(w.fp, format!("n{}:{:?}:{:?}", id, mode, w.nodes[n].init_order).as_bytes());
            rep.log(ctx.trace, || format!("node {}: ring = {}, router = {:?}", id, w.describe_ring(n), mode));
        }
        rep.log(ctx.trace, || format!("pool {:?}, initial membership {:?}, {}, rf-override {}, self in peer map: {}, {} keys ({} beyond the last vnode)", pool, m0, w.cfg_line(), rf2, self_in_peers, w.keys.len(), w.wrap_keys.len()));
        for n in 0..np { if !w.stop { w.check_ring(n, &mut rep, ctx); } }

        // ---- events
        let mut global: BTreeSet<u64> = m0.iter().copied().collect();
        let mut mevs: Vec<MEv> = Vec::new();
        let nk = w.keys.len();
        let mut steps = 0u64;
        let mut n_events = 0usize;
        while n_events < 28 && !w.stop {
            src.begin();
            if !src.more(15, 16) { src.end(); break; }
            n_events += 1;
            steps += 1;
            match src.weighted(&[4, 4, 3, 3, 2]) {
                4 => {
                    // a stand-alone router loses the connection to a peer that stays a member, or gets it back
                    let n = src.idx(np);
                    let peers: Vec<u64> = w.nodes[n].view.iter().copied().filter(|p| *p != w.nodes[n].id).collect();
                    let c = src.idx(peers.len().max(1));
                    if w.nodes[n].mode == Mode::Standalone && !peers.is_empty() {
                        let pid = peers[c];
                        let back = w.nodes[n].addr_dropped.contains(&pid);
                        let r = w.nodes[n].router.as_mut().expect("standalone router");
                        if back { r.update_peer(ReplicaId::new(pid), addr(pid)); w.nodes[n].addr_dropped.remove(&pid); rep.probe("peer_address_relearned"); }
                        else { r.remove_peer(ReplicaId::new(pid)); w.nodes[n].addr_dropped.insert(pid); rep.fault("peer_connection_lost"); }
                        w.fp = fnv(w.fp, format!("a{}:{}{}", w.nodes[n].id, if back { '+' } else { '-' }, pid).as_bytes());
                        rep.log(ctx.trace, || format!("node {} {} peer {}", w.nodes[n].id, if back { "reconnects to" } else { "loses its connection to" }, pid));
                    }
                }
                0 => {
                    // route a batch
                    let n = src.idx(np);
                    let bl = 1 + src.below(4) as usize;
                    let batch: Vec<usize> = (0..bl).map(|_| src.idx(nk)).collect();
                    if w.nodes[n].fc_active { rep.probe("from_config_router_routed"); }
                    w.route(n, &batch, false, &mut rep, ctx);
                }
                1 => {
                    // deliver one pending membership event to one node
                    let n = src.idx(np);
                    let pend = w.nodes[n].pending.clone();
                    let elig: Vec<usize> = (0..pend.len()).filter(|i| !pend[..*i].iter().any(|e| mevs[*e].id == mevs[pend[*i]].id)).collect();
                    let c = src.idx(elig.len().max(1));
                    if !elig.is_empty() {
                        let pi = elig[c];
                        if pi > 0 { rep.fault("membership_event_reordered"); }
                        let e = mevs[w.nodes[n].pending.remove(pi)];
                        w.apply_member(n, e, &mut rep, ctx);
                    }
                }
                2 => {
                    // a node joins or leaves the cluster (globally); every node will hear of it, each in its own time
                    let id = pool[src.idx(np)];
                    let redundant = src.chance(1, 8);
                    let is_member = global.contains(&id);
                    let add = if redundant { is_member } else { !is_member };
                    if add { global.insert(id); } else { global.remove(&id); }
                    mevs.push(MEv { add, id });
                    let ei = mevs.len() - 1;
                    for nd in w.nodes.iter_mut() { nd.pending.push(ei); }
                    w.fp = fnv(w.fp, format!("g{}{}", if add { '+' } else { '-' }, id).as_bytes());
                    rep.log(ctx.trace, || format!("cluster: {} {} (global membership now {:?})", if add { "JOIN" } else { "LEAVE" }, id, global));
                }
                _ => {
                    // the network delivers (or duplicates) one in-flight gossip message, not necessarily the oldest
                    let c = src.idx(w.flights.len().max(1));
                    let dup = src.chance(1, 8);
                    if !w.flights.is_empty() { w.deliver(c, dup, &mut rep, ctx); }
                }
            }
            src.end();
        }

        // ---- convergence: every node hears of every remaining event (oldest first), then routes every key once
        if !w.stop {
            for n in 0..np {
                while !w.nodes[n].pending.is_empty() && !w.stop {
                    let e = mevs[w.nodes[n].pending.remove(0)];
                    steps += 1;
                    w.apply_member(n, e, &mut rep, ctx);
                }
            }
        }
        if !w.stop {
            for n in 0..np {
                let lost: Vec<u64> = w.nodes[n].addr_dropped.iter().copied().collect();
                for pid in lost {
                    if w.nodes[n].view.contains(&pid) { if let Some(r) = w.nodes[n].router.as_mut() { r.update_peer(ReplicaId::new(pid), addr(pid)); } }
                    w.nodes[n].addr_dropped.remove(&pid);
                }
            }
        }
        if !w.stop {
            for nd in &w.nodes { assert!(nd.view == global, "harness: views did not converge: node {} has {:?}, cluster {:?}", nd.id, nd.view, global); }
            rep.log(ctx.trace, || format!("all views converged on {:?}", global));
            let all: Vec<usize> = (0..nk).collect();
            for n in 0..np {
                if w.stop { break; }
                if w.nodes[n].fc_active { rep.probe("from_config_router_routed"); }
                steps += 1;
                w.route(n, &all, true, &mut rep, ctx);
            }
            // one run in 32: a write burst - one node hands over 513 to 1600 updates in a single batch (far more than any
            // per-message cap a sender might apply); every one of them still has to reach exactly its owners
            if !w.stop && (w.fp >> 12) % 32 == 0 {
                let n = ((w.fp >> 5) % np as u64) as usize;
                let size = 513 + ((w.fp >> 20) % 1100) as usize;
                let burst: Vec<usize> = (0..size).map(|i| (i * 7 + 3) % nk).collect();
                rep.probe("burst_of_over_512_updates_in_one_batch");
                steps += 1;
                w.route(n, &burst, true, &mut rep, ctx);
            }
        }
        if !w.stop {
            let mut guard = 0;
            while !w.flights.is_empty() && !w.stop && guard < 100_000 {
                guard += 1;
                steps += 1;
                if w.flights[0].converged { rep.probe("post_convergence_receipt_checked"); }
                w.deliver(0, false, &mut rep, ctx);
            }
        }
        // ---- end of run: exactly the owners hold each update
        if !w.stop {
            let uids: Vec<u64> = w.upds.keys().copied().collect();
            for uid in uids {
                rep.evals += 1;
                let got = w.received.get(&uid).cloned().unwrap_or_default();
                let (missing, extra, line) = {
                    let u = &w.upds[&uid];
                    let missing: Vec<u64> = u.expect.difference(&got).copied().collect();
                    let extra: Vec<u64> = got.difference(&u.expect).copied().collect();
                    (missing, extra, format!("update u{} of key {} routed by {} (view {:?}, {}; owners {:?}): received by {:?}, expected {:?}", uid, kd(&u.key), u.sender, u.sender_view, w.cfg_line(), u.owners, got, u.expect))
                };
                if !missing.is_empty() { w.viol(&mut rep, ctx, K_OWNER_MISSING, format!("owners {:?} never received it — {}", missing, line)); }
                if !extra.is_empty() { w.viol(&mut rep, ctx, K_NON_OWNER_RECV, format!("non-owners {:?} received it — {}", extra, line)); }
                if w.stop { break; }
            }
        }
        rep.steps = steps;
        rep.evals = rep.evals.max(1);
        rep.nontrivial = !rep.sub_fps.is_empty();
        rep.fingerprint = w.fp;
        rep.sample = Some(json!({
            "pool": pool.iter().map(|x| x.to_string()).collect::<Vec<_>>(), "initial_membership": m0.iter().map(|x| x.to_string()).collect::<Vec<_>>(), "rf": rf, "vnodes": vnodes, "rf_override": rf2, "keys": w.keys.len(),
            "routers": w.nodes.iter().map(|n| format!("{:?}", n.mode)).collect::<Vec<_>>(),
            "join_orders": w.nodes.iter().take(3).map(|n| n.init_order.iter().map(|x| x.to_string()).collect::<Vec<_>>()).collect::<Vec<_>>(),
            "membership_events": mevs.iter().map(|e| format!("{}{}", if e.add { '+' } else { '-' }, e.id)).collect::<Vec<_>>(),
            "per_node_application_order": w.nodes.iter().take(3).map(|n| n.hist.iter().map(|e| format!("{}{}", if e.add { '+' } else { '-' }, e.id)).collect::<Vec<_>>()).collect::<Vec<_>>(),
            "updates_routed": w.upds.len(), "final_membership": global.iter().map(|x| x.to_string()).collect::<Vec<_>>(),
        }));
        rep
    }
}
