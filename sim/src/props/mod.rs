pub mod c01;
pub mod c02;
pub mod c03;
pub mod c04;
pub mod c05;
pub mod c06;
pub mod c06_net;
pub mod c07;
pub mod c08;
pub mod c09;
pub mod c10;
pub mod c11;
pub mod c12;
pub mod c13;
pub mod c14;
pub mod c15;
pub mod c17;
pub mod c18;
pub mod c19;
pub mod c19_mgr;
pub mod c20;

use crate::simkit::Property;

pub fn by_id(id: &str) -> Option<Box<dyn Property>> {
    match id {
        "C01" => Some(Box::new(c01::C01)),
        "C02" => Some(Box::new(c02::C02)),
        "C03" => Some(Box::new(c03::C03)),
        "C04" => Some(Box::new(c04::C04)),
        "C05" => Some(Box::new(c05::C05)),
        "C06" => Some(Box::new(c06::C06)),
        "C07" => Some(Box::new(c07::C07)),
        "C08" => Some(Box::new(c08::C08)),
        "C09" => Some(Box::new(c09::C09)),
        "C10" => Some(Box::new(c10::C10)),
        "C11" => Some(Box::new(c11::C11)),
        "C12" => Some(Box::new(c12::C12)),
        "C13" => Some(Box::new(c13::C13)),
        "C14" => Some(Box::new(c14::C14)),
        "C15" => Some(Box::new(c15::C15)),
        "C17" => Some(Box::new(c17::C17)),
        "C18" => Some(Box::new(c18::C18)),
        "C19" => Some(Box::new(c19::C19)),
        "C20" => Some(Box::new(c20::C20)),
        _ => None,
    }
}
pub const ALL: &[&str] = &["C01", "C02", "C03", "C04", "C05", "C06", "C07", "C08", "C09", "C10", "C11", "C12", "C13", "C14", "C15", "C17", "C18", "C19", "C20"];
