pub mod c09;
pub mod c10;

use crate::simkit::Property;

pub fn by_id(id: &str) -> Option<Box<dyn Property>> {
    match id {
        "C09" => Some(Box::new(c09::C09)),
        "C10" => Some(Box::new(c10::C10)),
        _ => None,
    }
}
pub const ALL: &[&str] = &["C09", "C10"];
