//! C19, transport tier: the real `GossipManager` — its listener with one handler per peer address, its gossip loop with
//! persistent per-peer connections (lock-based and actor-based), its own peer table and its length-prefixed framing — on
//! the in-memory network of hook H7 (`production::verif_hooks::simnet`) under tokio's paused clock.
//!
//! World: nodes 1..n, every one with a `GossipState` (+ `GossipRouter::from_config` over one shared membership) behind
//! `GossipManager::start_server` (port 3001 + id, as the code fixes it) and `GossipManager::start_gossip_loop[_with_actor]`.
//! The harness hands stamped updates to a node's `collect_deltas` source and records what each node's delta callback is
//! given. Faults: connections reset in mid-stream, connection attempts refused (partition), byte pipes of 1..4096 bytes
//! (every write short), all at tape-chosen instants; then the faults stop.
//!
//! Oracle. Safety, always: a node is only ever handed an update that some other node wrote, byte for byte; in selective
//! mode only if the ring makes it a replica of the key. Progress, once faults have stopped: every update written after
//! that instant (in a fault-free run: every update) reaches, within five gossip intervals, every node the statement
//! names — the key's replicas other than the writer in selective mode, every other node in broadcast mode.

use crate::simkit::rt::{self, Sched};
use crate::simkit::runner::{RunCtx, RunReport};
use crate::simkit::tape::{fnv, Src};
use redis_sim::production::verif_hooks::simnet;
use redis_sim::production::{GossipActor, GossipManager};
use redis_sim::redis::SDS;
use redis_sim::replication::{GossipRouter, GossipState, HashRing, LamportClock, ReplicaId, ReplicatedValue, ReplicationConfig, ReplicationDelta};
use std::collections::{BTreeMap, BTreeSet};
use std::future::Future;
use std::pin::Pin;
use std::sync::{Arc, Mutex};
use std::task::{Context, Poll};

pub const K_MGR_STARVED: &str = "C19/manager/owner-never-received-update";
pub const K_MGR_NON_OWNER: &str = "C19/manager/non-owner-received-update";
pub const K_MGR_FOREIGN: &str = "C19/manager/received-update-nobody-wrote";
pub const K_MGR_ALTERED: &str = "C19/manager/received-update-altered";
pub const K_MGR_TO_SENDER: &str = "C19/manager/writer-received-own-update";
pub const K_MGR_BCAST: &str = "C19/manager/broadcast-peer-never-received-update";

/// Polls `fut` with the simulated network's "current node" set, so that a `connect` made from inside it carries the
/// node's own source address (the listener keeps one handler per peer address).
pub struct OnNode<F> { node: u8, fut: Pin<Box<F>> }
impl<F: Future> Future for OnNode<F> {
    type Output = F::Output;
    fn poll(mut self: Pin<&mut Self>, cx: &mut Context<'_>) -> Poll<F::Output> {
        simnet::set_current_node(self.node);
        self.fut.as_mut().poll(cx)
    }
}
pub fn on_node<F: Future>(node: u8, fut: F) -> OnNode<F> { OnNode { node, fut: Box::pin(fut) } }

struct Upd { key: String, writer: u64, after_heal: bool, json: String }

pub fn run(src: &mut Src, ctx: &RunCtx, rep: &mut RunReport) {
    let n = 2 + src.below(4);
    let selective = !src.chance(1, 3);
    let rf = 1 + src.below(n) as usize;
    let vnodes = [3u32, 1, 8, 40][src.idx(4)];
    let cap = [65_536usize, 1, 3, 7, 64, 4096][src.idx(6)];
    let interval_ms = [100u64, 10, 1000][src.idx(3)];
    let actor_backend = src.chance(1, 3);
    let with_faults = src.chance(1, 2);
    let rounds = 2 + src.below(5);
    let nkeys = 3 + src.below(6);
    let salt = src.below(1000);
    let keys: Vec<String> = (0..nkeys).map(|i| match i { 0 => format!("key{}", salt), 1 => "ключ \r\n\u{0}".to_string(), 2 => "x".repeat(200 + salt as usize), _ => format!("user:{}:{}", salt, i) }).collect();
    rep.probe("manager_runs");
    if selective { rep.probe("manager_selective_runs"); }
    if actor_backend { rep.probe("manager_actor_backend_runs"); }
    rep.log(ctx.trace, || format!("transport tier: {} nodes, {}, RF={}, vnodes={}, pipe capacity {} bytes, gossip interval {} ms, backend {}, faults {}",
        n, if selective { "selective" } else { "broadcast" }, rf, vnodes, cap, interval_ms, if actor_backend { "GossipActor" } else { "RwLock<GossipState>" }, with_faults));
    let mut fp = fnv(0, format!("mgr|{}|{}|{}|{}|{}|{}|{}|{}", n, selective, rf, vnodes, cap, interval_ms, actor_backend, with_faults).as_bytes());

    let ids: Vec<u64> = (1..=n).collect();
    let ring = Arc::new(std::sync::RwLock::new(HashRing::new(ids.iter().map(|i| ReplicaId::new(*i)).collect(), vnodes, rf)));
    let port = |id: u64| 3001u16 + id as u16;
    let received: Arc<Mutex<Vec<(u64, ReplicationDelta)>>> = Arc::new(Mutex::new(Vec::new()));
    let pendings: Vec<Arc<Mutex<Vec<ReplicationDelta>>>> = ids.iter().map(|_| Arc::new(Mutex::new(Vec::new()))).collect();

    let seed = salt ^ 0x19;
    let (upds, sim_ms, steps, stats) = rt::block_on(seed, async {
        simnet::reset(cap);
        let mut sched = Sched::new();
        for (ix, id) in ids.iter().enumerate() {
            let peers: Vec<String> = ids.iter().filter(|j| *j != id).map(|j| format!("node-{}.sim:{}", j, port(*j))).collect();
            let mut cfg = if selective { ReplicationConfig::new_partitioned_cluster(*id, peers, rf).with_virtual_nodes(vnodes) } else { ReplicationConfig::new_cluster(*id, peers) };
            cfg.gossip_interval_ms = interval_ms;
            let recv = received.clone();
            let me = *id;
            let cb: Arc<dyn Fn(Vec<ReplicationDelta>) + Send + Sync> = Arc::new(move |ds: Vec<ReplicationDelta>| { let mut r = recv.lock().unwrap(); for d in ds { r.push((me, d)); } });
            let scfg = cfg.clone();
            sched.add(format!("server{}", id), on_node(*id as u8, async move { let _ = GossipManager::start_server(scfg, cb).await; }));
            let router = GossipRouter::from_config(&cfg, ring.clone());
            let pend = pendings[ix].clone();
            let collect = move || std::mem::take(&mut *pend.lock().unwrap());
            if actor_backend {
                let handle = GossipActor::spawn_with_router(cfg.clone(), router);
                sched.add(format!("loop{}", id), on_node(*id as u8, GossipManager::start_gossip_loop_with_actor(cfg, handle, collect)));
            } else {
                let gs = Arc::new(parking_lot::RwLock::new(GossipState::with_router(cfg.clone(), router)));
                sched.add(format!("loop{}", id), on_node(*id as u8, GossipManager::start_gossip_loop(cfg, gs, collect)));
            }
        }
        let t0 = tokio::time::Instant::now();
        let mut upds: BTreeMap<u64, Upd> = BTreeMap::new();
        let mut uid = 0u64;
        let mut refused: BTreeSet<(u8, u16)> = BTreeSet::new();
        // let every listener bind before the first loop tick connects
        for _ in 0..(4 * n) { sched.step(src, 0).await; }
        for round in 0..=rounds {
            let healed = round == rounds;
            if healed {
                for (a, p) in std::mem::take(&mut refused) { simnet::set_refused(a, p, false); }
                // what was written into a connection that then broke, or queued for a peer that refused, is gone: the
                // statement's "hands to" is judged for updates written from here on
                let until = tokio::time::Instant::now() + std::time::Duration::from_millis(2 * interval_ms);
                while tokio::time::Instant::now() < until { sched.step(src, 1).await; }
            }
            let writes = 1 + src.below(4);
            for _ in 0..writes {
                src.begin();
                let w = ids[src.idx(ids.len())];
                let burst = 1 + src.below(3);
                for _ in 0..burst {
                    uid += 1;
                    let key = keys[src.idx(keys.len())].clone();
                    let rid = ReplicaId::new(w);
                    // one update in ten carries a value of 5-20 KB: as JSON (a number per byte) up to 80 KB, a frame far above the small
                    // pipe capacities; the at most twelve updates one node can hand over in one tick stay below the listener's 1 MiB frame limit
                    let big = src.chance(1, 10) && cap >= 64; // (byte-sized pipes move a frame of 80 KB in as many scheduler steps)
                    let text = if big { rep.probe("manager_update_of_5_to_20_kb"); format!("u{}{}", uid, "p".repeat(5_000 + src.below(15_000) as usize)) } else { format!("u{}", uid) };
                    let v = ReplicatedValue::with_value(SDS::from_str(&text), LamportClock { time: uid, replica_id: rid });
                    let d = ReplicationDelta::new(key.clone(), v, rid);
                    let json = serde_json::to_string(&d).unwrap_or_default();
                    pendings[(w - 1) as usize].lock().unwrap().push(d);
                    upds.insert(uid, Upd { key, writer: w, after_heal: healed || !with_faults, json });
                    fp = fnv(fp, format!("w{}:{}", w, uid).as_bytes());
                }
                src.end();
            }
            // run for about one gossip interval, with faults landing inside it
            let until = tokio::time::Instant::now() + std::time::Duration::from_millis(interval_ms + src.below(interval_ms));
            while tokio::time::Instant::now() < until {
                if with_faults && !healed && src.chance(1, 12) {
                    let a = ids[src.idx(ids.len())];
                    let b = ids[src.idx(ids.len())];
                    if a != b {
                        if src.chance(1, 2) {
                            let k = simnet::reset_connections(a as u8, port(b));
                            if k > 0 { rep.fault("gossip_connection_reset"); fp = fnv(fp, format!("r{}>{}", a, b).as_bytes()); }
                            rep.log(ctx.trace && k > 0, || format!("net resets the connection {} -> {}", a, b));
                        } else if refused.insert((a as u8, port(b))) {
                            simnet::set_refused(a as u8, port(b), true);
                            simnet::reset_connections(a as u8, port(b));
                            rep.fault("gossip_partition_refusing_connections");
                            fp = fnv(fp, format!("p{}>{}", a, b).as_bytes());
                            rep.log(ctx.trace, || format!("net partitions {} -> {} (connections reset and refused)", a, b));
                        }
                    }
                }
                sched.step(src, 1).await;
            }
        }
        // settle: five more intervals without faults
        let until = tokio::time::Instant::now() + std::time::Duration::from_millis(5 * interval_ms);
        while tokio::time::Instant::now() < until { sched.step(src, 1).await; }
        let ms = t0.elapsed().as_millis() as u64;
        let st = simnet::stats();
        let steps = sched.steps;
        drop(sched);
        simnet::reset(cap);
        (upds, ms, steps, st)
    });
    rep.sim_ms += sim_ms;
    rep.steps += steps;
    if stats.short_writes > 0 { rep.fault("gossip_short_socket_write"); }
    if stats.refused > 0 { rep.probe("manager_connect_refused"); }
    rep.probe_n("manager_bytes_on_wire", stats.bytes_written);

    // ---- oracle
    let got = received.lock().unwrap();
    let ring = ring.read().unwrap();
    let mut by_uid: BTreeMap<u64, BTreeSet<u64>> = BTreeMap::new();
    let mut problems: Vec<(&'static str, String)> = Vec::new();
    for (node, d) in got.iter() {
        rep.evals += 1;
        let uid = d.value.timestamp.time;
        let Some(u) = upds.get(&uid) else { problems.push((K_MGR_FOREIGN, format!("node {} was handed an update of key {:?} stamped {} that no node wrote", node, d.key, uid))); continue };
        let json = serde_json::to_string(d).unwrap_or_default();
        if json != u.json { problems.push((K_MGR_ALTERED, format!("node {} was handed update u{} as {} but node {} wrote {}", node, uid, &json[..json.len().min(200)], u.writer, &u.json[..u.json.len().min(200)]))); continue; }
        if *node == u.writer { problems.push((K_MGR_TO_SENDER, format!("node {} was handed its own update u{} of key {:?}", node, uid, u.key))); }
        if selective && !ring.get_replicas(&u.key).contains(&ReplicaId::new(*node)) {
            problems.push((K_MGR_NON_OWNER, format!("selective gossip: node {} was handed update u{} of key {:?} written on node {}, but the key's replicas are {:?} (RF={}, {} nodes)", node, uid, u.key, u.writer, ring.get_replicas(&u.key).iter().map(|r| r.0).collect::<Vec<_>>(), rf, n)));
        }
        by_uid.entry(uid).or_default().insert(*node);
    }
    rep.probe_n("manager_updates_delivered", got.len() as u64);
    for (uid, u) in &upds {
        if !u.after_heal { continue; }
        rep.evals += 1;
        let expect: BTreeSet<u64> = if selective { ring.get_replicas(&u.key).iter().map(|r| r.0).filter(|r| *r != u.writer).collect() } else { ids.iter().copied().filter(|r| *r != u.writer).collect() };
        let have = by_uid.get(uid).cloned().unwrap_or_default();
        let missing: Vec<u64> = expect.difference(&have).copied().collect();
        if !missing.is_empty() {
            let key = if selective { K_MGR_STARVED } else { K_MGR_BCAST };
            problems.push((key, format!("{}: update u{} of key {:?} written on node {} {} never reached node(s) {:?} within five gossip intervals of a healthy network (it reached {:?}; expected {:?}; {} nodes, RF={}, peers of node {} in its configuration: ids {:?} in id order)",
                if selective { "selective gossip through GossipManager" } else { "broadcast gossip through GossipManager" }, uid, u.key, u.writer, if with_faults { "after the faults had stopped" } else { "in a fault-free run" }, missing, have, expect, n, rf, u.writer, ids.iter().filter(|i| **i != u.writer).collect::<Vec<_>>())));
        }
    }
    if !upds.is_empty() { rep.nontrivial = true; }
    rep.fingerprint = fnv(fp, &(got.len() as u64).to_le_bytes());
    rep.sub_fps.push(rep.fingerprint);
    let mut seen = BTreeSet::new();
    for (k, m) in problems {
        if !seen.insert(k) { continue; }
        rep.log(ctx.trace, || format!("!! {}: {}", k, m));
        rep.violate(k, m);
    }
    if ctx.trace { rep.trace.push(format!("{} updates written, {} deliveries; wire: {:?}", upds.len(), got.len(), stats)); }
}
