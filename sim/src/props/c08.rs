//! C08 — newest write wins: a node's stamps only grow, also across restart.
//!
//! One node = real ReplicatedShardedState (16 shard actors) + real delta sink + real
//! StreamingPersistence / CheckpointManager / RecoveryManager on a SimStore + (optionally) the real
//! WAL actor on a SimWalStore, wired as `server_persistent.rs` wires them (that wiring is restated
//! here). A witness node receives every delta the node ever gossips. Events: local writes, remote
//! deltas with stamps far ahead, flush, checkpoint installation, crash (volatile state dropped,
//! WAL cut to its fsynced prefix), recovery from whatever is durable, more writes, second crash.

use crate::model::cluster::{deltas_of, Node};
use crate::model::wire::{show_cmd, R};
use crate::simkit::clock::SimClock;
use crate::simkit::disk::{Seq, SimWalStore};
use crate::simkit::rt;
use crate::simkit::runner::{Property, RunCtx, RunReport, Tier};
use crate::simkit::store::SimStore;
use crate::simkit::tape::{fnv, Src};
use redis_sim::redis::SDS;
use redis_sim::replication::lattice::{LamportClock, ReplicaId};
use redis_sim::replication::state::{CrdtValue, ReplicatedValue, ReplicationDelta};
use redis_sim::replication::ConsistencyLevel;
use redis_sim::streaming::{delta_sink_channel, spawn_wal_actor, CheckpointConfig, CheckpointInfo, CheckpointManager, FsyncPolicy, ManifestManager, RecoveryManager, StreamingPersistence, WalConfig, WalRotator, WriteBufferConfig};
use serde_json::json;
use std::collections::{BTreeMap, HashMap};
use std::sync::Arc;
use std::time::Duration;

pub struct C08;
const PREFIX: &str = "data";
type Cmd = Vec<Vec<u8>>;

fn stamps_of(v: &ReplicatedValue) -> Vec<LamportClock> {
    let mut s = vec![v.timestamp];
    match &v.crdt { CrdtValue::Lww(l) => s.push(l.timestamp), CrdtValue::Hash(h) => s.extend(h.values().map(|l| l.timestamp)), _ => {} }
    s
}
fn show(c: &LamportClock) -> String { format!("({},r{})", c.time, c.replica_id.0) }

#[derive(Debug, Clone)]
enum Ev { Write(Cmd), Remote { key: usize, time: u64, hash: bool, tomb: bool }, Flush, Checkpoint, Crash, GossipToWitness }

impl Property for C08 {
    fn id(&self) -> &'static str { "C08" }
    fn level(&self) -> &'static str { "exploration" }
    fn rule(&self) -> &'static str {
        "one node + witness; <= 30 events: local writes (SET/APPEND/INCR/DEL/HSET/HDEL on 3 keys, now and then FLUSHALL/FLUSHDB), remote deltas from replica 2 with stamps 1..2^48 ahead, flush of the delta sink into a segment, checkpoint installation (snapshot + compact_segments), gossip to the witness, crash at any event followed by recovery from whatever is durable (checkpoint only / segments only / WAL only / mixes; WAL on or off per run). After every acknowledged local write its stamp must exceed every stamp of that key the node held just before and every stamp the node ever issued for it; at the end the witness (merging everything ever emitted) must serve the node's last write of every key that no remote delta superseded. Non-trivial = a write to a key after a recovery that restored that key; distinct = event list"
    }
    fn components_real(&self) -> Vec<&'static str> { vec!["production::ReplicatedShardedState::{execute,apply_recovered_state,apply_remote_deltas,snapshot_state,set_wal_handle,set_delta_sink}", "ReplicatedShardActor (ApplyRecoveredState, ApplyRemoteDelta, record_mutation_post_execute), ShardReplicaState lamport clocks", "streaming::{StreamingPersistence,CheckpointManager,ManifestManager,RecoveryManager}, delta_sink channel", "streaming::wal_actor (Always policy) + WalRotator::recover_all_entries"] }
    fn components_stubbed(&self) -> Vec<&'static str> { vec!["server_persistent main(): recovery and worker wiring restated (integration.recover -> apply_recovered_state; WAL replay of all entries; delta sink drained into StreamingPersistence at flush events instead of by the timer-driven worker)", "ObjectStore -> SimStore, WalStore -> SimWalStore; gossip transport -> direct hand-over of serialized messages"] }
    fn required_probes(&self) -> Vec<&'static str> { vec!["write_after_restart_same_key", "recovered_from_checkpoint", "recovered_from_wal", "remote_delta_far_ahead"] }
    fn runs(&self, tier: Tier) -> u64 { match tier { Tier::Quick => 80000, Tier::Thorough => 2000000 } }

    fn run(&self, src: &mut Src, ctx: &RunCtx) -> RunReport {
        // one run in 250 starts the server the way `main` of server_persistent does, on real files (see below)
        if src.below(250) == 0 { return run_server_lifecycle(src, ctx, "C08"); }
        let mut rep = RunReport::default();
        let b = |s: &str| s.as_bytes().to_vec();
        let wal_on = src.chance(1, 2);
        // half of the runs recover the object store the way the server does: StreamingIntegration::recover into a node
        // (its own recover_with_progress path and its own hand-over to the shards), whose state is then transplanted
        let via_integration = src.chance(1, 2);
        let mut uniq = 0u64;
        let events: Vec<Ev> = src.list(30, 19, 20, |s| {
            uniq += 1;
            let k = s.idx(3);
            match s.below(18) {
                0 | 1 | 2 => Ev::Write(vec![b("SET"), b(&format!("k{}", k)), b(&format!("v{}", uniq))]),
                3 => Ev::Write(vec![b("APPEND"), b(&format!("k{}", k)), b(&format!("+{}", uniq))]),
                4 => Ev::Write(vec![b("INCR"), b("ctr")]),
                5 => Ev::Write(vec![b("DEL"), b(&format!("k{}", k))]),
                6 | 7 => Ev::Write(vec![b("HSET"), b(&format!("h{}", k)), b(&format!("f{}", s.idx(2))), b(&format!("hv{}", uniq))]),
                8 => Ev::Write(vec![b("HDEL"), b(&format!("h{}", k)), b(&format!("f{}", s.idx(2)))]),
                9 | 15 => Ev::Remote { key: k, time: [1u64, 5, 50, 1_000_000, 1 << 33, 1 << 48][s.idx(6)], hash: s.chance(1, 3), tomb: s.chance(1, 3) },
                10 | 11 => Ev::Flush,
                12 => Ev::Checkpoint,
                13 => Ev::GossipToWitness,
                16 if s.chance(1, 2) => Ev::Write(vec![b(if s.chance(1, 2) { "FLUSHALL" } else { "FLUSHDB" })]),
                _ => Ev::Crash,
            }
        });
        // now and then a long-lived node: more than a thousand writes of one hot key over three segments, the
        // first write of a cold shard in the newest of them (so that segments replay in an order that is not the
        // order of the hot key's stamps), then a crash and further writes
        let events: Vec<Ev> = if src.chance(1, 400) {
            rep.probe("long_history_over_1024_deltas");
            let (a, bb, c) = (500 + src.below(200) as usize, 300 + src.below(200) as usize, 60 + src.below(100) as usize);
            let mut ev: Vec<Ev> = Vec::new();
            let mut u = 10_000u64;
            let mut hot = |n: usize, ev: &mut Vec<Ev>| for _ in 0..n { u += 1; ev.push(Ev::Write(vec![b("SET"), b("k0"), b(&format!("v{}", u))])); };
            hot(a, &mut ev); ev.push(Ev::Flush);
            hot(bb, &mut ev); ev.push(Ev::Flush);
            ev.push(Ev::Write(vec![b("SET"), b("k1"), b("cold")]));
            hot(c, &mut ev); ev.push(Ev::Flush);
            ev.push(Ev::Crash);
            hot(2, &mut ev); ev.push(Ev::GossipToWitness);
            ev.extend(events.into_iter().take(6));
            ev
        } else { events };
        let seed = src.u64_any();
        let trace = ctx.trace;
        struct Out { viol: Option<(String, String)>, log: Vec<String>, probes: Vec<&'static str>, evals: u64, crashes: u64 }
        let evs = events.clone();
        let out: Out = rt::block_on(seed, async move {
            let mut o = Out { viol: None, log: vec![], probes: vec![], evals: 0, crashes: 0 };
            let clock = SimClock::new(1_700_000_000_000);
            let store = SimStore::new(); store.set_record(false);
            let wal_store = SimWalStore::new(Seq::default());
            let witness = Node::new(9, ConsistencyLevel::Eventual, &clock);
            let wcfg = WriteBufferConfig { flush_interval: Duration::from_millis(50), max_size_bytes: 1 << 20, max_deltas: 1000, backpressure_threshold_bytes: 1 << 22, compression_enabled: false };
            let walcfg = WalConfig { enabled: true, wal_dir: "/nonexistent".into(), fsync_policy: FsyncPolicy::Always, max_file_size: 600, group_commit_max_entries: 8, group_commit_max_wait: Duration::from_micros(50), truncation_check_interval: Duration::from_secs(30) };
            // everything this node ever issued, per key; and its last acknowledged write per key
            let mut issued: BTreeMap<String, Vec<LamportClock>> = BTreeMap::new();
            let mut last_write: BTreeMap<String, (LamportClock, String)> = BTreeMap::new();
            let mut remote_max: BTreeMap<String, LamportClock> = BTreeMap::new();
            let mut all_emitted: Vec<ReplicationDelta> = Vec::new();
            let mut restored_keys: std::collections::BTreeSet<String> = Default::default();
            let mut remote_seq = 0u64;
            let mut idx = 0usize;
            // indices into all_emitted: [0, durable_upto) survive a crash, [0, gossiped_upto) reached the witness
            let mut durable_upto = 0usize;
            let mut gossiped_upto = 0usize;
            let mut tainted: std::collections::BTreeSet<String> = Default::default();
            // greatest stamp of a remote delta handed to the node for a key during the current incarnation
            let mut received_max: BTreeMap<String, LamportClock> = BTreeMap::new();
            'incarnation: loop {
                // ---- start-up: recover, replay WAL, wire sink and WAL actor (as server_persistent does)
                let mut node = Node::new(1, ConsistencyLevel::Eventual, &clock);
                let (rec_cp, rec_deltas): (Option<HashMap<String, ReplicatedValue>>, Vec<ReplicationDelta>) = if via_integration {
                    use redis_sim::streaming::{StreamingConfig, StreamingIntegration};
                    redis_sim::production::verif_hooks::clock::set(clock.now());
                    let tmp = redis_sim::production::ReplicatedShardedState::new(crate::model::cluster::repl_config(1, ConsistencyLevel::Eventual));
                    let integ = StreamingIntegration::with_store(Arc::new(store.clone()), StreamingConfig { prefix: PREFIX.to_string(), ..StreamingConfig::default() }, 1);
                    let r = integ.recover(&tmp).await;
                    let snap = tmp.snapshot_state().await;
                    redis_sim::production::verif_hooks::clock::clear();
                    if let Err(e) = r { o.viol = Some(("C08/recovery-failed".into(), e.to_string())); return o; }
                    if !o.probes.contains(&"recovered_through_streaming_integration") { o.probes.push("recovered_through_streaming_integration"); }
                    (if snap.is_empty() { None } else { Some(snap) }, Vec::new())
                } else {
                    match RecoveryManager::new(store.clone(), PREFIX, 1).recover().await { Ok(r) => (r.checkpoint_state, r.deltas), Err(e) => { o.viol = Some(("C08/recovery-failed".into(), e.to_string())); return o; } }
                };
                if rec_cp.is_some() && !via_integration { o.probes.push("recovered_from_checkpoint"); }
                if o.crashes > 0 && trace { o.log.push(format!("recovery{}: checkpoint={} segments_deltas={}", if via_integration { " (through StreamingIntegration::recover into a node, state transplanted)" } else { "" }, rec_cp.as_ref().map(|c| c.len()).unwrap_or(0), rec_deltas.len())); }
                node.state.apply_recovered_state(rec_cp, rec_deltas);
                if wal_on {
                    let rot = WalRotator::new(SimWalStore::from_image(&wal_store.durable_image()), walcfg.max_file_size).expect("rotator");
                    let ds: Vec<ReplicationDelta> = rot.recover_all_entries().unwrap_or_default().iter().filter_map(|e| e.to_delta().ok()).collect();
                    if !ds.is_empty() && o.crashes > 0 { o.probes.push("recovered_from_wal"); }
                    if o.crashes > 0 && trace { o.log.push(format!("recovery: {} WAL entries replayed", ds.len())); }
                    node.state.apply_recovered_state(None, ds);
                }
                let snap0 = node.snapshot().await;
                if o.crashes > 0 { restored_keys = snap0.keys().cloned().collect(); }
                let (sink_tx, sink_rx) = delta_sink_channel();
                node.state.set_delta_sink(sink_tx);
                let mut persistence = match StreamingPersistence::with_clock(Arc::new(store.clone()), PREFIX.to_string(), 1, wcfg.clone(), clock.clone()).await { Ok(p) => p, Err(e) => { o.viol = Some(("C08/setup".into(), e.to_string())); return o; } };
                if wal_on {
                    // a fresh actor on the surviving files (crash image becomes the live store)
                    let img = wal_store.durable_image();
                    { let mut d = wal_store.inner.lock().unwrap(); d.files.clear(); for (n, bts) in &img { d.files.insert(n.clone(), crate::simkit::disk::SimFile { data: bts.clone(), synced: bts.len() }); } }
                    match spawn_wal_actor(wal_store.clone(), walcfg.clone()) { Ok((h, _)) => node.state.set_wal_handle(h), Err(e) => { o.viol = Some(("C08/setup-wal".into(), e.to_string())); return o; } }
                }
                // ---- events of this incarnation
                while idx < evs.len() {
                    let ev = evs[idx].clone(); idx += 1;
                    match ev {
                        Ev::Write(c) => {
                            let key = c.get(1).map(|k| String::from_utf8_lossy(k).into_owned()).unwrap_or_default();
                            // FLUSHALL/FLUSHDB is not replicated: what the node acknowledged before it is no longer what it
                            // claims to hold, so the end-to-end comparison with the witness starts afresh (stamps still only grow)
                            if c.len() == 1 { o.probes.push("flush_all_then_more_writes"); last_write.clear(); }
                            let before = node.snapshot().await;
                            let seen: Vec<LamportClock> = before.get(&key).map(stamps_of).unwrap_or_default();
                            let r = node.exec(&c).await;
                            let emitted: Vec<ReplicationDelta> = node.pump().await.iter().flat_map(|m| deltas_of(m)).collect();
                            if trace { o.log.push(format!("node1: {} -> {}  emitted {}", show_cmd(&c), r.show(), emitted.iter().map(|d| format!("{}@{}", d.key, show(&d.value.timestamp))).collect::<Vec<_>>().join(","))); }
                            for d in &emitted {
                                o.evals += 1;
                                let new = d.value.timestamp;
                                let name = String::from_utf8_lossy(&c[0]).to_uppercase();
                                // a no-op HDEL re-emits the current state: not a new write
                                let is_write = !(matches!(name.as_str(), "HDEL" | "DEL") && matches!(r, R::Int(0)));
                                if is_write {
                                    if restored_keys.contains(&d.key) { o.probes.push("write_after_restart_same_key"); }
                                    if let Some(m) = seen.iter().max() {
                                        if new <= *m {
                                            let k = if restored_keys.contains(&d.key) && o.crashes > 0 { "C08/stamp-not-above-recovered-value" } else { "C08/stamp-not-above-seen-value" };
                                            o.viol = Some((k.into(), format!("{} acknowledged with stamp {} although the node already held {} stamped {} (after {} crash/recovery cycles, WAL {})", show_cmd(&c), show(&new), d.key, show(m), o.crashes, if wal_on { "on" } else { "off" })));
                                            return o;
                                        }
                                    }
                                    if let Some(m) = received_max.get(&d.key) {
                                        if new <= *m {
                                            o.viol = Some(("C08/stamp-not-above-received-remote-value".into(), format!("{} acknowledged with stamp {} although the node had received a remote update of {} stamped {} earlier in this incarnation", show_cmd(&c), show(&new), d.key, show(m))));
                                            return o;
                                        }
                                    }
                                    if let Some(m) = issued.get(&d.key).and_then(|v| v.iter().max()) {
                                        if new <= *m { o.viol = Some(("C08/stamp-repeats-or-decreases".into(), format!("{} got stamp {} but this node had already issued {} for {}", show_cmd(&c), show(&new), show(m), d.key))); return o; }
                                    }
                                    issued.entry(d.key.clone()).or_default().push(new);
                                    last_write.insert(d.key.clone(), (new, crate::model::crdt::visible(&d.value).to_string()));
                                }
                                all_emitted.push(d.clone());
                            }
                            if wal_on { durable_upto = all_emitted.len(); } // always-fsync WAL: acknowledged = durable
                        }
                        Ev::Remote { key, time, hash, tomb } => {
                            remote_seq += 1;
                            let hash = hash && !tomb;
                            let rid = ReplicaId::new(2);
                            let name = if hash { format!("h{}", key) } else { format!("k{}", key) };
                            let base = node.snapshot().await.get(&name).map(|v| stamps_of(v).iter().map(|c| c.time).max().unwrap_or(0)).unwrap_or(0);
                            let ts = LamportClock { time: base + time + remote_seq, replica_id: rid };
                            let val = if hash { let mut v = ReplicatedValue::new(rid); v.crdt = CrdtValue::new_hash(); let mut c2 = LamportClock { time: ts.time - 1, replica_id: rid }; v.hash_set(format!("f{}", remote_seq % 2), SDS::from_str(&format!("remote{}", remote_seq)), &mut c2); v } else if tomb { let mut v = ReplicatedValue::with_value(SDS::from_str("gone"), LamportClock { time: ts.time - 1, replica_id: rid }); let mut c2 = LamportClock { time: ts.time - 1, replica_id: rid }; v.delete(&mut c2); v } else { ReplicatedValue::with_value(SDS::from_str(&format!("remote{}", remote_seq)), ts) };
                            let d = ReplicationDelta::new(name.clone(), val, rid);
                            if time >= 1_000_000 { o.probes.push("remote_delta_far_ahead"); }
                            if time >= 1 << 33 { o.probes.push("remote_delta_over_2_to_the_32_ahead"); }
                            if trace { o.log.push(format!("remote delta from r2: {} @{}", name, show(&d.value.timestamp))); }
                            let m = remote_max.entry(name.clone()).or_insert(d.value.timestamp); if d.value.timestamp > *m { *m = d.value.timestamp; }
                            let m2 = received_max.entry(name).or_insert(d.value.timestamp); if d.value.timestamp > *m2 { *m2 = d.value.timestamp; }
                            all_emitted.push(d.clone());
                            node.state.apply_remote_deltas(vec![d]);
                            let _ = node.snapshot().await;
                        }
                        Ev::Flush => {
                            for d in sink_rx.drain() { let _ = persistence.push(d); }
                            let r = persistence.flush().await;
                            if r.is_ok() { durable_upto = all_emitted.len(); }
                            if trace { o.log.push(format!("flush -> {}", if r.is_ok() { "Ok" } else { "Err" })); }
                        }
                        Ev::Checkpoint => {
                            for d in sink_rx.drain() { let _ = persistence.push(d); }
                            let _ = persistence.flush().await;
                            let state: HashMap<String, ReplicatedValue> = node.state.snapshot_state().await;
                            let mm = ManifestManager::new(store.clone(), PREFIX);
                            if let Ok(mut manifest) = mm.load().await {
                                let last_id = manifest.segments.iter().map(|s| s.id).max().unwrap_or(0);
                                let cm = CheckpointManager::with_time_source(Arc::new(store.clone()), PREFIX.to_string(), mm.clone(), CheckpointConfig::default(), clock.clone());
                                clock.advance(1);
                                if let Ok(r) = cm.create_checkpoint(state, last_id).await {
                                    manifest.compact_segments(CheckpointInfo { key: r.key, timestamp_ms: r.timestamp_ms, key_count: r.key_count, last_segment_id: r.last_segment_id });
                                    let _ = mm.save(&manifest).await;
                                    durable_upto = all_emitted.len();
                                    if trace { o.log.push(format!("checkpoint installed over segments <= {}", last_id)); }
                                }
                            }
                        }
                        Ev::GossipToWitness => { witness.state.apply_remote_deltas(all_emitted.clone()); let _ = witness.snapshot().await; gossiped_upto = all_emitted.len(); }
                        Ev::Crash => {
                            o.crashes += 1;
                            if trace { o.log.push(format!("CRASH #{} (unflushed sink entries lost: {})", o.crashes, sink_rx.drain().len())); }
                            // what was neither durable nor gossiped is simply gone; what was gossiped but not
                            // durable is outside the property (nothing on disk to recover the stamp from):
                            // such keys are not judged end to end
                            let lost: Vec<ReplicationDelta> = all_emitted.split_off(durable_upto.min(all_emitted.len()));
                            for (j, d) in lost.into_iter().enumerate() {
                                if d.source_replica.0 != 1 { all_emitted.push(d); continue; }
                                if durable_upto + j < gossiped_upto { tainted.insert(d.key.clone()); all_emitted.push(d.clone()); }
                                if let Some(v) = issued.get_mut(&d.key) { v.retain(|s| *s != d.value.timestamp); }
                                if last_write.get(&d.key).map(|(s, _)| *s == d.value.timestamp).unwrap_or(false) { last_write.remove(&d.key); }
                            }
                            durable_upto = all_emitted.len(); gossiped_upto = gossiped_upto.min(all_emitted.len());
                            received_max.clear(); // remote updates are not persisted by the receiving node
                            drop(persistence); drop(node);
                            if o.crashes >= 3 { idx = evs.len(); }
                            continue 'incarnation;
                        }
                    }
                }
                break;
            }
            // ---- end to end: the witness merges everything ever emitted
            witness.state.apply_remote_deltas(all_emitted.clone());
            let wsnap = witness.snapshot().await;
            for (k, (stamp, vis)) in &last_write {
                if remote_max.get(k).map(|r| r > stamp).unwrap_or(false) { continue; } // legitimately superseded by a remote write
                if tainted.contains(k) { continue; }
                o.evals += 1;
                let got = wsnap.get(k).map(|v| crate::model::crdt::visible(v).to_string()).unwrap_or_default();
                // for hashes the last write names one field; compare that the witness holds the written stamp as winner of the key
                let wmax = wsnap.get(k).map(|v| stamps_of(v).into_iter().max().unwrap_or(v.timestamp));
                if wmax.map(|m| m < *stamp).unwrap_or(true) || (!k.starts_with('h') && got != *vis) {
                    o.viol = Some(("C08/last-acknowledged-write-lost-at-peer".into(), format!("key {}: the node's last acknowledged write {} {} is not what a peer that merged every delta serves ({}; greatest stamp there {:?})", k, show(stamp), vis, got, wmax.map(|m| show(&m)))));
                    return o;
                }
            }
            o
        });
        rep.trace = out.log;
        if let Some((k, m)) = out.viol { rep.violate(k, m); }
        for p in &out.probes { rep.probe(p); }
        if out.crashes > 0 { *rep.faults.entry("node_crash_and_recovery").or_insert(0) += out.crashes; }
        rep.evals = out.evals.max(1);
        rep.nontrivial = out.probes.contains(&"write_after_restart_same_key");
        let mut fp = fnv(0, &[wal_on as u8, via_integration as u8]);
        for e in &events { fp = fnv(fp, format!("{:?}", e).as_bytes()); }
        rep.fingerprint = fp;
        rep.sample = Some(json!({"wal": wal_on, "events": events.iter().map(|e| match e { Ev::Write(c) => show_cmd(c), Ev::Remote { key, time, hash, tomb } => format!("remote delta key{} +{}{}{}", key, time, if *hash { " (hash)" } else { "" }, if *tomb { " (tombstone)" } else { "" }), o2 => format!("{:?}", o2) }).collect::<Vec<_>>() }));
        rep
    }
}


static LIFECYCLE_DIRS: std::sync::atomic::AtomicU64 = std::sync::atomic::AtomicU64::new(0);

/// The start-up wiring in the middle of `main` of `src/bin/server_persistent.rs` — object-store recovery through the
/// integration, replay of the whole WAL, persistence workers and delta sink, WAL actor — copied out verbatim by
/// build.rs (`sp_bin::verif_startup`) and run as it is: local-filesystem object store and local WAL files in a
/// private scratch directory. Below the store traits this is real file I/O, so the crash model here is the death
/// of the process (everything written survives, everything only in memory is gone): each incarnation lives on its
/// own runtime, which is dropped with all its tasks. With the always-fsync WAL every acknowledged local write must
/// be served again after any restart; without a WAL that is required after a graceful shutdown (WAL actor first,
/// then the persistence workers, as `main` does it). In every incarnation a write must get a stamp above whatever
/// the restarted node holds for the key.
pub fn run_server_lifecycle(src: &mut Src, ctx: &RunCtx, prop: &'static str) -> RunReport {
    use crate::model::cluster::repl_config;
    use crate::model::wire::parse_cmd;
    use redis_sim::redis::CommandExecutor;
    let mut rep = RunReport::default();
    rep.probe("server_startup_wiring_on_real_files");
    if !crate::sp_bin::STARTUP_AVAILABLE { rep.probe("server_startup_wiring_unavailable"); rep.evals = 1; return rep; }
    let b = |s: &str| s.as_bytes().to_vec();
    let wal_on = src.chance(2, 3);
    // events: 0-5 local write, 6 remote delta, 7 restart after a crash, 8 restart after a graceful shutdown
    let mut uniq = 0u64;
    let events: Vec<(u64, Cmd, usize)> = src.list(24, 15, 16, |s| {
        uniq += 1;
        let k = s.idx(3);
        let kind = s.weighted(&[4, 2, 2, 1, 2, 1, 2, 3, 2]) as u64;
        let c = match kind {
            0 => vec![b("SET"), b(&format!("k{}", k)), b(&format!("v{}", uniq))],
            1 => vec![b("APPEND"), b(&format!("k{}", k)), b(&format!("+{}", uniq))],
            2 => vec![b("INCR"), b("ctr")],
            3 => vec![b("DEL"), b(&format!("k{}", k))],
            4 => vec![b("HSET"), b(&format!("h{}", k)), b(&format!("f{}", s.idx(2))), b(&format!("hv{}", uniq))],
            5 => vec![b("HDEL"), b(&format!("h{}", k)), b(&format!("f{}", s.idx(2)))],
            _ => vec![],
        };
        (kind, c, k)
    });
    let trace = ctx.trace;
    let root = std::env::temp_dir().join(format!("verif-c08-{}-{}", std::process::id(), LIFECYCLE_DIRS.fetch_add(1, std::sync::atomic::Ordering::Relaxed)));
    let _ = std::fs::remove_dir_all(&root);
    // no scratch space (read-only or full temp dir): nothing to say about the server, and never an alarm
    if std::fs::create_dir_all(&root).is_err() || std::fs::write(root.join(".probe"), b"x").is_err() { rep.probe("scratch_directory_unavailable"); rep.evals = 1; let _ = std::fs::remove_dir_all(&root); return rep; }
    let (data, wal_dir) = (root.join("data"), root.join("wal"));
    let mut twin = CommandExecutor::new();
    let mut tainted: std::collections::BTreeSet<String> = Default::default();
    let mut judge_values = true;
    let mut idx = 0usize;
    let mut incarnation = 0u64;
    let mut fp = fnv(0x5E, &[wal_on as u8]);
    for (k, c, _) in &events { fp = fnv(fp, &[*k as u8]); for a in c { fp = fnv(fp, a); } }
    rep.fingerprint = fp;
    let mut remote_seq = 0u64;
    while idx <= events.len() && incarnation < 5 {
        incarnation += 1;
        struct Out { viol: Option<(String, String)>, log: Vec<String>, evals: u64, next: usize, graceful: bool, wrote_after_restore: bool, twin: CommandExecutor, tainted: std::collections::BTreeSet<String>, remote_seq: u64 }
        let (evs, data2, wal2, twin_in, tainted_in) = (events.clone(), data.clone(), wal_dir.clone(), std::mem::replace(&mut twin, CommandExecutor::new()), tainted.clone());
        let start = idx;
        let inc = incarnation;
        let judge = judge_values;
        let rs_in = remote_seq;
        let out: Out = rt::block_on(0xC08 + incarnation, async move {
            let mut o = Out { viol: None, log: vec![], evals: 0, next: evs.len() + 1, graceful: false, wrote_after_restore: false, twin: twin_in, tainted: tainted_in, remote_seq: rs_in };
            redis_sim::production::verif_hooks::clock::set(1_700_000_000_000 + inc * 60_000);
            let walcfg = if wal_on { Some(WalConfig { enabled: true, wal_dir: wal2.clone(), fsync_policy: FsyncPolicy::Always, max_file_size: 700, group_commit_max_entries: 8, group_commit_max_wait: Duration::from_micros(50), truncation_check_interval: Duration::from_secs(30) }) } else { None };
            let (state, handles, wal) = match crate::sp_bin::verif_startup("localfs", data2.clone(), walcfg, repl_config(1, ConsistencyLevel::Eventual)).await {
                Ok(x) => x,
                Err(e) => {
                    let m = e.to_string();
                    // the scratch file system itself gave up (full, read-only, quota): an environment problem, not a verdict
                    let env = ["No space left", "Permission denied", "Read-only file system", "Disk quota", "Too many open files"].iter().any(|p| m.contains(p));
                    if !env { o.viol = Some((format!("{}/server-startup-failed", prop), format!("incarnation {}: the start-up block of main() failed on its own files: {}", inc, m))); }
                    o.next = evs.len() + 1;
                    return o;
                }
            };
            async fn view(state: &redis_sim::production::ReplicatedShardedState, key: &str) -> String {
                let bb = |s: &str| s.as_bytes().to_vec();
                let g = match parse_cmd(&[bb("GET"), bb(key)]) { Ok(c) => R::from_resp(&state.execute(c).await), Err(e) => R::Err(e) };
                let h = match parse_cmd(&[bb("HGETALL"), bb(key)]) { Ok(c) => R::from_resp(&state.execute(c).await), Err(e) => R::Err(e) };
                let h = match h { R::Arr(Some(xs)) if xs.len() % 2 == 0 => { let mut p: Vec<(R, R)> = xs.chunks(2).map(|c| (c[0].clone(), c[1].clone())).collect(); p.sort(); R::Arr(Some(p.into_iter().flat_map(|(a, b)| [a, b]).collect())) } o => o };
                format!("GET={} HGETALL={}", g.show(), h.show())
            }
            fn view_twin(twin: &mut CommandExecutor, key: &str) -> String {
                let bb = |s: &str| s.as_bytes().to_vec();
                let g = match parse_cmd(&[bb("GET"), bb(key)]) { Ok(c) => R::from_resp(&twin.execute(&c)), Err(e) => R::Err(e) };
                let h = match parse_cmd(&[bb("HGETALL"), bb(key)]) { Ok(c) => R::from_resp(&twin.execute(&c)), Err(e) => R::Err(e) };
                let h = match h { R::Arr(Some(xs)) if xs.len() % 2 == 0 => { let mut p: Vec<(R, R)> = xs.chunks(2).map(|c| (c[0].clone(), c[1].clone())).collect(); p.sort(); R::Arr(Some(p.into_iter().flat_map(|(a, b)| [a, b]).collect())) } o => o };
                format!("GET={} HGETALL={}", g.show(), h.show())
            }
            // ---- what the restarted node serves = what it had acknowledged
            if inc > 1 && judge {
                for key in ["k0", "k1", "k2", "h0", "h1", "h2", "ctr"] {
                    if o.tainted.contains(key) { continue; }
                    o.evals += 1;
                    let (got, want) = (view(&state, key).await, view_twin(&mut o.twin, key));
                    if got != want {
                        o.viol = Some((format!("{}/server-restart-lost-acknowledged-write", prop), format!("incarnation {} (WAL {}): after the restart the node serves {} for {} but it had acknowledged writes that make it {}", inc, if wal_on { "always-fsync" } else { "off, previous shutdown was graceful" }, got, key, want)));
                        return o;
                    }
                }
            }
            let restored: std::collections::BTreeSet<String> = state.snapshot_state().await.keys().cloned().collect();
            let mut i = start;
            while i < evs.len() {
                let (kind, c, k) = evs[i].clone(); i += 1;
                match kind {
                    0..=5 => {
                        let key = String::from_utf8_lossy(&c[1]).into_owned();
                        let before: Option<LamportClock> = state.snapshot_state().await.get(&key).map(|v| stamps_of(v).into_iter().max().unwrap_or(v.timestamp));
                        let r = match parse_cmd(&c) { Ok(cmd) => R::from_resp(&state.execute(cmd).await), Err(e) => R::Err(e) };
                        let rt_ = match parse_cmd(&c) { Ok(cmd) => R::from_resp(&o.twin.execute(&cmd)), Err(e) => R::Err(e) };
                        if trace { o.log.push(format!("incarnation {}: {} -> {}", inc, show_cmd(&c), r.show())); }
                        o.evals += 1;
                        if !o.tainted.contains(&key) && judge && r != rt_ { o.viol = Some((format!("{}/server-reply-differs-from-history", prop), format!("incarnation {}: {} replied {} but given everything this node had acknowledged before it should reply {}", inc, show_cmd(&c), r.show(), rt_.show()))); return o; }
                        let noop = matches!(kind, 3 | 5) && matches!(r, R::Int(0));
                        if !noop && !matches!(r, R::Err(_)) {
                            let after: Option<LamportClock> = state.snapshot_state().await.get(&key).map(|v| stamps_of(v).into_iter().max().unwrap_or(v.timestamp));
                            if restored.contains(&key) && inc > 1 { o.wrote_after_restore = true; }
                            if let (Some(bf), Some(af)) = (before, after) {
                                if af <= bf { o.viol = Some((format!("{}/stamp-not-above-recovered-value", prop), format!("incarnation {} of the server started by main()'s own wiring: {} acknowledged, but the key's greatest stamp went from {} to {}", inc, show_cmd(&c), show(&bf), show(&af)))); return o; }
                            }
                        }
                    }
                    6 => {
                        o.remote_seq += 1;
                        let rid = ReplicaId::new(2);
                        let name = format!("k{}", k);
                        let base = state.snapshot_state().await.get(&name).map(|v| stamps_of(v).iter().map(|c| c.time).max().unwrap_or(0)).unwrap_or(0);
                        let ts = LamportClock { time: base + 1000 * o.remote_seq, replica_id: rid };
                        state.apply_remote_deltas(vec![ReplicationDelta::new(name.clone(), ReplicatedValue::with_value(SDS::from_str(&format!("remote{}", o.remote_seq)), ts), rid)]);
                        let _ = state.snapshot_state().await;
                        o.tainted.insert(name); // a received update is not made durable by the receiving node
                    }
                    _ => { o.graceful = kind == 8; o.next = i; break; }
                }
            }
            if o.graceful {
                // `main`'s shutdown order: WAL actor first, then the persistence workers
                if let Some((h, join, tick)) = wal { if let Some(t) = tick { t.abort(); } h.shutdown().await; let _ = join.await; }
                if let Some(h) = handles { h.shutdown().await; }
            }
            redis_sim::production::verif_hooks::clock::clear();
            o
        });
        rep.trace.extend(out.log);
        rep.evals += out.evals;
        twin = out.twin; tainted = out.tainted; remote_seq = out.remote_seq;
        if out.wrote_after_restore { rep.probe("write_after_restart_same_key"); rep.nontrivial = true; }
        if let Some((k, m)) = out.viol { rep.violate(k, m); break; }
        if out.next > events.len() { break; }
        idx = out.next;
        *rep.faults.entry(if out.graceful { "server_graceful_restart" } else { "server_process_killed_and_restarted" }).or_insert(0) += 1;
        // without a WAL only a graceful shutdown makes everything durable; after a kill the values are no longer judged
        if !wal_on && !out.graceful { judge_values = false; }
    }
    redis_sim::production::verif_hooks::clock::clear();
    let _ = std::fs::remove_dir_all(&root);
    rep.evals = rep.evals.max(1);
    rep.sample = Some(json!({"mode": "server start-up wiring on real files", "wal": wal_on, "events": events.iter().map(|(k, c, _)| match k { 0..=5 => show_cmd(c), 6 => "remote delta".to_string(), 7 => "kill + restart".to_string(), _ => "graceful shutdown + restart".to_string() }).collect::<Vec<_>>() }));
    rep
}
