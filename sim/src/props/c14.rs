//! C14 — stored and gossiped updates round-trip; damaged storage is detected, not decoded.
//!
//! Round trip at every storage/transport seam the simulations use (delta -> WAL entry -> delta,
//! deltas -> segment -> deltas, state -> checkpoint -> state, GossipMessage -> JSON -> GossipMessage)
//! for values of every replicated type, compared structurally on every serialised field. Damage as
//! an at-rest / in-flight fault: every truncation length, every single-bit flip, 2-bit flips in a
//! byte, bursts <= 32 bits; the reader must report an error (or WAL recovery must end) or return
//! content identical to the original — never different data, never a panic.

use crate::model::crdt::proj_s;
use crate::simkit::runner::{Property, RunCtx, RunReport, Tier};
use crate::simkit::tape::{fnv, mix, Src};
use redis_sim::redis::SDS;
use redis_sim::replication::lattice::{GCounter, GSet, LamportClock, ORSet, PNCounter, ReplicaId, VectorClock};
use redis_sim::replication::state::{CrdtValue, ReplicatedValue, ReplicationDelta};
use redis_sim::replication::GossipMessage;
use redis_sim::streaming::{CheckpointReader, CheckpointWriter, Compression, SegmentReader, SegmentWriter, WalEntry};
use crate::simkit::disk::{Image, Seq, SimWalStore};
use redis_sim::streaming::WalRotator;
use serde_json::json;
use std::collections::HashMap;

pub struct C14;
const H_MODE: usize = 0; const H_ENC: usize = 1; const H_KIND: usize = 2; const H_OFF: usize = 3; const H_ARG: usize = 4;

fn gen_value(src: &mut Src, uniq: &mut u64) -> (String, ReplicatedValue, ReplicaId) {
    *uniq += 1;
    let rid = ReplicaId::new(*src.pick(&[1u64, 2, 3, 0, u64::MAX, 1 << 32]));
    let time = *src.pick(&[1u64, 2, 7, 1000, u64::MAX, u64::MAX - 1, 0, 1 << 53]);
    let ts = LamportClock { time, replica_id: rid };
    let key = match src.below(8) { 0 => String::new(), 1 => "k\u{0}nul".to_string(), 2 => "ключ-🔑".to_string(), 3 => "a".repeat(300), 4 => "k\r\nv".to_string(), 5 => "\"quoted\\\"".to_string(), _ => format!("key:{}", uniq) };
    let bytes = |s: &mut Src| -> Vec<u8> { if s.chance(1, 3000) { return vec![b'z'; (1 << 20) + s.below(3) as usize * 70_000]; } match s.below(7) { 0 => vec![], 1 => vec![0, 255, 13, 10, 0], 2 => (0..=255u8).collect(), 3 => vec![b'x'; 23], 4 => vec![b'y'; 24], 5 => (0..(300 + s.below(900))).map(|i| (i * 7) as u8).collect(), _ => format!("v{}", s.below(1000)).into_bytes() } };
    let mut v = match src.below(9) {
        0 | 1 => ReplicatedValue::with_value(SDS::new(bytes(src)), ts),
        2 => { let mut v = ReplicatedValue::with_value(SDS::new(bytes(src)), ts); let mut c = ts; c.time = c.time.saturating_sub(1); v.delete(&mut c); v.timestamp = ts; v }
        3 => { let mut v = ReplicatedValue::new(rid); v.crdt = CrdtValue::new_hash(); let n = *src.pick(&[1usize, 2, 3, 60]); let mut c = LamportClock { time: time.saturating_sub(n as u64 + 1), replica_id: rid }; for i in 0..n { v.hash_set(format!("f{}", i), SDS::new(bytes(src)), &mut c); if i % 5 == 4 { v.hash_delete(&format!("f{}", i - 1), &mut c); } } v }
        4 => { let mut g = GCounter::new(); for i in 0..=src.below(5) { g.increment_by(ReplicaId::new(i + 1), 1 + src.below(1000)); } let mut v = ReplicatedValue::with_crdt(CrdtValue::GCounter(g), rid); v.timestamp = ts; v }
        5 => { let mut p = PNCounter::new(); p.increment_by(rid, src.below(100)); p.decrement_by(ReplicaId::new(7), src.below(100)); let mut v = ReplicatedValue::with_crdt(CrdtValue::PNCounter(p), rid); v.timestamp = ts; v }
        6 => { let mut g = GSet::new(); for i in 0..src.below(6) { g.add(format!("e{}", i)); } let mut v = ReplicatedValue::with_crdt(CrdtValue::GSet(g), rid); v.timestamp = ts; v }
        7 => { let mut o = ORSet::new(); for i in 0..=src.below(5) { o.add(format!("e{}", i % 3), ReplicaId::new(1 + i % 2)); } if src.chance(1, 2) { o.remove(&"e0".to_string()); } let mut v = ReplicatedValue::with_crdt(CrdtValue::ORSet(o), rid); v.timestamp = ts; v }
        _ => ReplicatedValue::new(rid),
    };
    if src.chance(1, 3) { v.expiry_ms = Some(*src.pick(&[0u64, 1, 1500, u64::MAX])); }
    if src.chance(1, 3) { let mut vc = VectorClock::new(); for i in 0..*src.pick(&[1u64, 3, 40]) { for _ in 0..=(i % 3) { vc.increment(ReplicaId::new(i)); } } v.vector_clock = Some(vc); }
    if src.chance(1, 5) { v.replication_factor = Some(*src.pick(&[0u8, 1, 3, 255])); }
    (key, v, rid)
}

/// True if the value's encoding does not depend on any HashMap/HashSet iteration order (every
/// map or set inside holds at most one entry): only such values are damaged, so that a failing
/// mutation offset means the same thing in every process and the replay file reproduces.
fn order_free(v: &ReplicatedValue) -> bool {
    fn walk(x: &serde_json::Value, under_map: bool) -> bool {
        match x {
            serde_json::Value::Object(m) => {
                if under_map && m.len() > 1 { return false; }
                m.iter().all(|(k, c)| walk(c, matches!(k.as_str(), "Hash" | "counts" | "elements" | "next_sequence" | "clocks") || (under_map && c.is_object() && !c.get("timestamp").is_some())))
            }
            serde_json::Value::Array(a) => { if under_map && a.len() > 1 && !a.iter().all(|e| e.is_number()) { return false; } a.iter().all(|c| walk(c, under_map && !c.is_number())) }
            _ => true,
        }
    }
    walk(&serde_json::to_value(v).unwrap_or(serde_json::Value::Null), false)
}

fn dsig(d: &ReplicationDelta) -> String { format!("{:?}|{}|{}", d.key, d.source_replica.0, proj_s(&d.value)) }

/// Decode an image of encoding `enc`; Ok(signatures) or Err(reader's error).
fn decode(enc: u64, img: &[u8], raw: bool) -> Result<Vec<String>, String> {
    match enc {
        0 => { // a WAL file (header + entries) read back by the real recovery path (WalRotator -> WalReader)
            let mut image = Image::new();
            image.insert("wal-00000001.wal".to_string(), img.to_vec());
            let rot = WalRotator::new(SimWalStore::from_image(&image), 1 << 30).map_err(|e| e.to_string())?;
            let mut out = Vec::new();
            for e in rot.recover_all_entries().map_err(|e| e.to_string())? {
                if raw { out.push(format!("{}:{:08x}:{}", e.timestamp, e.checksum, fnv(0, &e.data))); } else { match e.to_delta() { Ok(d) => out.push(dsig(&d)), Err(er) => return Err(er.to_string()) } }
            }
            Ok(out)
        }
        1 => { let r = SegmentReader::open(img).map_err(|e| e.to_string())?; r.validate().map_err(|e| e.to_string())?; let ds: Result<Vec<_>, _> = r.deltas().map_err(|e| e.to_string())?.collect(); Ok(ds.map_err(|e| e.to_string())?.iter().map(dsig).collect()) }
        2 => { let r = CheckpointReader::open(img).map_err(|e| e.to_string())?; r.validate().map_err(|e| e.to_string())?; let d = r.load().map_err(|e| e.to_string())?; let mut v: Vec<String> = d.state.iter().map(|(k, v)| format!("{:?}|{}", k, proj_s(v))).collect(); v.sort(); v.push(format!("meta:{}:{}:{}", r.key_count(), r.timestamp_ms(), r.last_segment_id())); Ok(v) }
        _ => { let m = GossipMessage::deserialize(img).map_err(|e| e.to_string())?; let src_r = m.source_replica().0; let ds = m.into_deltas().unwrap_or_default(); let mut v: Vec<String> = ds.iter().map(dsig).collect(); v.push(format!("from:{}", src_r)); Ok(v) }
    }
}
/// The WAL file as the real writer lays it out: header, then one entry per update.
fn wal_file(deltas: &[ReplicationDelta]) -> Result<Vec<u8>, String> {
    let wstore = SimWalStore::new(Seq::default());
    let mut rot = WalRotator::new(wstore.clone(), 1 << 30).map_err(|e| e.to_string())?;
    for d in deltas { let e = WalEntry::from_delta(d, d.value.timestamp.time).map_err(|e| e.to_string())?; rot.append(&e).map_err(|e| e.to_string())?; }
    rot.sync().map_err(|e| e.to_string())?;
    let b = wstore.inner.lock().unwrap().files.values().next().map(|f| f.data.clone()).unwrap_or_default();
    Ok(b)
}
fn enc_name(e: u64) -> &'static str { ["wal-entries", "segment", "checkpoint", "gossip-json"][e as usize % 4] }

#[derive(Clone, Copy, Debug)]
enum Mut { Trunc(usize), Flip(usize, u8), Flip2(usize, u8, u8), Burst(usize, u32) }
fn apply(img: &[u8], m: Mut) -> Vec<u8> {
    let mut o = img.to_vec();
    match m { Mut::Trunc(l) => o.truncate(l), Mut::Flip(b, bit) => o[b] ^= 1 << bit, Mut::Flip2(b, x, y) => { o[b] ^= 1 << x; o[b] ^= 1 << y; } Mut::Burst(b, p) => { let p = p | 1; for i in 0..4 { if b + i < o.len() { o[b + i] ^= ((p >> (8 * i)) & 0xff) as u8; } } } }
    o
}

impl Property for C14 {
    fn id(&self) -> &'static str { "C14" }
    fn level(&self) -> &'static str { "fault_enumeration" }
    fn rule(&self) -> &'static str {
        "batches of 1-40 (sometimes 1000) updates over every replicated type (LWW strings incl. empty/binary/23-24-byte/1 KiB and occasionally > 1 MiB values, tombstones, hashes with 1-300 fields and field tombstones, G/PN counters, G/OR sets, bare registers), keys with NUL/CR LF/quotes/non-ASCII/empty/300 bytes, stamps and replica ids at 0 and u64::MAX, expiry, vector clocks with up to 40 replicas, RF overrides; each batch encoded as WAL entries, segment, checkpoint and gossip JSON and decoded back (structural equality on every serialised field). Damage per image: every truncation length and every single-bit flip (complete when that is <= 1200 mutations, thorough: <= 30000, i.e. images up to ~130 B / ~3.3 KB; probe image_damage_enumerated_completely counts those), otherwise an evenly spread subset of that size incl. the first/last 64 bytes; 2-bit flips and bursts <= 32 bits sampled. Non-trivial = damage inside an image holding >= 1 update; distinct = (image, mutation)"
    }
    fn components_real(&self) -> Vec<&'static str> { vec!["streaming::wal::WalEntry::{from_delta,encode,decode,to_delta}", "streaming::segment::{SegmentWriter,SegmentReader::{open,validate,deltas}}", "streaming::checkpoint::{CheckpointWriter::write, CheckpointReader::{open,validate,load}}", "replication::gossip::GossipMessage::{serialize,deserialize}", "serde/bincode impls of ReplicatedValue, CrdtValue, SDS, lattices"] }
    fn components_stubbed(&self) -> Vec<&'static str> { vec!["no store/transport: the encoded image is damaged in memory, standing for at-rest corruption and torn reads (C10/C12 run the same readers behind the simulated disk and object store)"] }
    fn assumptions(&self) -> Vec<&'static str> { vec!["gossip JSON carries no checksum: for it only the round trip and 'no panic' are claimed (the property's damage clause names segment, checkpoint and WAL payload)", "a damaged image may decode to content identical to the original (unused or redundant bytes)"] }
    fn required_probes(&self) -> Vec<&'static str> { vec!["roundtrip_all_types", "damage_detected", "damage_harmless_identical", "large_batch", "damaged_segment_met_by_the_compactor"] }
    fn runs(&self, tier: Tier) -> u64 { match tier { Tier::Quick => 1600, Tier::Thorough => 40_000 } }

    fn run(&self, src: &mut Src, ctx: &RunCtx) -> RunReport {
        let mut rep = RunReport::default();
        let mode = src.below(8);
        let h_enc = src.below(4); let h_kind = src.below(4); let h_off = src.below(1 << 22) as usize; let h_arg = src.u64_any();
        let mut uniq = 0u64;
        let n = if src.chance(1, 40) { 1000 } else { 1 + src.idx(24) };
        if n >= 1000 { rep.probe("large_batch"); }
        let small = src.chance(1, 2); // small batches make exhaustive damage affordable
        let n = if small { n.min(3) } else { n };
        let items: Vec<(String, ReplicatedValue, ReplicaId)> = (0..n).map(|_| gen_value(src, &mut uniq)).collect();
        let deltas: Vec<ReplicationDelta> = items.iter().map(|(k, v, r)| ReplicationDelta::new(k.clone(), v.clone(), *r)).collect();
        let want: Vec<String> = deltas.iter().map(dsig).collect();
        let kinds: std::collections::BTreeSet<&'static str> = deltas.iter().map(|d| d.value.crdt_type()).collect();
        if kinds.len() >= 3 { rep.probe("roundtrip_all_types"); }
        // ---- encode
        let mut images: Vec<(u64, Vec<u8>, Vec<String>)> = Vec::new();
        match wal_file(&deltas) { Ok(b) => images.push((0, b, want.clone())), Err(e) => { rep.violate("C14/encode-failed/wal", e); return rep; } }
        { let mut w = SegmentWriter::new(Compression::None); for d in &deltas { if let Err(e) = w.write_delta(d) { rep.violate("C14/encode-failed/segment", e.to_string()); return rep; } } match w.finish() { Ok(b) => images.push((1, b, want.clone())), Err(e) => { rep.violate("C14/encode-failed/segment", e.to_string()); return rep; } } }
        {
            // checkpoint holds a map: one value per key (last wins)
            let mut state: HashMap<String, ReplicatedValue> = HashMap::new();
            for (k, v, _) in &items { state.insert(k.clone(), v.clone()); }
            let mut w: Vec<String> = state.iter().map(|(k, v)| format!("{:?}|{}", k, proj_s(v))).collect(); w.sort();
            let (ts, last) = (*src.pick(&[0u64, 1_700_000_000_000, u64::MAX]), *src.pick(&[0u64, 7, u64::MAX]));
            w.push(format!("meta:{}:{}:{}", state.len(), ts, last));
            match CheckpointWriter::new(Compression::None).write(state, ts, last) { Ok(b) => images.push((2, b, w)), Err(e) => { rep.violate("C14/encode-failed/checkpoint", e.to_string()); return rep; } }
        }
        { let m = GossipMessage::new_delta_batch(ReplicaId::new(3), deltas.clone(), 5); match m.serialize() { Ok(b) => { let mut w = want.clone(); w.push("from:3".into()); images.push((3, b, w)) } Err(e) => { rep.violate("C14/encode-failed/gossip", e.to_string()); return rep; } } }
        // ---- round trip
        // (a WAL file must read back the same whatever rotation size the reading process is configured with:
        // an entry larger than the rotation size is legitimately written whole into the current file)
        if let Some((_, img, w)) = images.iter().find(|(e, _, _)| *e == 0) {
            let mut image = Image::new();
            image.insert("wal-00000001.wal".to_string(), img.clone());
            for max in [17usize, 64, 300] {
                rep.evals += 1;
                let got: Result<Vec<String>, String> = WalRotator::new(SimWalStore::from_image(&image), max).map_err(|e| e.to_string()).and_then(|r| r.recover_all_entries().map_err(|e| e.to_string())).and_then(|es| es.iter().map(|e| e.to_delta().map(|d| dsig(&d)).map_err(|e| e.to_string())).collect());
                match got {
                    Ok(g) if &g == w => { rep.probe("wal_read_with_small_rotation_size"); }
                    Ok(g) => { rep.violate("C14/roundtrip-differs/wal-entries", format!("a WAL file of {} updates read by a rotator configured with max_file_size = {} returns {} of them", w.len(), max, g.len())); return rep; }
                    Err(e) => { rep.violate("C14/roundtrip-fails/wal-entries", format!("a WAL file of {} updates read by a rotator configured with max_file_size = {}: {}", w.len(), max, e)); return rep; }
                }
            }
        }
        for (enc, img, w) in &images {
            rep.evals += 1;
            match decode(*enc, img, false) {
                Ok(got) if &got == w => {}
                Ok(got) => { let i = got.iter().zip(w.iter()).position(|(a, b)| a != b).unwrap_or(got.len().min(w.len())); rep.violate(format!("C14/roundtrip-differs/{}", enc_name(*enc)), format!("{} of {} updates: item {} decoded as {} but was {}", enc_name(*enc), w.len(), i, got.get(i).cloned().unwrap_or_else(|| "<missing>".into()), w.get(i).cloned().unwrap_or_else(|| "<extra>".into()))); return rep; }
                Err(e) => { rep.violate(format!("C14/roundtrip-fails/{}", enc_name(*enc)), format!("{} of {} updates does not decode: {}", enc_name(*enc), w.len(), e)); return rep; }
            }
        }
        // ---- damage (on images whose bytes are the same in every process)
        let thorough = ctx.tier == Tier::Thorough;
        let free: Vec<&(String, ReplicatedValue, ReplicaId)> = items.iter().filter(|(_, v, _)| order_free(v)).collect();
        let fdeltas: Vec<ReplicationDelta> = free.iter().map(|(k, v, r)| ReplicationDelta::new(k.clone(), v.clone(), *r)).collect();
        let fwant: Vec<String> = fdeltas.iter().map(dsig).collect();
        let mut images: Vec<(u64, Vec<u8>, Vec<String>)> = Vec::new();
        if !fdeltas.is_empty() {
            if let Ok(b) = wal_file(&fdeltas) { images.push((0, b, fwant.clone())); }
            { let mut w = SegmentWriter::new(Compression::None); for d in &fdeltas { let _ = w.write_delta(d); } if let Ok(b) = w.finish() { images.push((1, b, fwant.clone())); } }
            { let (k, v, _) = free[0]; let mut state: HashMap<String, ReplicatedValue> = HashMap::new(); state.insert(k.clone(), v.clone()); let w = vec![format!("{:?}|{}", k, proj_s(v)), "meta:1:77:3".to_string()]; if let Ok(b) = CheckpointWriter::new(Compression::None).write(state, 77, 3) { images.push((2, b, w)); } }
            { let m = GossipMessage::new_delta_batch(ReplicaId::new(3), fdeltas.clone(), 5); if let Ok(b) = m.serialize() { let mut w = fwant.clone(); w.push("from:3".into()); images.push((3, b, w)); } }
        }
        for (enc, img, w) in &images {
            let len = img.len();
            if len == 0 { continue; }
            // WAL entries are compared by their raw identity (stamp, checksum, payload hash) under damage:
            // decoding the payload of every surviving entry for every mutation would dominate the run
            let w_raw; let w = if *enc == 0 { let r = decode(0, img, true); if r.as_ref().map(|v| v.len()).unwrap_or(0) != w.len() { rep.violate("C14/roundtrip-differs/wal-entries", format!("the intact WAL file of {} updates reads back as {:?} entries", w.len(), r.as_ref().map(|v| v.len()))); return rep; } w_raw = r.unwrap_or_default(); &w_raw } else { w };
            let mut muts: Vec<Mut> = Vec::new();
            if mode == 1 {
                if h_enc != *enc { continue; }
                muts.push(match h_kind { 0 => Mut::Trunc(h_off % (len + 1)), 1 => Mut::Flip(h_off % len, (h_arg % 8) as u8), 2 => Mut::Flip2(h_off % len, (h_arg % 8) as u8, ((h_arg / 8) % 8) as u8), _ => Mut::Burst(h_off % len, h_arg as u32) });
            } else {
                let exhaustive = len <= if thorough { 3000 } else { 700 };
                let mut h = mix(fnv(0, img), h_arg);
                // large images: all of the first/last 64 bytes, plus a sample whose size does not grow with the image
                let t_every = if exhaustive { 1 } else { (len / 300).max(1) as u64 };
                let f_every = if exhaustive { 1 } else { (len * 8 / 700).max(1) as u64 };
                for l in 0..len { if exhaustive || l < 64 || l + 64 >= len { muts.push(Mut::Trunc(l)); } else { h = mix(h, l as u64); if h % t_every == 0 { muts.push(Mut::Trunc(l)); } } }
                for b in 0..len { let dense = exhaustive || b < 64 || b + 64 >= len; for bit in 0..8u8 { if dense { muts.push(Mut::Flip(b, bit)); } else { h = mix(h, (b * 8 + bit as usize) as u64); if h % f_every == 0 { muts.push(Mut::Flip(b, bit)); } } } }
                for _ in 0..(if thorough { 200 } else { 40 }) { h = mix(h, 3); let b = (h % len as u64) as usize; h = mix(h, 5); let x = (h % 8) as u8; let y = ((h >> 8) % 8) as u8; if x != y { muts.push(Mut::Flip2(b, x, y)); } h = mix(h, 7); muts.push(Mut::Burst((h % len as u64) as usize, (h >> 16) as u32)); }
            }
            // bound the work per image: beyond the cap an evenly spread subset is kept
            let cap = if mode == 1 { usize::MAX } else if thorough { 30_000 } else { 1_200 };
            if muts.len() > cap { let k = muts.len().div_ceil(cap); let off = (fnv(0, img) as usize) % k; muts = muts.into_iter().enumerate().filter(|(i, _)| i % k == off).map(|(_, m)| m).collect(); } else if mode != 1 { rep.probe("image_damage_enumerated_completely"); }
            // WAL: where each entry lies in the file, and its stamp (for the read with a stamp threshold below)
            let wal_layout: Vec<(usize, usize, u64)> = if *enc == 0 { let mut off = 16usize; fdeltas.iter().filter_map(|d| WalEntry::from_delta(d, d.value.timestamp.time).ok().map(|e| { let s = off; off += e.disk_size(); (s, off, e.timestamp) })).collect() } else { Vec::new() };
            for m in muts {
                let dmg = apply(img, m);
                if dmg == *img { continue; }
                rep.evals += 1;
                rep.fault(match m { Mut::Trunc(_) => "image_truncated", Mut::Flip(..) => "image_bit_flipped", Mut::Flip2(..) => "image_two_bits_flipped_in_a_byte", Mut::Burst(..) => "image_burst_up_to_32_bits" });
                if *enc == 0 && !wal_layout.is_empty() {
                    // the read that skips entries below a stamp threshold must end at the damage as well: nothing
                    // that lies behind the first damaged byte may come back
                    let at = match m { Mut::Trunc(l) => l, Mut::Flip(b, _) | Mut::Flip2(b, _, _) | Mut::Burst(b, _) => b };
                    if at >= 16 {
                        let intact = wal_layout.iter().take_while(|(_, end, _)| *end <= at).count();
                        let mut stamps: Vec<u64> = wal_layout.iter().map(|x| x.2).collect(); stamps.sort();
                        let thr = stamps[stamps.len() / 2];
                        let allowed = wal_layout[..intact].iter().filter(|x| x.2 >= thr).count();
                        let mut image = Image::new(); image.insert("wal-00000001.wal".to_string(), dmg.clone());
                        if let Ok(rot) = WalRotator::new(SimWalStore::from_image(&image), 1 << 30) {
                            if let Ok(ds) = rot.recover_entries_after(thr) {
                                rep.probe("wal_threshold_read_under_damage");
                                if ds.len() > allowed {
                                    let msg = format!("wal file of {} bytes with {:?}: recover_entries_after({}) returned {} updates although only {} entries with such a stamp lie wholly before the first damaged byte ({} intact entries of {})", len, m, thr, ds.len(), allowed, intact, wal_layout.len());
                                    let (kind, off, arg) = match m { Mut::Trunc(l) => (0u64, l, 0u64), Mut::Flip(b, bit) => (1, b, bit as u64), Mut::Flip2(b, x, y) => (2, b, x as u64 + 8 * y as u64), Mut::Burst(b, p) => (3, b, p as u64) };
                                    rep.retarget = Some(vec![(H_MODE, 1), (H_ENC, *enc), (H_KIND, kind), (H_OFF, off as u64), (H_ARG, arg)]);
                                    rep.violate("C14/damage-not-ending-recovery/wal-threshold-read", msg);
                                    return rep;
                                }
                            }
                        }
                    }
                }
                let res = decode(*enc, &dmg, true);
                let verdict: Option<(String, String)> = match res {
                    Err(_) => { rep.probe("damage_detected"); None }
                    // a segment or checkpoint that lost its tail holds less than was written, whatever a lenient reader makes of
                    // the rest: "any truncation ... is reported as an error" (bit flips may land in bytes nothing depends on)
                    Ok(got) if got == *w && matches!(m, Mut::Trunc(_)) && (*enc == 1 || *enc == 2) => {
                        Some((format!("C14/truncated-image-accepted/{}", enc_name(*enc)), format!("{} image of {} bytes cut to {:?}: open/validate/load accept it as intact (and return the original content)", enc_name(*enc), len, m)))
                    }
                    Ok(got) if got == *w => { rep.probe("damage_harmless_identical"); None }
                    // WAL: recovery may end early at the damaged entry — a strict prefix of the original is fine
                    Ok(got) if *enc == 0 && got.len() < w.len() && got[..] == w[..got.len()] => { rep.probe("damage_detected"); None }
                    Ok(got) => {
                        if *enc == 3 { rep.probe("gossip_json_damage_accepted"); None } // no checksum claimed for gossip JSON
                        else {
                            let i = got.iter().zip(w.iter()).position(|(a, b)| a != b).unwrap_or(got.len().min(w.len()));
                            Some((format!("C14/damage-decoded-as-different-data/{}", enc_name(*enc)), format!("{} image of {} bytes with {:?}: reader accepted it and returned {} items; item {} is {} instead of {}", enc_name(*enc), len, m, got.len(), i, got.get(i).cloned().unwrap_or_else(|| "<missing>".into()), w.get(i).cloned().unwrap_or_else(|| "<absent>".into()))))
                        }
                    }
                };
                rep.sub_fps.push(fnv(fnv(*enc, &(len as u32).to_le_bytes()), format!("{:?}", m).as_bytes()));
                if rep.sub_fps.len() > 64 { rep.sub_fps.truncate(64); }
                if let Some((k, msg)) = verdict {
                    let (kind, off, arg) = match m { Mut::Trunc(l) => (0u64, l, 0u64), Mut::Flip(b, bit) => (1, b, bit as u64), Mut::Flip2(b, x, y) => (2, b, x as u64 + 8 * y as u64), Mut::Burst(b, p) => (3, b, p as u64) };
                    rep.retarget = Some(vec![(H_MODE, 1), (H_ENC, *enc), (H_KIND, kind), (H_OFF, off as u64), (H_ARG, arg)]);
                    rep.log(ctx.trace, || msg.clone());
                    rep.violate(k, msg);
                    return rep;
                }
            }
        }
        rep.evals = rep.evals.max(1);
        // ---- a damaged segment at rest met by the tree's *other* reader of segments: the compactor reads its inputs
        // itself and writes what it decoded into a new segment with a fresh, valid checksum; whatever it does with a
        // damaged input, recovery afterwards must fail or return only what was written
        if rep.violations.is_empty() && src.chance(1, 4) {
            use crate::simkit::store::SimStore;
            use redis_sim::streaming::{CompactionConfig, Compactor, ManifestManager, RecoveryManager, StreamingPersistence, WriteBufferConfig};
            use std::sync::Arc;
            let positions: Vec<u64> = (0..24).map(|_| src.below(1 << 20)).collect();
            let bits: Vec<u8> = (0..24).map(|_| src.below(8) as u8).collect();
            let seed2 = src.u64_any();
            let reached2 = std::sync::Arc::new(std::sync::atomic::AtomicU64::new(0));
            let reached2c = reached2.clone();
            let found: Option<String> = crate::simkit::rt::block_on(seed2, async move {
                let clock = crate::simkit::clock::SimClock::new(1_700_000_000_000);
                let base = SimStore::new(); base.set_record(false);
                let wcfg = WriteBufferConfig { flush_interval: std::time::Duration::from_millis(50), max_size_bytes: 1 << 20, max_deltas: 1000, backpressure_threshold_bytes: 1 << 22, compression_enabled: false };
                let mut p = match StreamingPersistence::with_clock(Arc::new(base.clone()), "data".to_string(), 1, wcfg, clock.clone()).await { Ok(p) => p, Err(_) => return None };
                let mut written: std::collections::BTreeSet<(String, String)> = Default::default();
                let rid = ReplicaId::new(1);
                for seg in 0..2u64 { for i in 0..3u64 { let (k, v) = (format!("cz{}-{}", seg, i), format!("payload-of-{}-{}", seg, i)); written.insert((k.clone(), v.clone())); let _ = p.push(ReplicationDelta::new(k, ReplicatedValue::with_value(SDS::from_str(&v), LamportClock { time: 10 + seg * 3 + i, replica_id: rid }), rid)); } if p.flush().await.is_err() { return None; } }
                let objs = base.inner.lock().unwrap().objs.clone();
                let Some((seg_key, seg_bytes)) = objs.iter().find(|(k, _)| k.contains("/segments/")).map(|(k, v)| (k.clone(), v.clone())) else { return None };
                for (pos, bit) in positions.iter().zip(bits.iter()) {
                    let st = SimStore::from_objects(&objs); st.set_record(false);
                    let mut dmg = seg_bytes.clone(); let at = (*pos as usize) % dmg.len(); dmg[at] ^= 1 << bit;
                    st.inner.lock().unwrap().objs.insert(seg_key.clone(), dmg);
                    let ccfg = CompactionConfig { target_segment_size: 1 << 20, max_segments: 1, min_segments_to_compact: 2, max_segments_per_compaction: 10, tombstone_ttl: std::time::Duration::from_secs(3600), compression_enabled: false };
                    let mut c = Compactor::with_time_source(Arc::new(st.clone()), "data".to_string(), ManifestManager::new(st.clone(), "data"), ccfg, clock.clone());
                    let _ = c.compact().await;
                    if let Ok(rec) = RecoveryManager::new(st.clone(), "data", 1).recover().await {
                        for d in &rec.deltas {
                            let got = (d.key.clone(), d.value.get().map(|s| String::from_utf8_lossy(s.as_bytes()).into_owned()).unwrap_or_default());
                            if !written.contains(&got) { return Some(format!("segment {} with bit {} of byte {} flipped at rest, then Compactor::compact(), then RecoveryManager::recover(): recovery succeeds and returns {:?} = {:?}, which was never written (written: {:?})", seg_key, bit, at, got.0, got.1, written)); }
                        }
                    }
                }
                // the same, met by a compactor that has been running for a while: its first round wrote the segment that is
                // damaged afterwards, a later flush adds a segment, and its second round reads its own output back
                for (pos, bit) in positions.iter().zip(bits.iter()).take(10) {
                    let st = SimStore::from_objects(&objs); st.set_record(false);
                    let ccfg = CompactionConfig { target_segment_size: 1 << 20, max_segments: 1, min_segments_to_compact: 2, max_segments_per_compaction: 10, tombstone_ttl: std::time::Duration::from_secs(3600), compression_enabled: false };
                    let mut c = Compactor::with_time_source(Arc::new(st.clone()), "data".to_string(), ManifestManager::new(st.clone(), "data"), ccfg, clock.clone());
                    if c.compact().await.is_err() { continue; }
                    let mut w2 = written.clone();
                    let mut p2 = match StreamingPersistence::with_clock(Arc::new(st.clone()), "data".to_string(), 1, WriteBufferConfig { flush_interval: std::time::Duration::from_millis(50), max_size_bytes: 1 << 20, max_deltas: 1000, backpressure_threshold_bytes: 1 << 22, compression_enabled: false }, clock.clone()).await { Ok(p) => p, Err(_) => continue };
                    for i in 0..3u64 { let (k, v) = (format!("cz9-{}", i), format!("payload-of-9-{}", i)); w2.insert((k.clone(), v.clone())); let _ = p2.push(ReplicationDelta::new(k, ReplicatedValue::with_value(SDS::from_str(&v), LamportClock { time: 100 + i, replica_id: rid }), rid)); }
                    if p2.flush().await.is_err() { continue; }
                    let segs: Vec<String> = st.inner.lock().unwrap().objs.keys().filter(|k| k.contains("/segments/")).cloned().collect();
                    // the compactor's own output is the segment that was not there before its first round and is not p2's newest
                    let Some(own) = segs.iter().find(|k| !objs.contains_key(*k) && { let b = &st.inner.lock().unwrap().objs[*k]; String::from_utf8_lossy(b).contains("payload-of-0-0") }).cloned() else { continue };
                    { let mut g = st.inner.lock().unwrap(); let b = g.objs.get_mut(&own).unwrap(); let at = (*pos as usize) % b.len(); b[at] ^= 1 << bit; }
                    let _ = c.compact().await;
                    reached2c.fetch_add(1, std::sync::atomic::Ordering::Relaxed);
                    if let Ok(rec) = RecoveryManager::new(st.clone(), "data", 1).recover().await {
                        for d in &rec.deltas {
                            let got = (d.key.clone(), d.value.get().map(|s| String::from_utf8_lossy(s.as_bytes()).into_owned()).unwrap_or_default());
                            if !w2.contains(&got) { return Some(format!("a long-lived Compactor compacts, a flush adds a segment, bit {} of byte {} of the compactor's own output {} flips at rest, the same Compactor compacts again, then RecoveryManager::recover(): recovery succeeds and returns {:?} = {:?}, which was never written", bit, (*pos as usize), own, got.0, got.1)); }
                        }
                    }
                }
                None
            });
            rep.probe("damaged_segment_met_by_the_compactor");
            rep.probe_n("compactor_met_its_own_damaged_output_in_a_later_round", reached2.load(std::sync::atomic::Ordering::Relaxed));
            rep.evals += 24;
            for _ in 0..24 { rep.fault("image_bit_flipped"); }
            if let Some(m) = found { rep.violate("C14/damage-decoded-as-different-data/segment-through-compaction", m); }
        }
        rep.nontrivial = !rep.sub_fps.is_empty();
        rep.fingerprint = fnv(0, want.join("\n").as_bytes());
        rep.sample = Some(json!({"updates": n, "types": kinds, "image_bytes": images.iter().map(|(e, b, _)| format!("{}:{}", enc_name(*e), b.len())).collect::<Vec<_>>(), "first_keys": items.iter().take(4).map(|(k, v, _)| format!("{:?} {}", k, v.crdt_type())).collect::<Vec<_>>() }));
        rep
    }
}
