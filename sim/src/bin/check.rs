fn main() { verif_sim::hello(); println!("ok"); }
