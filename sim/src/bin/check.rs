use std::time::Duration;
use verif_sim::props;
use verif_sim::simkit::runner::{install_panic_hook, replay_file, run_batch, BatchCfg, Tier};

// Counting allocator: lets C15 bound the memory a decoder call may take (per-thread budget; it only
// counts, it never fails an allocation).
#[global_allocator]
static GLOBAL: verif_sim::props::c15::CountingAlloc = verif_sim::props::c15::CountingAlloc;

fn usage() -> ! {
    eprintln!("usage: check <ID> [--tier quick|thorough] [--replay FILE] [--runs N] [--threads N] [--wall SECS]\n       env VERIF_SEED, VERIF_TIER");
    std::process::exit(2);
}

fn main() {
    // C20's fresh-process comparison re-executes this binary with VERIF_C20_DUMP set.
    verif_sim::props::c20::maybe_dump_and_exit();
    let args: Vec<String> = std::env::args().collect();
    if args.len() < 2 { usage(); }
    if args[1] == "selftest" {
        // determinism of the harness itself: same seeds, 16 threads vs 1 thread vs a fresh process
        install_panic_hook();
        let seed: u64 = std::env::var("VERIF_SEED").ok().and_then(|s| s.parse().ok()).unwrap_or(20260924);
        let nruns: u64 = std::env::var("VERIF_SELFTEST_RUNS").ok().and_then(|s| s.parse().ok()).unwrap_or(150);
        if let Ok(id) = std::env::var("VERIF_SELFTEST_DIGEST") {
            let prop = props::by_id(&id).expect("property");
            println!("{}", verif_sim::simkit::runner::digest_batch(prop.as_ref(), seed, nruns, 3, Tier::Quick));
            return;
        }
        let ids: Vec<String> = if args.len() > 2 { args[2..].iter().map(|s| s.to_uppercase()).collect() } else { props::ALL.iter().map(|s| s.to_string()).collect() };
        let mut bad = 0;
        for id in ids {
            let Some(prop) = props::by_id(&id) else { continue };
            if id == "C20" { println!("selftest {}: skipped (its subject is nondeterminism of the repo's simulators; it proves its own determinism in its evidence)", id); continue; }
            let a = verif_sim::simkit::runner::digest_batch(prop.as_ref(), seed, nruns, 16, Tier::Quick);
            let b = verif_sim::simkit::runner::digest_batch(prop.as_ref(), seed, nruns, 1, Tier::Quick);
            let c = std::process::Command::new(std::env::current_exe().unwrap()).arg("selftest").env("VERIF_SELFTEST_DIGEST", &id).env("VERIF_SEED", seed.to_string()).env("VERIF_SELFTEST_RUNS", nruns.to_string()).output().ok().and_then(|o| String::from_utf8_lossy(&o.stdout).trim().parse::<u64>().ok());
            let ok = a == b && Some(a) == c;
            println!("selftest {}: 16 threads {:016x}, 1 thread {:016x}, fresh process {} -> {}", id, a, b, c.map(|x| format!("{:016x}", x)).unwrap_or_else(|| "?".into()), if ok { "deterministic" } else { "NONDETERMINISTIC" });
            if !ok { bad += 1; }
        }
        std::process::exit(if bad == 0 { 0 } else { 2 });
    }
    let id = args[1].to_uppercase();
    let mut tier = match std::env::var("VERIF_TIER").ok().as_deref() { Some("thorough") => Tier::Thorough, _ => Tier::Quick };
    let mut replay = None;
    let mut runs = None;
    let mut threads = std::thread::available_parallelism().map(|n| n.get()).unwrap_or(8).min(16);
    let mut wall = None;
    let mut i = 2;
    while i < args.len() {
        match args[i].as_str() {
            "--tier" => { i += 1; tier = if args.get(i).map(|s| s.as_str()) == Some("thorough") { Tier::Thorough } else { Tier::Quick }; }
            "--replay" => { i += 1; replay = args.get(i).cloned(); }
            "--runs" => { i += 1; runs = args.get(i).and_then(|s| s.parse().ok()); }
            "--threads" => { i += 1; threads = args.get(i).and_then(|s| s.parse().ok()).unwrap_or(threads); }
            "--wall" => { i += 1; wall = args.get(i).and_then(|s| s.parse::<u64>().ok()); }
            _ => usage(),
        }
        i += 1;
    }
    let seed: u64 = std::env::var("VERIF_SEED").ok().and_then(|s| s.parse().ok()).unwrap_or(20260924);
    install_panic_hook();
    let Some(prop) = props::by_id(&id) else { eprintln!("unknown property {}", id); std::process::exit(2) };
    if let Some(path) = replay {
        std::process::exit(replay_file(prop.as_ref(), &path));
    }
    let cfg = BatchCfg {
        seed, tier,
        runs: runs.unwrap_or_else(|| prop.runs(tier)),
        threads,
        wall: Duration::from_secs(wall.unwrap_or(match tier { Tier::Quick => 240, Tier::Thorough => 3000 })),
    };
    std::process::exit(run_batch(prop.as_ref(), &cfg));
}
