pub mod simkit;
pub mod props;
pub mod model;
