pub mod simkit;
pub mod props;
