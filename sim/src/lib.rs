pub mod simkit;
pub mod props;
pub mod model;
pub mod sp_bin;
