pub fn hello() {}
