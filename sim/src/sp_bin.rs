//! The persistent server binary (`/repo/src/bin/server_persistent.rs`) included as a module; see build.rs.
#![allow(dead_code, unused_imports, unused_variables, unexpected_cfgs, clippy::all)]
include!(concat!(env!("OUT_DIR"), "/server_persistent_inc.rs"));
